#!/bin/sh
# usage: confirm_seed.sh <worktree> <seed dir (contains patch.diff, README.md, demo *.rs)> <crate for the demo test dir>
# Confirms: patch applies; workspace tests pass with it; demo fails with it; demo passes without it. Prints a summary line.
wt=$1; sd=$2; crate=${3:-wow_world_messages}
cd "$wt" || exit 9
git checkout -q -- . ; git clean -fdq -- $crate/tests
cmd=$(grep -h "cargo test" "$sd/README.md" | head -1 | sed 's/`//g; s/^.*cargo test/cargo test/')
demo=$(ls "$sd"/*.rs | head -1)
mkdir -p $crate/tests && cp "$demo" $crate/tests/
demofile=$crate/tests/$(basename "$demo")
sh -c "$cmd" > "$sd/confirm_demo_clean.log" 2>&1; clean=$?
git apply "$sd/patch.diff" || { echo "SEED $sd: patch does not apply"; exit 9; }
sh -c "$cmd" > "$sd/confirm_demo_patched.log" 2>&1; patched=$?
rm -f "$demofile"; git clean -fdq -- $crate/tests
cargo test --offline --workspace --no-fail-fast > "$sd/confirm_suite_patched.log" 2>&1; suite=$?
nfail=$(grep -c "\.\.\. FAILED" "$sd/confirm_suite_patched.log")
npass=$(grep -c "\.\.\. ok" "$sd/confirm_suite_patched.log")
git checkout -q -- . ; git clean -fdq -- $crate/tests
echo "SEED $sd: demo_clean_exit=$clean demo_patched_exit=$patched suite_exit=$suite suite_pass=$npass suite_fail=$nfail"
