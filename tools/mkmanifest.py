#!/usr/bin/env python3
"""Regenerates MANIFEST.json from the table below (single source of truth for registered checks)."""
import json, os, sys
V = os.path.dirname(os.path.dirname(os.path.abspath(__file__)))
props = [json.loads(l) for l in open(os.path.join(V, 'properties.jsonl'))]

CHECKS = {
 'C01': dict(cat='exploration', technique='runtime monitoring: differential round-trip monitor, reference wowm model as oracle over event logs of the real codecs',
             text='Real read/write functions of every login and world message are driven with canonical encodings generated from an independent reading of the wowm definitions (policy variants, each-choice branch plans, seeded random values, captured vectors); an offline checker compares consumed length, re-encoded bytes (inflated payload for compressed members), header and a second decode/encode cycle. Held means: on the executions listed in the evidence.',
             note='Trusted: the reference model in ref/ (self-validated on every run against the 229 captured test vectors x flavours), the canonical leaf limits of DESIGN.md 2.1, Python zlib.', ref='3.C01'),
 'C03': dict(cat='fault_enumeration', technique='runtime monitoring: fault injection on network input with panic capture, counting-allocator budget monitor and watchdog; valgrind memcheck on the zlib path (thorough)',
             text='Every public opcode-enum reader is fed random frames for every opcode and structured corruptions of canonical encodings derived from the reference field maps (truncation at every field boundary, boundary values in every count/length/size field, out-of-range enum/bool/flag/mask/string fields, lying header sizes, corrupt compressed payloads, EOF at every byte). Each decode runs in a supervised worker under catch_unwind, a counting global allocator with a fixed 1 GiB budget and a per-operation watchdog; panics, aborts, reproducible hangs and over-budget requests are violations.',
             note='Trusted: the harness monitors (harness/mon), the 1 GiB budget as the meaning of "in proportion to the frame". Only executions actually produced are covered.', ref='3.C03'),
 'C04': dict(cat='fault_enumeration', technique='runtime monitoring: fault enumeration from field maps, oracle on the returned error value',
             text='For every enum-typed leaf of the each-choice canonical vectors (top level, nested structs, arrays, conditional blocks, upcast) undeclared values are injected at full wire width (in-range, +2^8/+2^16/+2^32 aliases of a declared value, all-ones); every constant-sized message gets every shorter body and bodies longer by 1, 2, 17; every undefined opcode of a direction/version is sent. The decoder must return an error; for enums and opcodes the error value must carry the injected number.',
             note='Trusted: reference field maps (ref/), exact constant-size computation of ref/sizes.py.', ref='3.C04'),
 'C02': dict(cat='exploration', technique='runtime monitoring: position-tracking stream monitor and typed boundary-length construction, oracle = frame arithmetic from the protocol documents',
             text='(a) the header of every re-encoded canonical vector is parsed and compared with the bytes that follow; (b) elastic WARDEN_DATA messages are built as typed values for every body length around 0, 0x8000, 0x10000 and the top of each header form, written with plain and encrypted writers and read back through opcode-enum readers, typed expect helpers and their encrypted variants, with reader positions logged; (c) random histories of messages on one stream are read to EOF and compared with prefix sums of the reference frame lengths and the reference message sequence.',
             note='Trusted: frame arithmetic of ir/implementing_world.md as transcribed in ref/; sequences use frames that round-trip on their own.', ref='3.C02'),
 'C05': dict(cat='exploration', technique='runtime monitoring: differential stream monitor (encrypted vs unencrypted rendering, peer decrypter vs plain reader) over random keys and histories',
             text='Random 40-byte session keys x random message histories (tiny, compressed, boundary-size and Wrath large-header frames) are written through one stateful encrypter; the checker aligns the ciphertext with the library\'s own unencrypted rendering frame by frame (bodies identical, header lengths equal), then the peer decrypter reads the ciphertext through read_encrypted and expect_*_message_encryption and must return the reference sequence and stop exactly at EOF.',
             note='Trusted: wow_srp (crypto halves built through its public ProofSeed constructors); reference frames from ref/.', ref='3.C05'),
 'C15': dict(cat='exploration', technique='runtime monitoring: exhaustive sweep of all 2^32 inputs through the real conversion, summarised per (year, month, day, weekday) group and judged by an independent calendar oracle',
             text='All 2^32 values are pushed through DateTime::try_from by a 16-thread driver that knows nothing about calendars; it reports, for each of the 2^21 groups of the upper bits, the count/XOR/sum of accepted low patterns, panics, and checksums over as_int and every accessor. Python computes the expected summaries with two independent calendar implementations (datetime, days-from-civil) and compares whole arrays; differing and sampled groups are fetched as bitmaps and judged value by value, plus single-value accessor checks. Exhaustive over the input space.',
             note='Trusted: Python datetime / days-from-civil (cross-checked against each other on every run), the group summaries (count, xor, sum) as a faithful fingerprint of the accepted set.', ref='3.C15'),
 'C20': dict(cat='exploration', technique='runtime monitoring: probe-point monitor with an f64 geometric oracle and a rounding margin',
             text='Every trigger of the three expansion tables (discovered through the public verify_trigger) plus seeded random and enumerated boxes/circles are probed with points generated in the box frame and rotated out (just inside/outside each face, corners, own axes, bounding-box gaps, wrong map, random); contains / verify_trigger / distance helpers are compared with the geometric definition evaluated in f64; probes closer to a face than the f32 rounding margin are discarded and counted.',
             note='Trusted: the f64 oracle and its rounding margin (DESIGN.md 3.C20); trigger tables are cross-checked as text against the repository tables.', ref='3.C20'),
 'C08': dict(cat='fault_enumeration', technique='runtime monitoring: file-system event log (strace) and tree digests over real generator runs, fault injection on the starting state',
             text='The real generator (built from the working tree with hook H1) runs on scratch copies: a pristine copy must be reproduced byte for byte and further runs in fresh processes (fresh hash seeds, taskset/nice jitter) must perform no create/truncate/unlink/rename (strace event log); then generated files - observed as the files the generator opens, not assumed - are deleted, truncated, cut to a prefix, replaced by stale siblings, appended to, stale extra files are added and autogenerated regions perturbed (single and multi-fault states): one run must converge to the pristine tree (SHA-256 manifest) and the next run must be silent.',
             note='Trusted: strace event parsing, SHA-256 manifests; files emptied by the task environment are excluded from tree equality; partly hand-written files are only perturbed inside their generated region.', ref='3.C08'),
 'C09': dict(cat='exploration', technique='runtime monitoring of the generator output and decoders against an exact interval evaluation by the reference model',
             text='For every container the reference model computes the exact minimum/maximum encoded length over the whole conditional structure (if-variables enumerated over enumerators / relevant flag-bit subsets; documented leaf bounds); these are compared with sizes{minimum,maximum,constant_sized} in the freshly emitted IR and with the guard literal scraped from every regenerated decoder; in addition every canonical vector is checked against the IR interval and pushed through the real decoders (no InvalidSize allowed).',
             note='Trusted: ref/sizes.py leaf bounds (type documents) and frame limits (client 10240 bytes, server 0xFFFD, Wrath server 0x7FFFFD). The interval part is a computation by the reference model, the decoder part is monitoring.', ref='3.C09'),
 'C10': dict(cat='exploration', technique='runtime monitoring of the generator output: JSON Typedef validation plus record-by-record comparison with an independent parse of the wowm sources',
             text='The IR emitted by a real generator run is validated against the published JSON Typedef schema (own validator, all forms, strict additional properties) and every IR object and every wowm object is lowered to one neutral record (names, kinds, opcodes, integer types, enumerators and values in order, members in order with type/upcast/array kind/length source/constant/compression, semantic conditional structure, optional blocks, comment/display/valid-range tags, versions incl. paste expansion, test vectors); a bijection of objects and equality of records is required. Exhaustive over the corpus.',
             note='Trusted: the independent wowm parser (ref/wowm.py, ref/model.py), ref/jtd.py; comment/display text compared modulo whitespace runs.', ref='3.C10'),
 'C13': dict(cat='exploration', technique='runtime monitoring: operation histories against an executable word-level model; accessor table check against the published field table',
             text='A generated driver (API surface scraped, no expectations) executes sequences of typed setters (builder and &mut forms), getters, dirty_reset, mark_fully_dirty, has_any_dirty_fields, is_bit_dirty and writes (mask embedded in SMSG_UPDATE_OBJECT through the public API, decoded again by the real decoder); the checker replays the sequence on a three-map model (present, dirty, u32 words) whose offsets/sizes/types come only from the published table update-mask.md, and compares every getter, the written block count/mask bits/ascending values, the frame size, and decode(write). Exhaustive to depth 3-4 over representative fields plus seeded random sequences; every generated accessor is exercised once with a tagged value against its table row.',
             note='Trusted: the published table wowm_language/src/types/update-mask.md as the field-table oracle, ref/codec.py UpdateMask decoder. Array rows reachable only at element 0 and rows that overlap in the table are reported, not judged.', ref='3.C13'),
 'C07': dict(cat='exploration', technique='runtime monitoring of freshly generated codecs: random wowm programs through the real generator, rustc, and the C01 round-trip monitor with the reference model as oracle',
             text='Seeded random wowm programs (enums/flags with decimal/hex/binary values and signed bases, structs, fixed/variable/endless arrays, if / else-if / else on enums with ==, ||, != and on flags with &, nesting, optional tails, constants, upcasts, built-in types) are transplanted onto existing leaf messages of a scratch copy; the real generator must accept them, the regenerated crates plus the codec driver must compile, and every canonical encoding the reference model derives from the scratch definitions must round-trip through the new codecs. Failures are attributed per program (generator stderr / bisection, rustc diagnostics by generated file, first mismatching vector); construct classes recorded as open known findings are kept out of the random batches and exercised by one probe program each.',
             note='Trusted: reference model (ref/), the attribution heuristics; programs are drawn from the feature subset the corpus uses (field and type names are letter-only because the Wireshark printer keys its registry on names cut at the first digit).', ref='3.C07'),
 'C11': dict(cat='exploration', technique='runtime monitoring: generated driver calls every enum conversion on exhaustive / boundary / random integers; oracle from the wowm text',
             text='A driver whose source is generated from the scraped API surface calls from_int, as_int, variants() and every existing TryFrom<int> impl of all 300 public enum types: all values for 8- and 16-bit bases (and, in the thorough tier, all 2^32 from_int inputs of u32-based enums), declared values, neighbours, width aliases, extremes and seeded random values through all source types. Success must coincide with the declared set (same-width other-signedness sources reinterpreted bit for bit), the variant must carry that value and name, variants() must list each enumerator once in declaration order, and the error must report the input.',
             note='Trusted: ref.model / ref.codec.definer_values as the wowm reading; the PascalCase name rule is only used where it is injective. Crate-private enums are covered through C01/C04.', ref='3.C11'),
 'C12': dict(cat='exploration', technique='runtime monitoring: generated driver applies every flag accessor/operator to raw values; oracle = integer set algebra over the wowm bit values',
             text='For all 91 flag types (56 plain, 35 synthesised message-local structs) constants, empty/all/is_empty, new_/is_/get_/set_/clear_ for every enumerator, the bit operators and assign forms, and From/TryFrom for nine integer types are applied to zero, all-ones, every single bit, every declared constant and seeded random raw values (8-bit carriers exhaustively, 16-bit in thorough); results (bulk streams via CRC-32 digests reproduced in Python, mismatches localised per value) must equal the integer operation on the declared bits.',
             note='Trusted: ref.model as the wowm reading; CRC-32 digests as fingerprints of result streams; as_int of crate-private types observed through LowerHex/Debug.', ref='3.C12'),
 'C16': dict(cat='fault_enumeration', technique='runtime monitoring: fault injection on the wowm source tree, real generator as system under test, exit status + stderr oracle',
             text='One textual mutation operator per static rule (22 operators) is applied at sites chosen from an independent position-aware parse of the corpus (top level, inside structs used by messages, in if / else-if / else / optional blocks, files with #tag_all, paste_versions objects, login and world); a mutant runs only if an independent reference checker says it breaks exactly that rule. The real generator must stop with the rule\'s exit status and name the mutated object; the unmodified tree must exit 0 in the same session; the rule -> status table is cross-checked against the repository\'s own tests/must_err pairs.',
             note='Trusted: the rule -> exit status table transcribed from error_printer/mod.rs (a stated assumption; the docs do not publish the numbers), ref/mutate.py reference checker.', ref='3.C16'),
 'C17': dict(cat='exploration', technique='runtime monitoring with clang ASan+UBSan: the generated C dissector fragments compiled against a recording epan shim, event stream judged against reference field maps',
             text='The dissector fragments emitted by the current generator are compiled with clang (ASan+UBSan, -Werror=implicit-function-declaration) against a stand-in for the epan API that logs every ptvcursor/tvb call (hf, offset, length, encoding) and refuses reads past the buffer; canonical vectors for all Vanilla world messages (both directions) and login versions 2-8 are dissected and the event stream is tiled against the reference field map: leaf order, offsets, widths, endianness flag, branches, exact stop at the body end; every referenced hf/enumerator must be declared and registered; sanitizer reports fail the run.',
             note='Trusted: csrc/ws_shim.c (epan semantics modelled from its documented behaviour), reference field maps, zlib for compressed members.', ref='3.C17'),
 'C18': dict(cat='exploration', technique='runtime monitoring of the generator output: every re-printed wowm block parsed back with the independent parser and compared as neutral records; tables and examples against the reference decoder',
             text='All documentation pages and Rust doc comments emitted by a real generator run are read back: each fenced wowm block is parsed with the reference parser and must equal the source object\'s neutral record (name, kind, opcode, base type, enumerators and values, member order and types, conditions); body tables must list the members in definition order with the constant sizes the reference model computes (variable members marked as such); each example\'s annotated byte groups must concatenate to the test vector and follow the order in which the reference decoder visits the fields. Exhaustive over ~2,060 sections, ~2,050 doc comments and 175 examples. Offsets are observed, not judged.',
             note='Trusted: ref/wowm.py, ref/neutral.py, ref/docview.py, ref/sizes.py.', ref='3.C18'),
}
PENDING = 'check not built yet (work in progress; DESIGN.md section 8 gives the build order)'

m = {
 'version': 1,
 'setup_cmd': 'python3 tools/setup.py',
 'hooks': {
  'guard': 'wow_messages_verif',
  'enable': 'RUSTFLAGS="--cfg wow_messages_verif" on the wow_message_parser build only (lib/gen.py); then WOWM_VERIF_WORKSPACE=<tree> selects the workspace the generator reads and writes',
  'baseline_off_cmd': 'cd /repo && (cargo nextest run --workspace --no-fail-fast --offline || cargo test --workspace --no-fail-fast --offline)',
  'source_commits': ['5d777fc28'],
  'add_only': True,
 },
 'engines': [
  {'name': 'ref', 'path': 'ref/', 'serves_properties': sorted(CHECKS), 'kind_free_text': 'independent Python reading of the wowm language: parser, version resolution, canonical value generator, reference encoder/decoder with field maps (the oracle)'},
  {'name': 'harness', 'path': 'harness/', 'serves_properties': sorted(CHECKS), 'kind_free_text': 'Rust drivers linking /repo crates by path; worker/supervisor with panic capture, counting allocator, watchdog; JSONL event logs'},
  {'name': 'monitors', 'path': 'monitors/', 'serves_properties': sorted(CHECKS), 'kind_free_text': 'offline checkers over event logs, one per property; three-valued verdicts; known-findings matching'},
 ],
 'checks': [],
 'not_applicable': [],
 'notes': 'Single entry point: python3 check.py <ID> --tier quick|thorough [--replay FILE]; exit 0 held, 1 VIOLATION, 2 INCONCLUSIVE. Known findings: known_findings.json.',
}
for p in props:
    i = p['id']
    if i in CHECKS:
        c = CHECKS[i]
        m['checks'].append({
         'property_id': i,
         'quick_cmd': f'python3 check.py {i} --tier quick',
         'thorough_cmd': f'python3 check.py {i} --tier thorough',
         'evidence_file': f'/verif/evidence/{i}.json',
         'replay_cmd_template': f'python3 check.py {i} --replay {{path}}',
         'engine': 'monitors',
         'level_claimed': {'category': c['cat'], 'text': c['text'], 'design_ref': c['ref']},
         'level_note': c['note'],
         'technique': c['technique'],
        })
    else:
        m['not_applicable'].append({'property_id': i, 'reason': PENDING})
json.dump(m, open(os.path.join(V, 'MANIFEST.json'), 'w'), indent=1)
print('checks:', [c['property_id'] for c in m['checks']], 'pending:', len(m['not_applicable']))
