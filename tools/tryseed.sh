#!/bin/sh
# usage: tools/tryseed.sh <patch.diff> <ID> [tier]  -> applies the patch to the tree, runs the check, restores the tree
# prints the last lines of the check output and its exit code.
# The tree is /repo unless TRY_SCRATCH=<name> is set: then the experiment runs on a scratch copy made by tools/scratch.sh <name>
# (own harness copy, build directory and evidence directory), and /repo and /verif/evidence are left alone.
set -u
patch=$1; id=$2; tier=${3:-quick}
repo=/repo
if [ -n "${TRY_SCRATCH:-}" ]; then
  d=/tmp/verif-scratch-$TRY_SCRATCH
  [ -d "$d/repo/.git" ] || { echo "no scratch copy $d (tools/scratch.sh $TRY_SCRATCH; it must be a git checkout)"; exit 9; }
  repo=$d/repo
  export WOWM_REPO=$d/repo VERIF_HARNESS=$d/harness VERIF_BUILD=$d/build VERIF_EVIDENCE=$d/evidence
  mkdir -p "$d/evidence"
fi
cd "$repo" || exit 9
if ! git diff --quiet; then echo "repo dirty"; exit 9; fi
git apply "$patch" || { echo "patch does not apply"; exit 9; }
cd /verif
ev=${VERIF_EVIDENCE:-/verif/evidence}
cp "$ev/$id.json" /tmp/tryseed.$$.ev 2>/dev/null
python3 check.py "$id" --tier "$tier" > /tmp/tryseed.$$.log 2>&1
rc=$?
grep -v "^\[build\]\|^\[driver\]\|^KNOWN-FINDING" /tmp/tryseed.$$.log | cut -c1-260 | tail -6
echo "EXIT $rc"
# the evidence of a seeded run is not evidence about the unchanged tree: put the previous file back
[ -f /tmp/tryseed.$$.ev ] && mv /tmp/tryseed.$$.ev "$ev/$id.json"
rm -rf "$ev/replays/$id"/*.json 2>/dev/null
cd "$repo" && git checkout -- . && git clean -fdq -- wow_world_messages/tests wow_login_messages/tests wow_world_base/tests 2>/dev/null
rm -f /tmp/tryseed.$$.log
