#!/bin/sh
# usage: tools/tryseed.sh <patch.diff> <ID> [tier]  -> applies the patch to /repo, runs the check, restores /repo
# prints the last lines of the check output and its exit code
set -u
patch=$1; id=$2; tier=${3:-quick}
cd /repo || exit 9
if ! git diff --quiet; then echo "repo dirty"; exit 9; fi
git apply "$patch" || { echo "patch does not apply"; exit 9; }
cd /verif
cp evidence/$id.json /tmp/tryseed.$$.ev 2>/dev/null
python3 check.py "$id" --tier "$tier" > /tmp/tryseed.$$.log 2>&1
rc=$?
grep -v "^\[build\]\|^\[driver\]\|^KNOWN-FINDING" /tmp/tryseed.$$.log | cut -c1-260 | tail -6
echo "EXIT $rc"
# the evidence of a seeded run is not evidence about the unchanged tree: put the previous file back
[ -f /tmp/tryseed.$$.ev ] && mv /tmp/tryseed.$$.ev evidence/$id.json
rm -rf evidence/replays/$id/*.json 2>/dev/null
cd /repo && git checkout -- . && git clean -fdq -- wow_world_messages/tests wow_login_messages/tests wow_world_base/tests 2>/dev/null
rm -f /tmp/tryseed.$$.log
