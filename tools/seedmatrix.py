#!/usr/bin/env python3
"""Applies every seeded change under /verif/seeded to /repo (one at a time), runs the check named in its meta.json
(quick tier) and restores /repo.  Writes seeded/RESULTS.md.  /repo must be clean."""
import json, os, subprocess, sys, time
V = os.path.dirname(os.path.dirname(os.path.abspath(__file__)))
rows = []
only = sys.argv[1:]
for d in sorted(os.listdir(os.path.join(V, 'seeded'))):
    p = os.path.join(V, 'seeded', d)
    if not os.path.isdir(p) or (only and d not in only):
        continue
    meta = json.load(open(os.path.join(p, 'meta.json')))
    check = ((meta.get('caught_by') or {}).get('check') or meta.get('breaks_property')).split()[0]
    t0 = time.time()
    r = subprocess.run([os.path.join(V, 'tools', 'tryseed.sh'), os.path.join(p, 'patch.diff'), check, 'quick'], stdout=subprocess.PIPE, stderr=subprocess.STDOUT, text=True)
    rc = [l for l in r.stdout.split('\n') if l.startswith('EXIT')]
    rc = rc[-1].split()[1] if rc else '?'
    rows.append((d, check, rc, round(time.time() - t0), (meta.get('summary') or '')[:110]))
    print(rows[-1], flush=True)
# a partial run (names given) keeps the rows of the seeds it did not touch
path = os.path.join(V, 'seeded', 'RESULTS.md')
if only and os.path.exists(path):
    done = {r[0] for r in rows}
    for line in open(path):
        c = [x.strip() for x in line.strip().strip('|').split(' | ')]
        if len(c) >= 5 and c[0] not in ('seed', '---') and c[0] not in done and os.path.isdir(os.path.join(V, 'seeded', c[0])):
            rows.append(tuple(c[:5]))
    rows.sort(key=lambda r: r[0])
with open(path, 'w') as f:
    f.write('# Seeded changes vs checks (quick tier)\n\nexit 1 = the check reports a VIOLATION with the change applied (wanted); 0 = missed; 2 = inconclusive\n\n| seed | check | exit | seconds | change |\n|---|---|---|---|---|\n')
    for r in rows:
        f.write('| ' + ' | '.join(str(x) for x in r) + ' |\n')
