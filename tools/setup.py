#!/usr/bin/env python3
"""MANIFEST.setup_cmd: build the harness drivers and the hooked generator once, offline."""
import os, subprocess, sys, compileall
V = os.path.dirname(os.path.dirname(os.path.abspath(__file__)))
sys.path.insert(0, V)
from lib import common, gen
compileall.compile_dir(os.path.join(V, 'ref'), quiet=1)
rc = 0
for pkg in ['codec_driver', 'misc_driver', 'umask_driver', 'async_driver']:
    try:
        common.cargo_build(pkg)
    except common.Inconclusive as e:
        print('setup: build of', pkg, 'failed:', str(e)[-500:]); rc = 1
try:
    gen.build_generator()
except common.Inconclusive as e:
    print('setup: generator build failed', str(e)[-500:]); rc = 1
sys.exit(rc)
