#!/usr/bin/env python3
"""usage: saveseed.py <seed out dir> <name e.g. C01b-m1> <breaks property> <check that catches> <how text>
copies patch/demo/README/meta + confirm logs into seeded/<name> and extends meta.json"""
import json, os, shutil, sys, subprocess
src, name, prop, check, how = sys.argv[1:6]
dst = f'/verif/seeded/{name}'
os.makedirs(dst, exist_ok=True)
for f in os.listdir(src):
    if f.endswith('.log') and not f.startswith('confirm_demo'):
        continue
    if os.path.isfile(os.path.join(src, f)):
        shutil.copy(os.path.join(src, f), dst)
    elif os.path.isdir(os.path.join(src, f)):
        shutil.copytree(os.path.join(src, f), os.path.join(dst, f), dirs_exist_ok=True, ignore=shutil.ignore_patterns('target'))
head = subprocess.run(['git', '-C', '/repo', 'rev-parse', '--short', 'HEAD'], capture_output=True, text=True).stdout.strip()
suite = ''
p = os.path.join(src, 'confirm_suite_patched.log')
if os.path.exists(p):
    t = open(p, errors='replace').read()
    suite = f"{t.count('... ok')} passed, {t.count('... FAILED')} failed"
m = json.load(open(os.path.join(dst, 'meta.json')))
m['breaks_property'] = prop
m['confirmed_by_me'] = {'script': f'tools/confirm_seed.sh (scratch worktree of /repo at {head})',
                        'result': f'demo passes on the clean tree, fails with the patch; cargo test --workspace --offline with the patch: {suite}'}
m['caught_by'] = {'check': check, 'how': how, 'command': f'tools/tryseed.sh seeded/{name}/patch.diff {check.split()[0]} quick'}
json.dump(m, open(os.path.join(dst, 'meta.json'), 'w'), indent=1)
print('saved', dst)
