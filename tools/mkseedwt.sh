#!/bin/sh
# usage: mkseedwt.sh <ID> [suffix]  -> creates /tmp/seed-<ID><suffix> (detached worktree of /repo HEAD) and /tmp/prompt-<ID><suffix>.txt
id=$1; suf=$2; wt=/tmp/seed-$id$suf
git -C /repo worktree add --detach -q "$wt" HEAD || exit 1
cp /repo/Cargo.lock "$wt/" 2>/dev/null
python3 - "$id" "$wt" <<'P'
import json, sys
pid, wt = sys.argv[1], sys.argv[2]
prop = next(json.loads(l) for l in open('/verif/properties.jsonl') if json.loads(l)['id'] == pid)
text = (f"Property {prop['id']}: {prop['title']}\n\nStatement: {prop['statement']}\n\nQuantified over: {prop['quantifier']['text']}\n\n"
        f"Why the existing tests cannot settle it: {prop['why_tests_cant']}\n\nRelevant code (anchors): {', '.join(prop['anchors']['files'])}\n")
open(f'{wt}/PROPERTY.txt', 'w').write(text)
tmpl = open('/verif/tools/seed-prompt.txt').read()
open(f'/tmp/prompt-{wt.split("seed-")[1]}.txt', 'w').write(tmpl.replace('{WT}', wt).replace('{PROPFILE}', wt + '/PROPERTY.txt').replace('{PROPTEXT}', text).replace('{ID}', pid))
P
echo "$wt"
