#!/bin/sh
# usage: tools/scratch.sh <name>   -> creates /tmp/verif-scratch-<name>/{repo,harness,build} for mutation experiments
# then run:  eval "$(tools/scratch.sh <name>)" && python3 check.py <ID> --tier quick
# remove the directory when done:  rm -rf /tmp/verif-scratch-<name>
set -e
d=/tmp/verif-scratch-$1
mkdir -p "$d/build"
rsync -a --delete --exclude /target --exclude /.git /repo/ "$d/repo/"
rsync -a --delete /verif/harness/ "$d/harness/"
find "$d/harness" -name Cargo.toml -o -name build.rs -o -name config.toml | xargs sed -i "s|/repo|$d/repo|g; s|/verif/.build/target|$d/build/target|g"
echo "export WOWM_REPO=$d/repo VERIF_HARNESS=$d/harness VERIF_BUILD=$d/build"
