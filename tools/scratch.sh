#!/bin/sh
# usage: tools/scratch.sh <name>   -> creates /tmp/verif-scratch-<name>/{repo,harness,build} for mutation experiments
# then run:  eval "$(tools/scratch.sh <name>)" && python3 check.py <ID> --tier quick
# remove the directory when done:  rm -rf /tmp/verif-scratch-<name>
set -e
d=/tmp/verif-scratch-$1
mkdir -p "$d/build"
# a git worktree-free clone, so that experiments can `git apply` / `git checkout -- .` in it
if [ ! -d "$d/repo/.git" ]; then rm -rf "$d/repo"; git clone -q --no-hardlinks /repo "$d/repo"; cp /repo/Cargo.lock "$d/repo/" 2>/dev/null; fi
(cd "$d/repo" && git fetch -q origin && git checkout -q --detach "$(git -C /repo rev-parse HEAD)" 2>/dev/null; git checkout -q -- .)
rsync -a --delete /verif/harness/ "$d/harness/"
find "$d/harness" -name Cargo.toml -o -name build.rs -o -name config.toml | xargs sed -i "s|/repo|$d/repo|g; s|/verif/.build/target|$d/build/target|g"
echo "export WOWM_REPO=$d/repo VERIF_HARNESS=$d/harness VERIF_BUILD=$d/build"
