#!/bin/sh
# like confirm_seed.sh but for seeds whose demonstration is OUT/mX/demo.sh (generator properties)
wt=$1; sd=$2
cd "$wt" || exit 9
git checkout -q -- . 
bash "$(ls $sd/demo.sh $sd/run_demo.sh 2>/dev/null | head -1)" > "$sd/confirm_demo_clean.log" 2>&1; clean=$?
git checkout -q -- . ; git apply "$sd/patch.diff" || { echo "SEED $sd: patch does not apply"; exit 9; }
bash "$(ls $sd/demo.sh $sd/run_demo.sh 2>/dev/null | head -1)" > "$sd/confirm_demo_patched.log" 2>&1; patched=$?
git checkout -q -- . ; git apply "$sd/patch.diff"
cargo test --offline --workspace --no-fail-fast > "$sd/confirm_suite_patched.log" 2>&1; suite=$?
nfail=$(grep -c "\.\.\. FAILED" "$sd/confirm_suite_patched.log"); npass=$(grep -c "\.\.\. ok" "$sd/confirm_suite_patched.log")
git checkout -q -- . ; git clean -fdq -- wow_world_messages wow_login_messages wowm_language wow_message_parser/tests 2>/dev/null
echo "SEED $sd: demo_clean_exit=$clean demo_patched_exit=$patched suite_exit=$suite suite_pass=$npass suite_fail=$nfail"
