"""Self-validation of the reference model on the corpus' captured test vectors.

For every `test` block x flavour: (a) the reference decoder consumes the bytes completely,
(b) re-encoding the decoded value gives the same bytes (compressed members: same payload),
(c) field values the block lists agree with the decoded value for the value syntaxes understood.
A failure here means "my reading is wrong" -> checks abort INCONCLUSIVE.
"""
import struct, sys
from . import model, codec
from .codec import DecodeError, RefError


def split_frame(cdc, c, data):
    """-> (direction, body) by parsing the header per the protocol documents."""
    env = cdc.env
    op = c.raw['opcode']
    if env.family == 'login':
        if data[0] != op:
            raise DecodeError(f'opcode {data[0]:#x} != {op:#x}')
        return cdc.directions(c)[0], data[1:]
    for d in cdc.directions(c):
        if d == 'client':
            if len(data) >= 6 and struct.unpack('>H', data[:2])[0] == len(data) - 2 and struct.unpack('<I', data[2:6])[0] == op:
                return d, data[6:]
        else:
            if env.version == 'wrath' and data[0] & 0x80:
                size = ((data[0] & 0x7F) << 16) | (data[1] << 8) | data[2]
                if size == len(data) - 3 and struct.unpack('<H', data[3:5])[0] == op:
                    return d, data[5:]
            if len(data) >= 4 and struct.unpack('>H', data[:2])[0] == len(data) - 2 and struct.unpack('<H', data[2:4])[0] == op:
                return d, data[4:]
    raise DecodeError('header does not match any direction')


def compare_listed(cdc, c, listed, vals, path=''):
    """Compare values listed in a test block with decoded values; -> (compared, mismatches)."""
    n, bad = 0, []
    for name, tv in listed:
        d = cdc.find_def(c, name)
        if d is None or name not in vals:
            # test blocks may list members of branches the bytes do not take; not a model error
            continue
        v = vals[name]
        k, b = _cmp(cdc, c, d, tv, v, path + name)
        n += k
        bad += b
    return n, bad


def _num(s):
    return model.wowm.parse_value(s)


def _cmp(cdc, c, d, tv, v, p):
    ty = d['ty']
    aty = model.ALIASES.get(ty, ty)
    if d['array'] is not None:
        if not isinstance(tv, list) or not isinstance(v, list):
            return 0, []
        if tv and isinstance(tv[0], list) and tv and all(isinstance(x, list) for x in tv):
            # array of sub objects
            if model.is_builtin(ty):
                return 0, []
            o = cdc.lookup(ty)
            if o.kind != 'struct':
                return 0, []
            if len(tv) != len(v):
                return 1, [f'{p}: {len(tv)} listed elements, decoded {len(v)}']
            n, bad = 1, []
            for i, (a, b) in enumerate(zip(tv, v)):
                k, bb = compare_listed(cdc, o, a, b, f'{p}[{i}].')
                n += k; bad += bb
            return n, bad
        if all(isinstance(x, str) for x in tv):
            if aty in model.INT_TYPES:
                nums = [_num(x) for x in tv]
                if None in nums:
                    return 0, []
                if nums != v:
                    return 1, [f'{p}: listed {nums[:8]} decoded {v[:8]}']
                return 1, []
        return 0, []
    if isinstance(tv, list) and tv and isinstance(tv[0], tuple):
        # sub object
        if model.is_builtin(ty):
            return 0, []
        o = cdc.lookup(ty)
        if o.kind == 'struct' and isinstance(v, dict):
            return compare_listed(cdc, o, tv, v, p + '.')
        return 0, []
    if model.is_builtin(ty):
        if aty in model.INT_TYPES and isinstance(tv, str):
            x = _num(tv)
            if x is None:
                return 0, []
            w = model.INT_TYPES[aty][0]
            return 1, ([] if (x & ((1 << 8 * w) - 1)) == v else [f'{p}: listed {x} decoded {v}'])
        if ty in ('CString', 'String', 'SizedCString') and isinstance(tv, str) and tv.startswith('"'):
            return 1, ([] if tv[1:-1].encode() == v else [f'{p}: listed {tv} decoded {v!r}'])
        if ty in ('Bool', 'Bool32') and isinstance(tv, str):
            x = {'TRUE': 1, 'FALSE': 0, 'true': 1, 'false': 0}.get(tv, _num(tv))
            if x is None:
                return 0, []
            return 1, ([] if bool(x) == bool(v) else [f'{p}: listed {tv} decoded {v}'])
        if ty in ('f32', 'Population') and isinstance(tv, str):
            try:
                f = float(tv)
            except ValueError:
                return 0, []
            got = struct.unpack('<f', struct.pack('<I', v))[0]
            want = struct.unpack('<f', struct.pack('<f', f))[0]
            return 1, ([] if got == want else [f'{p}: listed {f} decoded {got}'])
        if ty == 'PackedGuid' and isinstance(tv, str):
            x = _num(tv)
            if x is None:
                return 0, []
            return 1, ([] if x == v else [f'{p}: listed {x} decoded {v}'])
        return 0, []
    o = cdc.lookup(ty)
    if o.kind in ('enum', 'flag'):
        names = tv if isinstance(tv, list) else [tv]
        if not all(isinstance(x, str) for x in names):
            return 0, []
        table = {n: uv for (n, uv, _) in codec.definer_values(o)}
        want = 0
        for x in names:
            if x in table:
                want |= table[x]
            else:
                y = _num(x)
                if y is None:
                    return 0, []
                want |= y & ((1 << 8 * codec.definer_base(o)[0]) - 1)
        return 1, ([] if want == v else [f'{p}: listed {names} = {want:#x} decoded {v:#x}'])
    return 0, []


def run(corpus, verbose=False):
    """-> dict(summary).  ok iff every vector passes (a),(b),(c)."""
    res = {'vectors': 0, 'decoded': 0, 'reencoded_equal': 0, 'fields_compared': 0, 'failures': [], 'skipped': []}
    cdcs = {}
    for env, c, t in corpus.tests():
        cdc = cdcs.setdefault(env.key, codec.Codec(env))
        res['vectors'] += 1
        ident = f'{env.key}:{c.name}@{t["file"].split("/wowm/")[-1]}:{t["line"]}'
        data = bytes(t['bytes'])
        try:
            d, body = split_frame(cdc, c, data)
            vals, fmap = cdc.decode(c, body)
            res['decoded'] += 1
            body2, fmap2, sig, payloads = cdc.encode(c, vals)
            frame2 = cdc.frame(c, body2, d)
            if frame2 == data:
                res['reencoded_equal'] += 1
            else:
                # compressed members: compare payloads via a second decode
                vals3, _ = cdc.decode(c, body2)
                if vals3 == vals and (codec.info(c).compressed or any(codec.member_compressed(m) for m in codec.walk_defs(c.raw['members']))):
                    res['reencoded_equal'] += 1
                else:
                    res['failures'].append(f'{ident}: re-encode differs')
                    continue
            n, bad = compare_listed(cdc, c, t['fields'], vals)
            res['fields_compared'] += n
            for b in bad:
                res['failures'].append(f'{ident}: {b}')
        except RefError as e:
            res['skipped'].append(f'{ident}: {e}')
        except DecodeError as e:
            res['failures'].append(f'{ident}: decode: {e}')
    res['ok'] = not res['failures'] and res['decoded'] > 0
    return res


if __name__ == '__main__':
    import json
    c = model.Corpus(model.default_root())
    r = run(c)
    print(json.dumps({k: v for k, v in r.items() if k not in ('failures', 'skipped')}))
    for f in r['failures'][:60]:
        print('FAIL', f)
    for f in r['skipped'][:20]:
        print('SKIP', f)
    sys.exit(0 if r['ok'] else 2)
