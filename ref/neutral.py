"""Neutral records: one normal form that both the wowm text (via ref.model) and the generator's
intermediate representation (and the wowm blocks re-printed in docs) are lowered to, so they can
be compared field by field (C10, C18).

Conditional structure is kept in *semantic* normal form: an if / else-if / else chain on an enum is a
list of (set of enumerator names that select the branch, members); on a flag a list of
(enumerator names of the condition in order, members) plus an optional else.
"""
import json
from . import model, codec
from .codec import definer_values, definer_base
from .model import INT_TYPES, ALIASES

INT_IR = {'u8': 'U8', 'u16': 'U16', 'u32': 'U32', 'u64': 'U64', 'i8': 'I8', 'i16': 'I16', 'i32': 'I32', 'i64': 'I64', 'u48': 'U48'}
BUILTIN_IR = {  # wowm builtin name -> IR data_type_tag
    'Bool': ('Bool', 'U8'), 'Bool32': ('Bool', 'U32'), 'PackedGuid': 'PackedGuid', 'Guid': 'Guid', 'NamedGuid': 'NamedGuid',
    'DateTime': 'DateTime', 'f32': 'FloatingPoint', 'CString': 'CString', 'SizedCString': 'SizedCString', 'String': 'String',
    'UpdateMask': 'UpdateMask', 'MonsterMoveSplines': 'MonsterMoveSpline', 'AuraMask': 'AuraMask',
    'AchievementDoneArray': 'AchievementDoneArray', 'AchievementInProgressArray': 'AchievementInProgressArray',
    'EnchantMask': 'EnchantMask', 'InspectTalentGearMask': 'InspectTalentGearMask', 'Gold': 'Gold', 'Population': 'Population',
    'Level': 'Level', 'Level16': 'Level16', 'Level32': 'Level32', 'VariableItemRandomProperty': 'VariableItemRandomProperty',
    'AddonArray': 'AddonArray', 'IpAddress': 'IpAddress', 'Seconds': 'Seconds', 'Milliseconds': 'Milliseconds', 'Spell': 'Spell',
    'Spell16': 'Spell16', 'Item': 'Item', 'CacheMask': 'CacheMask',
}


def vkey(family, versions):
    out = []
    for v in versions:
        if v == '*' or v == ('*',):
            return f'{family}:*'
        out.append('.'.join(str(x) for x in v) if isinstance(v, tuple) else str(v))
    return f'{family}:' + ' '.join(sorted(out))


# ---------------------------------------------------------------------------------------------
# from wowm

def norm_text(t):
    """comment / display text with whitespace runs collapsed (the grammar skips whitespace around tag text)"""
    if t is None:
        return None
    return ' '.join(t.split()) or None


def comments_of(raw):
    """docs (/// lines) then `comment` tags, as separate comments"""
    out = [d for d in raw.get('docs', []) if d != '']
    out += [v for k, v in raw.get('tags', []) if k == 'comment']
    return out


def wowm_type(cdc, m):
    ty = m['ty']
    if m['array'] is not None:
        a = m['array']
        if a == '-':
            size = ('endless',)
        elif a.isdigit() or a.startswith('0x'):
            size = ('fixed', int(a, 0))
        else:
            size = ('var', a)
        inner = wowm_scalar(cdc, {**m, 'array': None, 'upcast': None})
        comp = codec.member_compressed(m)
        return ('array', inner, size, comp)
    return wowm_scalar(cdc, m)


def wowm_scalar(cdc, m):
    ty = m['ty']
    if ty in INT_IR:
        return ('int', INT_IR[ty])
    if ty in BUILTIN_IR:
        b = BUILTIN_IR[ty]
        return ('bool', b[1]) if isinstance(b, tuple) else ('builtin', b)
    o = cdc.lookup(ty)
    if o.kind in ('enum', 'flag'):
        wire = m['upcast'] or o.raw['ty']
        return (o.kind, ty, INT_IR.get(wire, wire), bool(m['upcast']))
    if o.kind == 'struct':
        return ('struct', ty)
    raise codec.RefError(ty)


def wowm_members(cdc, c, members):
    out = []
    optional = None
    for m in members:
        k = m['m']
        if k == 'def':
            const = None
            if m['value'] is not None and m['value'] != 'self.size':
                const = model.wowm.parse_value(m['value'])
            tags = {}
            for tk, tv in m['tags']:
                if tk == 'maximum_length':
                    tags['maximum_length'] = str(int(tv))
                elif tk == 'valid_range':
                    a, b = tv.split()
                    tags['valid_range'] = (str(int(a)), str(int(b)))
                elif tk == 'display':
                    tags['display'] = norm_text(tv)
            cm = comments_of(m)
            if cm:
                tags['comment'] = norm_text(' '.join(cm))
            out.append(('def', m['name'], wowm_type(cdc, m), const, 'self.size' if m['value'] == 'self.size' else None, tags))
        elif k == 'if':
            var = m['conds'][0][0]
            dv = cdc.definer_of_var(c, var)
            names = [n for (n, _, _) in definer_values(dv)]
            chain = [(m['conds'], m['members'])] + [(e['conds'], e['members']) for e in m['elifs']]
            branches = []
            if dv.kind == 'enum':
                taken = set()
                for conds, mem in chain:
                    op = conds[0][1]
                    if op == '!=':
                        sel = [n for n in names if n != conds[0][2] and n not in taken]
                    else:
                        sel = [e for (_, _, e) in conds if e not in taken]
                    taken |= set(sel)
                    branches.append((tuple(sorted(sel)), wowm_members(cdc, c, mem)[0]))
                if m['else']:
                    sel = [n for n in names if n not in taken]
                    branches.append((tuple(sorted(sel)), wowm_members(cdc, c, m['else'])[0]))
                out.append(('if', var, 'enum', branches, None))
            else:
                for conds, mem in chain:
                    branches.append((tuple(e for (_, _, e) in conds), wowm_members(cdc, c, mem)[0]))
                els = wowm_members(cdc, c, m['else'])[0] if m['else'] else None
                out.append(('if', var, 'flag', branches, els))
        elif k == 'optional':
            optional = (m['name'], wowm_members(cdc, c, m['members'])[0])
    return out, optional


def from_wowm(corpus, include=lambda o: True):
    """-> {(name, vkey): record}"""
    out = {}
    # a codec env per object for name resolution: pick any env the object belongs to
    envs_of = {}
    for env in corpus.envs.values():
        for d in (env.definers, env.containers):
            for name, o in d.items():
                envs_of.setdefault(id(o), env)
    for o in corpus.objs:
        if o.family == 'none' or o.is_test_object() or not include(o):
            continue
        env = envs_of.get(id(o)) or corpus.env_for(o)
        key = (o.name, vkey(o.family, o.versions))
        if o.kind in ('enum', 'flag'):
            rec = {'kind': o.kind, 'name': o.name, 'base': INT_IR.get(o.raw['ty'], o.raw['ty']), 'versions': key[1],
                   'enumerators': [(f['name'], f['value'], norm_text(dict(f['tags']).get('display')), norm_text(' '.join(comments_of(f))))
                                   for f in o.raw['fields']],
                   'comment': norm_text(' '.join(comments_of(o.raw)))}
        else:
            if env is None:
                rec = {'kind': o.kind, 'name': o.name, 'versions': key[1], 'unresolved': True}
            else:
                cdc = codec.Codec(env)
                members, optional = wowm_members(cdc, o, o.raw['members'])
                rec = {'kind': o.kind, 'name': o.name, 'opcode': o.raw['opcode'], 'versions': key[1],
                       'compressed': 'true' in o.tags.get('compressed', []), 'members': members, 'optional': optional,
                       'comment': norm_text(' '.join(comments_of(o.raw)))}
        out[key] = rec
    return out


# ---------------------------------------------------------------------------------------------
# from the IR

def ir_vkey(tags):
    v = tags['version']
    fam = v['version_type_tag']
    vt = v['version_type']
    if fam == 'login':
        if vt['login_version_tag'] == 'all':
            return 'login:*'
        return 'login:' + ' '.join(sorted(str(x) for x in vt['versions']))
    if vt['world_version_tag'] == 'all':
        return 'world:*'
    out = []
    for x in vt['versions']:
        parts = [x['major'], x['minor'], x['patch'], x['build']]
        out.append('.'.join(str(p) for p in parts if p is not None))
    return 'world:' + ' '.join(sorted(out))


def ir_type(dt):
    tag = dt['data_type_tag']
    if tag == 'Integer':
        return ('int', dt['integer_type'])
    if tag == 'Bool':
        return ('bool', dt['integer_type'])
    if tag in ('Enum', 'Flag'):
        return (tag.lower(), dt['type_name'], dt['integer_type'], dt['upcast'])
    if tag == 'Struct':
        return ('struct', dt['struct_data']['name'])
    if tag == 'Array':
        it = dt['inner_type']
        t = it['array_type_tag']
        if t == 'Integer':
            inner = ('int', it['integer_type'])
        elif t == 'Struct':
            inner = ('struct', it['struct_data']['name'])
        else:
            inner = ('builtin', t)
        sz = dt['size']
        st = sz['array_size_tag']
        size = ('endless',) if st == 'Endless' else ('fixed', int(sz['size'])) if st == 'Fixed' else ('var', sz['size'])
        return ('array', inner, size, dt['compressed'])
    return ('builtin', tag)


def ir_member_tags(t):
    out = {}
    if 'maximum_length' in t:
        out['maximum_length'] = str(int(t['maximum_length']))
    if 'valid_range' in t:
        out['valid_range'] = (str(int(t['valid_range']['from'])), str(int(t['valid_range']['to'])))
    if 'display' in t:
        out['display'] = norm_text(t['display'])
    if 'comment' in t and norm_text(t['comment']):
        out['comment'] = norm_text(t['comment'])
    return out


def ir_members(members):
    out = []
    for m in members:
        c = m['struct_member_content']
        if m['struct_member_tag'] == 'Definition':
            const = int(c['constant_value']['value']) if c['constant_value'] is not None else None
            ss = 'self.size' if c['size_of_fields_before_size'] is not None else None
            out.append(('def', c['name'], ir_type(c['data_type']), const, ss, ir_member_tags(c['tags'])))
        else:
            chain = [c] + list(c['else_if_statements'])
            kind = c['definer_type'].lower()
            if kind == 'enum':
                branches = [(tuple(sorted(x['values'])), ir_members(x['members'])) for x in chain]
                out.append(('if', c['variable_name'], 'enum', branches, None))
            else:
                branches = [(tuple(x['values']), ir_members(x['members'])) for x in chain]
                out.append(('if', c['variable_name'], 'flag', branches, None))
    return out


def from_ir(ir):
    out = {}
    for fam in ('login', 'world'):
        for d in ir[fam]['enums'] + ir[fam]['flags']:
            key = (d['name'], ir_vkey(d['tags']))
            out[key] = {'kind': d['definer_type'].lower(), 'name': d['name'], 'base': d['integer_type'], 'versions': key[1],
                        'enumerators': [(e['name'], int(e['value']['value']), norm_text(e['tags'].get('display')), norm_text(e['tags'].get('comment')))
                                        for e in d['enumerators']],
                        'comment': norm_text(d['tags'].get('comment'))}
        for c in ir[fam]['structs'] + ir[fam]['messages']:
            key = (c['name'], ir_vkey(c['tags']))
            ot = c['object_type']
            kind = ot['container_type_tag'].lower()
            opt = None
            if c['optional'] is not None:
                opt = (c['optional']['name'], ir_members(c['optional']['members']))
            out[key] = {'kind': kind, 'name': c['name'], 'opcode': ot.get('opcode'), 'versions': key[1],
                        'compressed': bool(c['tags'].get('compressed')), 'members': ir_members(c['members']), 'optional': opt,
                        'comment': norm_text(c['tags'].get('comment')),
                        'tests': [tuple(t['raw_bytes']) for t in c['tests']],
                        'sizes': c['sizes'], 'file': c['file_info']['file_name']}
    return out


# ---------------------------------------------------------------------------------------------
# comparison

def first_diff(a, b, path=''):
    """first differing path between two nested tuple/list/dict structures, or None"""
    if type(a) != type(b) and not (isinstance(a, (list, tuple)) and isinstance(b, (list, tuple))):
        return f'{path}: {a!r} != {b!r}'[:300]
    if isinstance(a, dict):
        for k in sorted(set(a) | set(b)):
            if k not in a or k not in b:
                return f'{path}.{k}: only on one side ({a.get(k)!r} / {b.get(k)!r})'[:300]
            d = first_diff(a[k], b[k], f'{path}.{k}')
            if d:
                return d
        return None
    if isinstance(a, (list, tuple)):
        if len(a) != len(b):
            return f'{path}: length {len(a)} != {len(b)}: {str(a)[:100]} / {str(b)[:100]}'
        for i, (x, y) in enumerate(zip(a, b)):
            d = first_diff(x, y, f'{path}[{i}]')
            if d:
                return d
        return None
    return None if a == b else f'{path}: {a!r} != {b!r}'[:300]
