"""C16 support: position-aware reading of wowm, a reference checker for the static rules of the language
(written from wowm_language/src/spec/*.md and versioning-with-tags.md), and one textual mutation operator per rule.

Nothing here shares code with the generator.  The reference checker is used to (a) confirm that the unmodified
corpus breaks no rule and (b) classify every mutant: only mutants that break exactly the intended rule (and nothing
else the checker knows about) are executed.

Rule keys (the monitor maps them to exit statuses):
  unknown-type recursive missing-enumerator enum-and flag-equals no-version both-versions overlap-names overlap-tags
  dup-field dup-value bad-value range-value bad-int-type flag-signed if-vars upcast-unsupported upcast-same self-size
  opcode-mismatch not-in-index name-mismatch      (anything else the checker notices is 'other:<what>')
"""
import os, re, random, collections
from . import wowm, model

MESSAGE_KINDS = model.MESSAGE_KINDS
CONTAINER_KINDS = model.CONTAINER_KINDS
EXPANSIONS = [('vanilla', (1, 12)), ('tbc', (2, 4, 3)), ('wrath', (3, 3, 5))]
# lang-spec.md: "<basic_type> is an integer type u8, u16, u32, and u64"; "Flags can not be signed types (i*), while enums can"
DEFINER_BASE = {'u8': (1, False), 'u16': (2, False), 'u32': (4, False), 'u64': (8, False),
                'i8': (1, True), 'i16': (2, True), 'i32': (4, True), 'i64': (8, True),
                'u48': (6, False)}   # u48 is not in the spec's list; the corpus uses it for MovementFlags (3.3.5)
CONST_BUILTIN = {'Bool', 'Bool32', 'DateTime', 'f32', 'Population'}


# ------------------------------------------------------------------------------------------------
# tokens with offsets

class Tok:
    __slots__ = ('kind', 'val', 'line', 'pos', 'end')

    def __init__(s, kind, val, line, pos, end):
        s.kind, s.val, s.line, s.pos, s.end = kind, val, line, pos, end

    def __repr__(s):
        return f'{s.kind}:{s.val!r}@{s.line}'


def tokenize(text, fname):
    pos, line, out = 0, 1, []
    while pos < len(text):
        m = wowm.TOKEN_RE.match(text, pos)
        if not m:
            raise SyntaxError(f'{fname}:{line}: bad char {text[pos]!r}')
        k = m.lastgroup
        v = m.group(k)
        if k not in ('ws', 'comment'):
            out.append(Tok(k, v, line, pos, m.end()))
        line += v.count('\n')
        pos = m.end()
    out.append(Tok('eof', '', line, len(text), len(text)))
    return out


class PP:
    """Recursive descent over the token list; every node records token indices (i0 inclusive, i1 exclusive)."""

    def __init__(s, toks, fname):
        s.t, s.i, s.f = toks, 0, fname

    def peek(s, k=0):
        return s.t[min(s.i + k, len(s.t) - 1)]

    def next(s):
        t = s.t[s.i]
        if t.kind == 'eof':
            raise SyntaxError(f'{s.f}: unexpected end of file')
        s.i += 1
        return t

    def accept(s, val):
        if s.peek().val == val and s.peek().kind in ('op', 'ident'):
            s.i += 1
            return True
        return False

    def expect(s, val):
        t = s.next()
        if t.val != val:
            raise SyntaxError(f'{s.f}:{t.line}: expected {val!r} got {t!r}')
        return t

    def ident(s):
        t = s.next()
        if t.kind not in ('ident', 'num'):
            raise SyntaxError(f'{s.f}:{t.line}: expected ident got {t!r}')
        return t.val

    def docs(s):
        while s.peek().kind == 'doc':
            s.next()

    def kvs(s):
        i0 = s.i
        items = []
        s.expect('{')
        while not s.accept('}'):
            k0 = s.i
            k = s.ident()
            s.expect('=')
            t = s.next()
            if t.kind != 'string':
                raise SyntaxError(f'{s.f}:{t.line}: tag value must be a string')
            s.expect(';')
            items.append({'k': k, 'v': t.val[1:-1], 'i0': k0, 'i1': s.i, 'vtok': s.i - 2})
        if not items:
            raise SyntaxError(f'{s.f}: empty tag block')
        return {'items': items, 'i0': i0, 'i1': s.i}

    def file(s):
        cmds, objs = [], []
        while s.peek().val == '#':
            i0 = s.i
            s.next()
            c = s.ident()
            k = s.ident()
            v = s.next()
            s.expect(';')
            cmds.append({'cmd': c, 'k': k, 'v': v.val[1:-1], 'i0': i0, 'i1': s.i})
        while s.peek().kind != 'eof':
            s.docs()
            if s.peek().kind == 'eof':
                break
            kw = s.peek().val
            i0 = s.i
            if kw in ('enum', 'flag'):
                o = s.definer()
            elif kw in CONTAINER_KINDS:
                o = s.container()
            elif kw == 'test':
                o = s.test()
            else:
                raise SyntaxError(f'{s.f}:{s.peek().line}: unexpected {s.peek()!r}')
            o['i0'], o['i1'] = i0, s.i
            o['line'] = s.t[i0].line
            objs.append(o)
        return cmds, objs

    def definer(s):
        kind = s.next().val
        name_tok = s.i
        name = s.ident()
        s.expect(':')
        ty_tok = s.i
        ty = s.ident()
        body_open = s.i
        s.expect('{')
        fields = []
        while s.peek().val != '}':
            s.docs()
            f0 = s.i
            n = s.ident()
            s.expect('=')
            vt = s.i
            v = s.next()
            if s.peek().val == '{':
                s.kvs()
            else:
                s.expect(';')
            fields.append({'name': n, 'raw': v.val, 'vkind': v.kind, 'val_tok': vt, 'i0': f0, 'i1': s.i})
        body_close = s.i
        s.expect('}')
        if not fields:
            raise SyntaxError(f'{s.f}: definer without enumerators')
        tb = s.kvs() if s.peek().val == '{' else None
        return {'kind': kind, 'name': name, 'name_tok': name_tok, 'ty': ty, 'ty_tok': ty_tok, 'fields': fields,
                'body_open': body_open, 'body_close': body_close, 'tagblock': tb}

    def container(s):
        kind = s.next().val
        name_tok = s.i
        name = s.ident()
        opcode_tok = None
        if s.accept('='):
            opcode_tok = s.i
            s.next()
        body_open = s.i
        members = s.members()
        body_close = s.i - 1
        tb = s.kvs() if s.peek().val == '{' else None
        if (kind == 'struct') != (opcode_tok is None):
            raise SyntaxError(f'{s.f}: opcode presence does not fit the keyword')
        return {'kind': kind, 'name': name, 'name_tok': name_tok, 'opcode_tok': opcode_tok,
                'opcode_raw': s.t[opcode_tok].val if opcode_tok is not None else None,
                'members': members, 'body_open': body_open, 'body_close': body_close, 'tagblock': tb}

    def members(s):
        s.expect('{')
        out = []
        while not s.accept('}'):
            out.append(s.member())
        return out

    def member(s):
        s.docs()
        i0 = s.i
        t = s.peek()
        if t.val == 'if' and s.peek(1).val == '(':
            m = s.ifstmt()
        elif t.val == 'optional' and s.peek(2).val == '{':
            s.next()
            nt = s.i
            n = s.ident()
            bo = s.i
            mem = s.members()
            m = {'m': 'optional', 'name': n, 'name_tok': nt, 'members': mem, 'body_open': bo, 'body_close': s.i - 1}
        elif t.val == 'unimplemented':
            s.next()
            m = {'m': 'unimplemented'}
        else:
            upcast = upcast_tok = None
            if s.accept('('):
                upcast_tok = s.i
                upcast = s.ident()
                s.expect(')')
            ty_tok = s.i
            ty = s.ident()
            arr = None
            if s.accept('['):
                if upcast is not None:
                    raise SyntaxError(f'{s.f}: upcast on an array')
                if s.accept('-'):
                    arr = '-'
                else:
                    arr = s.ident()
                s.expect(']')
            nt = s.i
            n = s.ident()
            val = val_tok = None
            if s.accept('='):
                val_tok = s.i
                val = s.next().val
            if s.peek().val == '{':
                s.kvs()
            else:
                s.expect(';')
            m = {'m': 'def', 'ty': ty, 'ty_tok': ty_tok, 'upcast': upcast, 'upcast_tok': upcast_tok, 'array': arr,
                 'name': n, 'name_tok': nt, 'value': val, 'val_tok': val_tok}
        m['i0'], m['i1'] = i0, s.i
        return m

    def conds(s):
        s.expect('(')
        c = []
        while True:
            vt = s.i
            v = s.ident()
            ot = s.i
            op = s.next().val
            if op not in ('==', '!=', '&'):
                raise SyntaxError(f'{s.f}: bad operator {op!r}')
            et = s.i
            e = s.ident()
            c.append({'var': v, 'op': op, 'enum': e, 'var_tok': vt, 'op_tok': ot, 'enum_tok': et})
            if not s.accept('||'):
                break
        s.expect(')')
        return c

    def ifstmt(s):
        s.expect('if')
        c = s.conds()
        bo = s.i
        mem = s.members()
        bc = s.i - 1
        elifs, els, else_open, else_close = [], [], None, None
        while s.peek().val == 'else':
            s.next()
            if s.accept('if'):
                ec = s.conds()
                eo = s.i
                em = s.members()
                elifs.append({'conds': ec, 'members': em, 'body_open': eo, 'body_close': s.i - 1})
            else:
                else_open = s.i
                els = s.members()
                else_close = s.i - 1
                if not els:
                    raise SyntaxError(f'{s.f}: empty else')
                break
        return {'m': 'if', 'conds': c, 'members': mem, 'body_open': bo, 'body_close': bc, 'elifs': elifs, 'else': els,
                'else_open': else_open, 'else_close': else_close}

    def test(s):
        s.expect('test')
        name = s.ident()
        s.skip_block('{', '}')
        s.skip_block('[', ']')
        tb = s.kvs() if s.peek().val == '{' else None
        return {'kind': 'test', 'name': name, 'tagblock': tb}

    def skip_block(s, o, c):
        s.expect(o)
        depth = 1
        while depth:
            t = s.next()
            if t.kind == 'op' and t.val in '{[':
                depth += 1
            elif t.kind == 'op' and t.val in '}]':
                depth -= 1


# ------------------------------------------------------------------------------------------------
# versions

def parse_wv(x):
    if x == '*':
        return ('*',)
    parts = tuple(int(p) for p in x.split('.'))
    if not 1 <= len(parts) <= 4:
        raise ValueError(x)
    return parts


def tagcovers(t, v):
    """tag version t covers version v: as specific or less specific (versioning-with-tags.md)"""
    if t == ('*',) or t == '*':
        return True
    if v == ('*',) or v == '*':
        return False
    if isinstance(t, int) or isinstance(v, int):
        return t == v
    return len(t) <= len(v) and tuple(v[:len(t)]) == tuple(t)


def overlaps(a, b):
    return tagcovers(a, b) or tagcovers(b, a)


def fmt_v(v):
    if v == ('*',) or v == '*':
        return '*'
    if isinstance(v, int):
        return str(v)
    return '.'.join(str(x) for x in v)


class FileAST:
    def __init__(s, rel, text):
        s.rel, s.text = rel, text
        s.toks = tokenize(text, rel)
        s.cmds, s.objs = PP(s.toks, rel).file()
        if not s.objs:
            raise SyntaxError(f'{rel}: no statements')
        s.tag_all = [(c['k'], c['v']) for c in s.cmds if c['cmd'] == 'tag_all']
        s.version_tag_all = any(k in ('versions', 'login_versions', 'paste_versions') for k, _ in s.tag_all)
        for o in s.objs:
            o['file'] = s
            annotate_versions(o, s.tag_all)


def annotate_versions(o, tag_all):
    """fills o['fam'] in world/login/none/both, o['vsets'] (one list of versions per instance), o['vbad']"""
    tags = [(i['k'], i['v']) for i in (o['tagblock']['items'] if o['tagblock'] else [])] + list(tag_all)
    o['tags'] = tags
    wv, pv, lv = [], [], []
    o['vbad'] = None
    try:
        for k, v in tags:
            if k == 'versions':
                wv += [parse_wv(x) for x in v.split()]
            elif k == 'paste_versions':
                pv += [parse_wv(x) for x in v.split()]
            elif k == 'login_versions':
                lv += [x if x == '*' else int(x) for x in v.split()]
    except ValueError as e:
        o['vbad'] = str(e)
    o['wv'], o['pv'], o['lv'] = wv, pv, lv
    o['is_test_obj'] = ('test', 'true') in tags
    if (wv or pv) and lv:
        o['fam'], o['vsets'] = 'both', []
    elif pv:
        o['fam'] = 'world'
        o['vsets'] = [[p] + wv for p in pv]      # documented only for pv alone; objects with both are not mutated
    elif wv:
        o['fam'], o['vsets'] = 'world', [wv]
    elif lv:
        o['fam'], o['vsets'] = 'login', [lv]
    else:
        o['fam'], o['vsets'] = 'none', []


def walk(members, ctx=()):
    """pre-order: yields (member, ctx) where ctx is a tuple of enclosing block kinds"""
    for m in members:
        yield m, ctx
        if m['m'] == 'if':
            yield from walk(m['members'], ctx + ('if',))
            for e in m['elifs']:
                yield from walk(e['members'], ctx + ('else-if',))
            yield from walk(m['else'], ctx + ('else',))
        elif m['m'] == 'optional':
            yield from walk(m['members'], ctx + ('optional',))


def ctx_name(ctx):
    if not ctx:
        return 'top'
    return ('nested-' if len(ctx) > 1 else '') + ctx[-1]


# ------------------------------------------------------------------------------------------------
# the tree (all files) and name resolution

def load_index(repo):
    """the opcode index: name -> opcode per expansion (wow_message_parser/src/parser/stats/*_messages.rs, plain data)"""
    out = {}
    for e, _ in EXPANSIONS:
        p = os.path.join(repo, 'wow_message_parser', 'src', 'parser', 'stats', f'{e}_messages.rs')
        d = {}
        for m in re.finditer(r'Data::\w+\(\s*"(\w+)"\s*,\s*(0x[0-9A-Fa-f]+|\d+)', open(p).read()):
            d[m.group(1)] = int(m.group(2), 0)
        out[e] = d
    return out


class Tree:
    def __init__(s, repo=None, files=None, index=None):
        s.repo = repo
        s.files = files if files is not None else {}
        s.index = index
        if files is None:
            root = os.path.join(repo, 'wow_message_parser', 'wowm')
            for sub in ('login', 'world'):
                for d, _, fs in os.walk(os.path.join(root, sub)):
                    for f in sorted(fs):
                        if f.endswith('.wowm'):
                            p = os.path.join(d, f)
                            rel = os.path.relpath(p, repo)
                            s.files[rel] = FileAST(rel, open(p).read())
            s.index = load_index(repo)
        s.by_name = collections.defaultdict(list)
        for f in s.files.values():
            for o in f.objs:
                if o['kind'] != 'test':
                    s.by_name[o['name']].append(o)
        s._refs = None

    def all_objs(s):
        for rel in sorted(s.files):
            yield from s.files[rel].objs

    def refs(s):
        """type name -> list of containers whose members mention it"""
        if s._refs is None:
            r = collections.defaultdict(list)
            for o in s.all_objs():
                if o['kind'] in CONTAINER_KINDS:
                    for n in {m['ty'] for m, _ in walk(o['members']) if m['m'] == 'def'}:
                        r[n].append(o)
            s._refs = r
        return s._refs

    def overlay(s, edits):
        """-> (new Tree with the edited files re-parsed, set of changed rels).  Raises SyntaxError if a file no longer parses."""
        by_file = collections.defaultdict(list)
        for e in edits:
            by_file[e['file']].append(e)
        files = dict(s.files)
        for rel, es in by_file.items():
            text = apply_edits(s.files[rel].text, es)
            files[rel] = FileAST(rel, text)
        return Tree(s.repo, files, s.index), set(by_file)

    def resolve(s, name, fam, vset):
        """-> (object, instance versions) named `name` whose versions cover every version in vset, else None"""
        for c in s.by_name.get(name, ()):
            if c['fam'] != fam:
                continue
            for cv in c['vsets']:
                if all(any(tagcovers(t, v) for t in cv) for v in vset):
                    return c, cv
        return None


def apply_edits(text, edits):
    for e in sorted(edits, key=lambda e: -e['pos']):
        if text[e['pos']:e['pos'] + len(e['old'])] != e['old']:
            raise ValueError(f'edit does not apply at {e["file"]}:{e["pos"]}: expected {e["old"]!r}')
        text = text[:e['pos']] + e['new'] + text[e['pos'] + len(e['old']):]
    return text


# ------------------------------------------------------------------------------------------------
# reference checker

def parse_value(raw, kind):
    if kind == 'string':
        return wowm.parse_value(raw)
    if kind != 'num':
        return None
    return wowm.parse_value(raw)


def check_versions(o):
    out = []
    if o['vbad']:
        out.append(('other:version-format', o['vbad']))
    if o['fam'] == 'none':
        out.append(('no-version', ''))
    elif o['fam'] == 'both':
        out.append(('both-versions', ''))
    wv = o['wv']
    for i in range(len(wv)):
        for j in range(i + 1, len(wv)):
            if overlaps(wv[i], wv[j]) and ('*',) not in (wv[i], wv[j]):
                out.append(('overlap-tags', f'{fmt_v(wv[i])} / {fmt_v(wv[j])}'))
    return out


def check_definer(tree, o):
    out = check_versions(o)
    base = DEFINER_BASE.get(o['ty'])
    if base is None:
        out.append(('bad-int-type', o['ty']))
    elif o['kind'] == 'flag' and base[1]:
        out.append(('flag-signed', o['ty']))
    seen_names, seen_vals = set(), {}
    for f in o['fields']:
        if f['name'] in seen_names:
            out.append(('other:dup-enumerator-name', f['name']))
        seen_names.add(f['name'])
        v = parse_value(f['raw'], f['vkind'])
        if v is None or '.' in f['raw'] and f['vkind'] == 'num':
            out.append(('bad-value', f'{f["name"]}={f["raw"]}'))
            continue
        if base is not None:
            w, signed = base
            lo, hi = (-(1 << (8 * w - 1)), (1 << (8 * w - 1)) - 1) if signed else (0, (1 << (8 * w)) - 1)
            if not lo <= v <= hi:
                out.append(('range-value', f'{f["name"]}={v}'))
        if o['kind'] == 'enum':
            if v in seen_vals:
                out.append(('dup-value', f'{seen_vals[v]}/{f["name"]}={v}'))
            seen_vals.setdefault(v, f['name'])
    return out


def const_size(tree, o, vset, m, depth=0):
    if m['array'] is not None and not re.fullmatch(r'\d+', m['array']):
        return False
    ty = m['ty']
    if ty in model.INT_TYPES or ty in model.ALIASES or ty in CONST_BUILTIN:
        return True
    if model.is_builtin(ty):
        return False
    r = tree.resolve(ty, o['fam'], vset)
    if r is None or depth > 20:
        return False
    c, cv = r
    if c['kind'] in ('enum', 'flag'):
        return True
    return all(x['m'] == 'def' and const_size(tree, c, cv, x, depth + 1) for x in c['members'])


def contains_self(tree, start, vset0):
    """does `start` (instance vset0) reach itself through member types (plain or array)?"""
    seen = set()
    stack = [(start, tuple(vset0), 0)]
    while stack:
        o, vs, d = stack.pop()
        for m, _ in walk(o['members']):
            if m['m'] != 'def' or model.is_builtin(m['ty']):
                continue
            r = tree.resolve(m['ty'], o['fam'], vs)
            if r is None:
                continue
            c, cv = r
            if c['kind'] not in CONTAINER_KINDS:
                continue
            if c is start:
                return True
            key = (id(c), tuple(cv))
            if key not in seen:
                seen.add(key)
                stack.append((c, tuple(cv), d + 1))
    return False


def check_container(tree, o):
    out = check_versions(o)
    # lang-spec.md says declarations *and optional statements* share one namespace; the corpus itself names an optional
    # block like one of its fields (SMSG_PET_SPELLS: optional action_bars { ... u32[10] action_bars; }), so only
    # declarations are compared with declarations and optional statements with optional statements
    for kind in ('def', 'optional'):
        names = [m['name'] for m, _ in walk(o['members']) if m['m'] == kind]
        for n, k in collections.Counter(names).items():
            if k > 1:
                out.append(('dup-field', n))
    top = o['members']
    for i, m in enumerate(top):
        if m['m'] == 'optional' and i != len(top) - 1:
            out.append(('other:optional-not-last', m['name']))
    for m, ctx in walk(o['members']):
        if m['m'] == 'optional' and ctx:
            out.append(('other:optional-nested', m['name']))
    seen = set()

    def add(rule, detail):
        if (rule, detail) not in seen:
            seen.add((rule, detail))
            out.append((rule, detail))

    for vset in o['vsets']:
        decl = {}
        for m, ctx in walk(o['members']):
            if m['m'] == 'def':
                ty = m['ty']
                target = None
                if model.is_builtin(ty):
                    if m['upcast'] is not None:
                        add('upcast-unsupported', f'{m["name"]}: ({m["upcast"]}){ty}')
                else:
                    r = tree.resolve(ty, o['fam'], vset)
                    if r is None:
                        add('unknown-type', f'{m["name"]}: {ty}')
                    else:
                        target = r[0]
                        if m['upcast'] is not None:
                            if m['upcast'] not in DEFINER_BASE:
                                add('other:upcast-type', m['upcast'])
                            elif target['kind'] not in ('enum', 'flag'):
                                add('upcast-unsupported', f'{m["name"]}: ({m["upcast"]}){ty} is not a definer')
                            elif target['ty'] in DEFINER_BASE:
                                if m['upcast'] == target['ty']:
                                    add('upcast-same', f'{m["name"]}: ({m["upcast"]}){ty}')
                                elif DEFINER_BASE[m['upcast']][0] < DEFINER_BASE[target['ty']][0]:
                                    add('upcast-unsupported', f'{m["name"]}: ({m["upcast"]}){ty} narrows {target["ty"]}')
                        if m['value'] is not None and m['value'] != 'self.size' and not re.match(r'^(0x|0b|-?\d|")', m['value']):
                            if target['kind'] not in ('enum', 'flag') or m['value'] not in {f['name'] for f in target['fields']}:
                                add('other:constant-not-an-enumerator', m['value'])
                if m['array'] is not None and m['array'] != '-' and not re.fullmatch(r'\d+', m['array']):
                    d = decl.get(m['array'], (None, None))[0]
                    if d is None or d['array'] is not None or not (d['ty'] in model.INT_TYPES or d['ty'] in model.ALIASES):
                        add('other:array-length', m['array'])
                if m['value'] == 'self.size':
                    if ctx:
                        add('self-size', f'{m["name"]} inside {ctx_name(ctx)}')
                    else:
                        for p in top:
                            if p is m:
                                break
                            if p['m'] != 'def':
                                add('self-size', f'{m["name"]} after {p["m"]}')
                                break
                            if not const_size(tree, o, vset, p):
                                add('self-size', f'{m["name"]} after variable-sized {p["name"]}')
                                break
                decl.setdefault(m['name'], (m, target))
            elif m['m'] == 'if':
                chains = [m['conds']] + [e['conds'] for e in m['elifs']]
                first = m['conds'][0]['var']
                for ci, chain in enumerate(chains):
                    ops = {c['op'] for c in chain}
                    if len(ops) > 1:
                        add('other:mixed-operators', first)
                    if '!=' in ops and (len(chain) > 1 or len(chains) > 1):
                        add('other:not-equals-restriction', first)
                    for c in chain:
                        if c['var'] != first:
                            add('if-vars', f'{first} / {c["var"]}')
                        d = decl.get(c['var'])
                        if d is None:
                            add('other:if-variable-undeclared', c['var'])
                            continue
                        dm, dt = d
                        if dt is None:
                            # built-in type, or a type that does not resolve: the condition cannot be checked at all
                            add('other:if-variable-not-definer' if model.is_builtin(dm['ty']) else 'other:if-variable-type-unresolved', c['var'])
                            continue
                        if dt['kind'] not in ('enum', 'flag') or dm['array'] is not None:
                            add('other:if-variable-not-definer', c['var'])
                            continue
                        if dt['kind'] == 'enum' and c['op'] == '&':
                            add('enum-and', f'{c["var"]} & {c["enum"]}')
                        if dt['kind'] == 'flag' and c['op'] in ('==', '!='):
                            add('flag-equals', f'{c["var"]} {c["op"]} {c["enum"]}')
                        if c['enum'] not in {f['name'] for f in dt['fields']}:
                            add('missing-enumerator', f'{c["var"]}: {c["enum"]}')
        if contains_self(tree, o, vset):
            add('recursive', o['name'])
        if o['kind'] in ('smsg', 'cmsg', 'msg') and o['fam'] == 'world' and tree.index is not None:
            real = o['name'].replace('_Client', '').replace('_Server', '')
            opc = wowm.parse_value(o['opcode_raw'])
            for e, ev in EXPANSIONS:
                if not any(tagcovers(t, ev) for t in vset):
                    continue
                idx = tree.index[e]
                if real in idx:
                    if idx[real] != opc:
                        add('opcode-mismatch', f'{e}: {real} index {idx[real]:#x} has {opc:#x}')
                elif opc in idx.values():
                    add('name-mismatch', f'{e}: {opc:#x} is not {real}')
                else:
                    add('not-in-index', f'{e}: {real} {opc:#x}')
    if o['kind'] in ('clogin', 'slogin') and o['fam'] == 'world' or o['kind'] in ('smsg', 'cmsg', 'msg') and o['fam'] == 'login':
        out.append(('other:message-kind-vs-version-kind', o['kind']))
    return out


def check_test(tree, o):
    out = []
    if o['fam'] in ('none', 'both'):
        out += check_versions(o)
        return out
    for vset in o['vsets']:
        r = tree.resolve(o['name'], o['fam'], vset)
        if r is None or r[0]['kind'] not in CONTAINER_KINDS:
            out.append(('other:test-subject', o['name']))
    return out


def check_overlap(tree, name):
    out = []
    objs = tree.by_name.get(name, [])
    for i in range(len(objs)):
        for j in range(i + 1, len(objs)):
            a, b = objs[i], objs[j]
            if a['fam'] != b['fam']:
                continue
            if any(overlaps(x, y) for va in a['vsets'] for vb in b['vsets'] for x in va for y in vb):
                out.append(('overlap-names', name))
    return out


def check_obj(tree, o):
    if o['kind'] in ('enum', 'flag'):
        return check_definer(tree, o)
    if o['kind'] == 'test':
        return check_test(tree, o)
    return check_container(tree, o)


def check_all(tree):
    """-> list of (rule, object name, file, detail) over the whole tree"""
    out = []
    for o in tree.all_objs():
        for r, d in check_obj(tree, o):
            out.append((r, o['name'], o['file'].rel, d))
    for n in sorted(tree.by_name):
        for r, d in check_overlap(tree, n):
            out.append((r, n, tree.by_name[n][0]['file'].rel, d))
    return out


def check_mutant(base, edits):
    """-> list of (rule, object name, file, detail) for everything a set of edits can affect; raises SyntaxError"""
    new, changed = base.overlay(edits)
    names = set()
    for rel in changed:
        for o in base.files[rel].objs:
            names.add(o['name'])
        for o in new.files[rel].objs:
            names.add(o['name'])
    todo, seen = [], set()
    for rel in sorted(changed):
        for o in new.files[rel].objs:
            todo.append(o)
            seen.add(id(o))
    refs = base.refs()
    for n in sorted(names):
        for o in refs.get(n, ()):
            if o['file'].rel in changed or id(o) in seen:
                continue
            seen.add(id(o))
            todo.append(o)
    # containers that reach a changed name only transitively matter for recursion / const-size only; the operators
    # below never make an *unchanged* container recursive without changing a file it lives in or a direct referent
    for f in new.files.values():
        if f.rel in changed:
            continue
        for o in f.objs:
            if o['kind'] == 'test' and o['name'] in names:
                todo.append(o)
    out = []
    for o in todo:
        for r, d in check_obj(new, o):
            out.append((r, o['name'], o['file'].rel, d))
    for n in sorted(names):
        for r, d in check_overlap(new, n):
            out.append((r, n, '', d))
    return out


# ------------------------------------------------------------------------------------------------
# mutation operators

def E(f, pos, old, new):
    return {'file': f.rel, 'pos': pos, 'old': old, 'new': new}


def rep_tok(f, i, new):
    t = f.toks[i]
    return E(f, t.pos, f.text[t.pos:t.end], new)


def ins_after(f, i, text):
    return E(f, f.toks[i].end, '', text)


def ins_before(f, i, text):
    return E(f, f.toks[i].pos, '', text)


def del_span(f, i0, i1):
    """delete tokens i0..i1-1 (with the text between them)"""
    a, b = f.toks[i0].pos, f.toks[i1 - 1].end
    return E(f, a, f.text[a:b], '')


class Facts:
    """derived facts over the unmodified tree used for site classification"""

    def __init__(s, tree):
        s.tree = tree
        s.test_subjects = {o['name'] for o in tree.all_objs() if o['kind'] == 'test'}
        # names of containers reachable from tested containers (by name, conservative)
        reach = set(s.test_subjects)
        changed = True
        while changed:
            changed = False
            for n in list(reach):
                for o in tree.by_name.get(n, ()):
                    if o['kind'] in CONTAINER_KINDS:
                        for m, _ in walk(o['members']):
                            if m['m'] == 'def' and not model.is_builtin(m['ty']) and m['ty'] not in reach:
                                reach.add(m['ty'])
                                changed = True
        s.test_reach = reach
        # container name -> tests (objects) whose subject reaches it (by name, conservative)
        s.tests_touching = collections.defaultdict(list)
        cache = {}
        for t in tree.all_objs():
            if t['kind'] != 'test':
                continue
            if t['name'] not in cache:
                r, todo = {t['name']}, [t['name']]
                while todo:
                    n = todo.pop()
                    for o in tree.by_name.get(n, ()):
                        if o['kind'] in CONTAINER_KINDS:
                            for m, _ in walk(o['members']):
                                if m['m'] == 'def' and not model.is_builtin(m['ty']) and m['ty'] not in r:
                                    r.add(m['ty'])
                                    todo.append(m['ty'])
                cache[t['name']] = r
            for n in cache[t['name']]:
                s.tests_touching[n].append(t)
        used = set()
        frontier = [o for o in tree.all_objs() if o['kind'] in MESSAGE_KINDS]
        while frontier:
            o = frontier.pop()
            for m, _ in walk(o['members']):
                if m['m'] == 'def' and not model.is_builtin(m['ty']) and m['ty'] not in used:
                    used.add(m['ty'])
                    frontier += [c for c in tree.by_name.get(m['ty'], ()) if c['kind'] in CONTAINER_KINDS]
        s.used_by_messages = used
        s.referenced = set(tree.refs())

    def untested(s, o):
        """-> (usable, extra edits, site suffix): members of a tested container may only change together with the
        removal of the tests that describe it (tests are optional statements; the tree stays valid).  Done for the
        login family only (every login message has tests); tested world containers are simply not used."""
        if o['name'] not in s.test_reach:
            return True, [], None
        if o['fam'] != 'login':
            return False, [], None
        ts = s.tests_touching.get(o['name'], [])
        return True, [del_span(t['file'], t['i0'], t['i1']) for t in ts], 'tests-removed'

    def okind(s, o):
        if o['kind'] in ('enum', 'flag'):
            return o['kind']
        if o['kind'] in MESSAGE_KINDS:
            return 'message'
        return 'struct-in-message' if o['name'] in s.used_by_messages else 'struct-free'

    def site(s, o, ctx='top', extra=None):
        c = f"{o['fam']}:{s.okind(o)}:{ctx}"
        if extra:
            c += ':' + extra
        if o['file'].version_tag_all:
            c += '+tag_all'
        if o['pv']:
            c += '+paste'
        return c


def eligible(o):
    return o['kind'] != 'test' and o['fam'] in ('world', 'login') and not (o['pv'] and o['wv']) and not o['is_test_obj']


def blocks(o):
    """every member block of a container: (ctx, open-brace token index, members)"""
    yield (), o['body_open'], o['members']
    for m, ctx in walk(o['members']):
        if m['m'] == 'if':
            yield ctx + ('if',), m['body_open'], m['members']
            for e in m['elifs']:
                yield ctx + ('else-if',), e['body_open'], e['members']
            if m['else_open'] is not None:
                yield ctx + ('else',), m['else_open'], m['else']
        elif m['m'] == 'optional':
            yield ctx + ('optional',), m['body_open'], m['members']


def mk(rule, variant, o, site, edits, desc, names=None, extra=None):
    if extra and extra[1]:
        # overlapping deletions (a test listed twice) are merged
        seen, more = set(), []
        for e in extra[1]:
            if (e['file'], e['pos']) not in seen:
                seen.add((e['file'], e['pos']))
                more.append(e)
        edits = edits + more
        site += '+' + extra[2]
        desc += f' (and the {len(more)} test(s) describing it removed)'
    return {'rule': rule, 'variant': variant, 'object': o['name'], 'file': o['file'].rel, 'site': site, 'edits': edits,
            'desc': desc, 'names': names or [o['name']]}


def containers(tree):
    return [o for o in tree.all_objs() if o['kind'] in CONTAINER_KINDS and eligible(o)]


def definers(tree):
    return [o for o in tree.all_objs() if o['kind'] in ('enum', 'flag') and eligible(o)]


def member_target(tree, o, m):
    if model.is_builtin(m['ty']):
        return None
    r = tree.resolve(m['ty'], o['fam'], o['vsets'][0])
    return r[0] if r else None


def op_unknown_type(tree, facts, rng):
    out = []
    by_fam = collections.defaultdict(list)
    for d in definers(tree):
        by_fam[d['fam']].append(d)
    partial = {}
    for o in containers(tree):
        f = o['file']
        ifvars = {c['var'] for _m, _ctx, _ck, chain in if_sites(o) for c in chain}
        for m, ctx in walk(o['members']):
            if m['m'] != 'def' or model.is_builtin(m['ty']):
                continue
            arr = 'array' if m['array'] is not None else 'plain'
            role = '@if-variable' if m['name'] in ifvars else ''    # the type of an if-variable is looked up by more passes than a plain member's
            out.append(mk('unknown-type', 'fresh-name' + role, o, facts.site(o, ctx_name(ctx), arr),
                          [rep_tok(f, m['ty_tok'], 'VerifUnknownType')], f'type of member {m["name"]}: {m["ty"]} -> VerifUnknownType'))
            t = member_target(tree, o, m)
            if t is not None and t['kind'] in ('enum', 'flag') and m['upcast'] is None and m['value'] is None:
                # a name that exists in the corpus but never for this object's versions
                for _ in range(6):
                    u = rng.choice(by_fam[o['fam']])
                    if u['name'] != m['ty'] and all(tree.resolve(u['name'], o['fam'], vs) is None for vs in o['vsets']):
                        out.append(mk('unknown-type', 'other-version' + role, o, facts.site(o, ctx_name(ctx), arr),
                                      [rep_tok(f, m['ty_tok'], u['name'])],
                                      f'type of member {m["name"]}: {m["ty"]} -> {u["name"]} (exists only for other versions)'))
                        break
                vs = o['vsets'][0]
                if len(o['vsets']) == 1 and len(vs) > 1:
                    # a name that covers some of the object's versions but not all of them
                    pc = partial.get((o['fam'], tuple(vs)))
                    if pc is None:
                        pc = [u for u in by_fam[o['fam']] if tree.resolve(u['name'], o['fam'], vs) is None
                              and any(tree.resolve(u['name'], o['fam'], [v]) is not None for v in vs)]
                        partial[(o['fam'], tuple(vs))] = pc
                    pc = [u for u in pc if u['name'] != m['ty']]
                    if pc:
                        u = rng.choice(pc)
                        out.append(mk('unknown-type', 'partial-cover' + role, o, facts.site(o, ctx_name(ctx), arr),
                                      [rep_tok(f, m['ty_tok'], u['name'])],
                                      f'type of member {m["name"]}: {m["ty"]} -> {u["name"]} (covers only some of the versions {" ".join(fmt_v(v) for v in vs)})'))
    return out


def op_recursive(tree, facts, rng):
    out = []
    for o in containers(tree):
        if o['kind'] != 'struct':
            continue
        ux = facts.untested(o)
        if not ux[0]:
            continue
        f = o['file']
        for ctx, bo, mem in blocks(o):
            out.append(mk('recursive', 'direct', o, facts.site(o, ctx_name(ctx)),
                          [ins_after(f, bo, f'\n    {o["name"]} verif_self;')], f'struct {o["name"]} gets a member of its own type', extra=ux))
            if not ctx:
                out.append(mk('recursive', 'array-of-self', o, facts.site(o, 'top', 'array'),
                              [ins_after(f, bo, f'\n    {o["name"]}[2] verif_self;')], f'struct {o["name"]} gets a fixed array of its own type', extra=ux))
        for m, ctx in walk(o['members']):
            if m['m'] != 'def':
                continue
            t = member_target(tree, o, m)
            if t is None or t['kind'] != 'struct' or t is o or not eligible(t) or t['name'] in facts.test_reach or ux[1]:
                continue
            out.append(mk('recursive', 'indirect', o, facts.site(o, ctx_name(ctx), 'indirect'),
                          [ins_after(t['file'], t['body_open'], f'\n    {o["name"]} verif_back;')],
                          f'struct {t["name"]} (a member type of {o["name"]}) gets a member of type {o["name"]}',
                          names=[o['name'], t['name']]))
    return out


def if_sites(o):
    """(if member, ctx, chain kind, chain)"""
    for m, ctx in walk(o['members']):
        if m['m'] == 'if':
            yield m, ctx, 'if', m['conds']
            for e in m['elifs']:
                yield m, ctx, 'else-if', e['conds']


def var_decl(o, name):
    for m, ctx in walk(o['members']):
        if m['m'] == 'def' and m['name'] == name:
            return m
    return None


def op_missing_enumerator(tree, facts, rng):
    out = []
    for o in containers(tree):
        f = o['file']
        for m, ctx, ck, chain in if_sites(o):
            for k, c in enumerate(chain):
                pos = 'first' if k == 0 else 'or'
                out.append(mk('missing-enumerator', f'{ck}-{pos}@{ctx_name(ctx)}', o, facts.site(o, ctx_name(ctx), f'{ck}-cond-{pos}({c["op"]})'),
                              [rep_tok(f, c['enum_tok'], 'VERIF_MISSING_ENUMERATOR')],
                              f'enumerator {c["enum"]} of `{c["var"]} {c["op"]} {c["enum"]}` -> VERIF_MISSING_ENUMERATOR'))
    return out


def op_operator(tree, facts, rng, want):
    out = []
    for o in containers(tree):
        f = o['file']
        for m, ctx, ck, chain in if_sites(o):
            d = var_decl(o, chain[0]['var'])
            t = member_target(tree, o, d) if d else None
            if t is None:
                continue
            if want == 'enum-and' and t['kind'] == 'enum':
                out.append(mk('enum-and', f'{ck}@{ctx_name(ctx)}', o, facts.site(o, ctx_name(ctx), f'{ck}({chain[0]["op"]}x{len(chain)})'),
                              [rep_tok(f, c['op_tok'], '&') for c in chain],
                              f'`{chain[0]["var"]} {chain[0]["op"]} ...` on enum {t["name"]} -> &'))
            if want == 'flag-equals' and t['kind'] == 'flag':
                news = ['==']
                if len(chain) == 1 and not m['elifs']:
                    news.append('!=')
                for new in news:
                    out.append(mk('flag-equals', f'{ck}{new}@{ctx_name(ctx)}', o, facts.site(o, ctx_name(ctx), f'{ck}({new}x{len(chain)})'),
                                  [rep_tok(f, c['op_tok'], new) for c in chain],
                                  f'`{chain[0]["var"]} & ...` on flag {t["name"]} -> {new}'))
    return out


VERSION_KEYS = ('versions', 'login_versions', 'paste_versions')


def op_no_version(tree, facts, rng):
    out = []
    for f in tree.files.values():
        objs = [o for o in f.objs if o['kind'] != 'test']
        if f.version_tag_all:
            if all(eligible(o) for o in objs) and not any(o['name'] in facts.referenced or o['name'] in facts.test_subjects for o in objs):
                vc = [c for c in f.cmds if c['k'] in VERSION_KEYS]
                if len(vc) == 1 and not any(o['tagblock'] and any(i['k'] in VERSION_KEYS for i in o['tagblock']['items']) for o in f.objs):
                    o = objs[0]
                    out.append(mk('no-version', 'strip-tag_all', o, facts.site(o, 'file'),
                                  [del_span(f, vc[0]['i0'], vc[0]['i1'])], f'#tag_all {vc[0]["k"]} removed from {f.rel}',
                                  names=[x['name'] for x in f.objs] + [os.path.basename(f.rel)]))
            continue
        for o in objs:
            if not eligible(o) or not o['tagblock']:
                continue
            if o['name'] in facts.referenced or o['name'] in facts.test_subjects:
                continue
            tb = o['tagblock']
            vi = [i for i in tb['items'] if i['k'] in VERSION_KEYS]
            if len(vi) == len(tb['items']):
                e = [del_span(f, tb['i0'], tb['i1'])]
            else:
                e = [del_span(f, i['i0'], i['i1']) for i in vi]
            out.append(mk('no-version', 'strip', o, facts.site(o, 'object'), e, f'version tags of {o["name"]} removed'))
    plain = [f for f in tree.files.values() if not f.tag_all]
    for f in plain:
        o = f.objs[0]
        fam = 'login' if f.rel.split(os.sep)[2] == 'login' else 'world'
        for kind, text in (('enum', '\nenum VerifNoVersion : u8 {\n    VERIF_A = 0;\n}\n'),
                           ('struct', '\nstruct VerifNoVersion {\n    u8 verif_basic;\n}\n')):
            out.append({'rule': 'no-version', 'variant': f'new-{kind}', 'object': 'VerifNoVersion', 'file': f.rel,
                        'site': f'{fam}:new-{kind}:file-end', 'edits': [E(f, len(f.text), '', text)],
                        'desc': f'new {kind} without version tags appended to {f.rel}', 'names': ['VerifNoVersion']})
    return out


def op_both_versions(tree, facts, rng):
    out = []
    for o in containers(tree) + definers(tree):
        f = o['file']
        kv = 'login_versions = "2";' if o['fam'] == 'world' else 'versions = "1.12";'
        if o['tagblock']:
            tb = o['tagblock']
            for where, e in (('first', ins_after(f, tb['i0'], f'\n    {kv}')), ('last', ins_before(f, tb['i1'] - 1, f'    {kv}\n'))):
                out.append(mk('both-versions', f'add-{where}', o, facts.site(o, f'tag-{where}'), [e], f'{kv} added to {o["name"]}'))
        else:
            out.append(mk('both-versions', 'new-block', o, facts.site(o, 'new-block'),
                          [ins_after(f, o['body_close'], f' {{\n    {kv}\n}}')], f'tag block {{ {kv} }} added to {o["name"]}'))
    return out


def object_text(o):
    f = o['file']
    return f.text[f.toks[o['i0']].pos:f.toks[o['body_close']].end]


def op_overlap_names(tree, facts, rng):
    out = []
    plain = {'login': [], 'world': []}
    tagall = collections.defaultdict(list)
    for f in tree.files.values():
        fam = 'login' if f.rel.split(os.sep)[2] == 'login' else 'world'
        if not f.tag_all:
            plain[fam].append(f)
        elif len(f.tag_all) == 1 and f.tag_all[0][0] in ('versions', 'login_versions'):
            tagall[(fam, f.tag_all[0][1])].append(f)
    for o in containers(tree) + definers(tree):
        key = 'login_versions' if o['fam'] == 'login' else 'versions'
        choices = []
        for vs in o['vsets'][:3]:
            v = vs[0]
            choices.append(('same', fmt_v(v)))
            if o['fam'] == 'world' and v != ('*',) and len(v) < 4:
                choices.append(('more-specific', fmt_v(tuple(v) + (1,))))
        if len(o['vsets']) == 1 and len(o['vsets'][0]) > 1:
            choices.append(('all', ' '.join(fmt_v(v) for v in o['vsets'][0])))
        if o['kind'] in ('enum', 'flag'):
            # a definer uses no other type, so a copy with a *less* specific version is well-formed on its own
            v = o['vsets'][0][0]
            if o['fam'] == 'world' and v != ('*',) and len(v) > 1:
                choices.append(('less-specific', fmt_v(v[:-1])))
        for variant, vstr in choices:
            if vstr == '*':
                continue
            cands = [g for g in plain[o['fam']] if g is not o['file']]
            g = rng.choice(cands)
            text = f'\n{object_text(o)} {{\n    {key} = "{vstr}";\n}}\n'
            out.append(mk('overlap-names', variant, o, facts.site(o, 'copy-in-plain-file', variant),
                          [E(g, len(g.text), '', text)], f'copy of {o["name"]} with {key} = "{vstr}" appended to {g.rel}',
                          names=[o['name']]))
            ta = [g for g in tagall.get((o['fam'], vstr), []) if g is not o['file']]
            if ta:
                g = rng.choice(ta)
                out.append(mk('overlap-names', variant + '-into-tag_all', o, facts.site(o, 'copy-in-tag_all-file', variant),
                              [E(g, len(g.text), '', f'\n{object_text(o)}\n')],
                              f'copy of {o["name"]} appended to {g.rel} (which has #tag_all {key} "{vstr}")', names=[o['name']]))
    return out


def op_overlap_tags(tree, facts, rng):
    out = []
    for o in containers(tree) + definers(tree):
        if o['fam'] != 'world' or not o['tagblock']:
            continue
        f = o['file']
        for it in o['tagblock']['items']:
            if it['k'] != 'versions' or o['pv']:
                continue
            vs = it['v'].split()
            v = parse_wv(vs[0])
            if v == ('*',):
                continue
            for variant, extra in (('more-specific', fmt_v(tuple(v) + (1,)) if len(v) < 4 else None),
                                   ('less-specific', fmt_v(v[:-1]) if len(v) > 1 else None), ('repeated', vs[0])):
                if extra is None:
                    continue
                new = f'"{it["v"]} {extra}"' if variant != 'less-specific' else f'"{extra} {it["v"]}"'
                out.append(mk('overlap-tags', variant, o, facts.site(o, 'versions-tag', variant),
                              [rep_tok(f, it['vtok'], new)], f'versions of {o["name"]}: "{it["v"]}" -> {new}'))
    return out


def op_dup_field(tree, facts, rng):
    out = []
    for o in containers(tree):
        ux = facts.untested(o)
        if not ux[0]:
            continue
        f = o['file']
        decls = [(m, ctx) for m, ctx in walk(o['members']) if m['m'] == 'def']
        if not decls:
            continue
        for ctx, bo, mem in blocks(o):
            others = [(m, c) for m, c in decls if c != ctx] or decls
            for m, c in rng.sample(others, min(2, len(others))):
                kind = 'optional-name' if m['m'] == 'optional' else 'field-name'
                out.append(mk('dup-field', kind, o, facts.site(o, ctx_name(ctx), f'{kind}-from-{ctx_name(c)}'),
                              [ins_after(f, bo, f'\n    u8 {m["name"]};')],
                              f'new member `u8 {m["name"]};` in the {ctx_name(ctx)} block of {o["name"]} (name already declared in its {ctx_name(c)} block)', extra=ux))
    return out


def fmt_like(raw, v):
    if raw.startswith('0x'):
        return str(v)
    return hex(v)


def op_dup_value(tree, facts, rng):
    out = []
    for o in definers(tree):
        if o['kind'] != 'enum':
            continue
        f = o['file']
        fs = [x for x in o['fields'] if x['vkind'] == 'num']
        if not fs:
            continue
        for x in rng.sample(fs, min(2, len(fs))):
            v = wowm.parse_value(x['raw'])
            out.append(mk('dup-value', 'same-text', o, facts.site(o, 'after-last', 'same-text'),
                          [ins_before(f, o['body_close'], f'    VERIF_DUP = {x["raw"]};\n')], f'new enumerator VERIF_DUP = {x["raw"]} (value of {x["name"]})'))
            if v is not None and v >= 0:
                out.append(mk('dup-value', 'other-radix', o, facts.site(o, 'after-first', 'other-radix'),
                              [ins_after(f, o['fields'][0]['i1'] - 1, f'\n    VERIF_DUP = {fmt_like(x["raw"], v)};')],
                              f'new enumerator VERIF_DUP = {fmt_like(x["raw"], v)} (value of {x["name"]} = {x["raw"]})'))
    return out


def op_bad_value(tree, facts, rng):
    out = []
    for o in definers(tree):
        f = o['file']
        for x in rng.sample(o['fields'], min(2, len(o['fields']))):
            k = 'first' if x is o['fields'][0] else ('last' if x is o['fields'][-1] else 'middle')
            out.append(mk('bad-value', 'identifier', o, facts.site(o, k),
                          [rep_tok(f, x['val_tok'], 'verif_not_a_number')], f'{o["name"]}.{x["name"]} = {x["raw"]} -> verif_not_a_number'))
    return out


def op_range_value(tree, facts, rng):
    out = []
    for o in definers(tree):
        if o['ty'] not in DEFINER_BASE:
            continue
        f = o['file']
        w, signed = DEFINER_BASE[o['ty']]
        bits = 8 * w
        if signed:
            vs = [('signed-above-max', 1 << (bits - 1)), ('signed-below-min', -(1 << (bits - 1)) - 1), ('above-unsigned-max', (1 << bits) + 1)]
        else:
            vs = [('above-max', (1 << bits) + 1), ('max-plus-one', 1 << bits), ('negative', -1), ('far-above', (1 << bits) * 3 + 7)]
        for variant, v in vs:
            txt = hex(v) if v >= 0 and variant in ('above-max', 'far-above', 'above-unsigned-max') else str(v)
            out.append(mk('range-value', variant, o, facts.site(o, o['ty'], variant),
                          [ins_before(f, o['body_close'], f'    VERIF_RANGE = {txt};\n')], f'new enumerator VERIF_RANGE = {txt} in {o["kind"]} {o["name"]} : {o["ty"]}'))
    return out


def op_bad_int_type(tree, facts, rng):
    out = []
    for o in definers(tree):
        f = o['file']
        for new in ('CString', 'f32'):
            out.append(mk('bad-int-type', new, o, facts.site(o, 'base', new), [rep_tok(f, o['ty_tok'], new)], f'{o["kind"]} {o["name"]} : {o["ty"]} -> {new}'))
    return out


def op_flag_signed(tree, facts, rng):
    out = []
    for o in definers(tree):
        if o['kind'] == 'flag' and o['ty'] in ('u8', 'u16', 'u32', 'u64'):
            new = 'i' + o['ty'][1:]
            out.append(mk('flag-signed', new, o, facts.site(o, 'base', new), [rep_tok(o['file'], o['ty_tok'], new)], f'flag {o["name"]} : {o["ty"]} -> {new}'))
    return out


def op_if_vars(tree, facts, rng):
    out = []
    for o in containers(tree):
        ux = facts.untested(o)
        if not ux[0]:
            continue
        f = o['file']
        for m, ctx, ck, chain in if_sites(o):
            d = var_decl(o, m['conds'][0]['var'])
            t = member_target(tree, o, d) if d else None
            if t is None or d['array'] is not None:
                continue
            decl = ins_after(f, d['i1'] - 1, f'\n    {d["ty"]} verif_other;')
            if len(chain) > 1:
                k = rng.randrange(1, len(chain))
                out.append(mk('if-vars', f'{ck}-or', o, facts.site(o, ctx_name(ctx), f'{ck}-or'),
                              [decl, rep_tok(f, chain[k]['var_tok'], 'verif_other')],
                              f'`|| {chain[k]["var"]} {chain[k]["op"]} {chain[k]["enum"]}` tests the new variable verif_other (same type {d["ty"]}) instead', extra=ux))
            if len(chain) == 1 and chain[0]['op'] in ('==', '&'):
                c = chain[0]
                out.append(mk('if-vars', f'{ck}-added-or{c["op"]}', o, facts.site(o, ctx_name(ctx), f'{ck}-added-or{c["op"]}'),
                              [decl, ins_after(f, c['enum_tok'], f' || verif_other {c["op"]} {c["enum"]}')],
                              f'`{c["var"]} {c["op"]} {c["enum"]}` gets a second condition `|| verif_other {c["op"]} {c["enum"]}` on the new variable verif_other (same type {d["ty"]})', extra=ux))
            if ck == 'else-if':
                out.append(mk('if-vars', 'else-if-variable', o, facts.site(o, ctx_name(ctx), 'else-if-variable'),
                              [decl] + [rep_tok(f, c['var_tok'], 'verif_other') for c in chain],
                              f'else-if on {chain[0]["enum"]} tests the new variable verif_other (same type {d["ty"]}) instead of {chain[0]["var"]}', extra=ux))
    return out


def op_upcast(tree, facts, rng, want):
    out = []
    for o in containers(tree):
        ux = facts.untested(o)
        if not ux[0]:
            continue
        f = o['file']
        for m, ctx in walk(o['members']):
            if m['m'] != 'def' or m['array'] is not None or m['value'] == 'self.size':
                continue
            if model.is_builtin(m['ty']):
                if want == 'upcast-unsupported' and m['upcast'] is None:
                    cast = 'u64' if m['ty'] in ('u8', 'u16', 'u32', 'Bool') else 'u32'
                    # integers and the other built-in types are told apart by different code in the parser
                    bk = 'builtin-integer' if re.fullmatch(r'[ui](8|16|32|48|64)(_be)?', m['ty']) else f'builtin-{m["ty"]}'
                    out.append(mk('upcast-unsupported', bk, o, facts.site(o, ctx_name(ctx), f'builtin-{m["ty"]}'),
                                  [ins_before(f, m['ty_tok'], f'({cast})')], f'member {m["name"]}: {m["ty"]} -> ({cast}){m["ty"]}', extra=ux))
                continue
            t = member_target(tree, o, m)
            if t is None:
                continue
            if t['kind'] == 'struct':
                if want == 'upcast-unsupported' and m['upcast'] is None:
                    out.append(mk('upcast-unsupported', 'struct', o, facts.site(o, ctx_name(ctx), 'struct-member'),
                                  [ins_before(f, m['ty_tok'], '(u32)')], f'member {m["name"]}: {m["ty"]} (a struct) -> (u32){m["ty"]}', extra=ux))
                continue
            if t['kind'] not in ('enum', 'flag') or t['ty'] not in DEFINER_BASE:
                continue
            base = t['ty']
            w = DEFINER_BASE[base][0]
            if want == 'upcast-same':
                e = rep_tok(f, m['upcast_tok'], base) if m['upcast'] else ins_before(f, m['ty_tok'], f'({base})')
                out.append(mk('upcast-same', 'replace' if m['upcast'] else 'add', o, facts.site(o, ctx_name(ctx), f'{t["kind"]}-{"replace" if m["upcast"] else "add"}'),
                              [e], f'member {m["name"]}: {m["ty"]} (base {base}) is upcast to ({base})', extra=ux))
            elif w > 1:
                narrow = {2: 'u8', 4: 'u16', 8: 'u32'}[w]
                e = rep_tok(f, m['upcast_tok'], narrow) if m['upcast'] else ins_before(f, m['ty_tok'], f'({narrow})')
                out.append(mk('upcast-unsupported', 'narrowing', o, facts.site(o, ctx_name(ctx), f'narrowing-{t["kind"]}'),
                              [e], f'member {m["name"]}: {m["ty"]} (base {base}) is cast to the smaller ({narrow})', extra=ux))
    return out


def op_self_size(tree, facts, rng):
    out = []
    for o in containers(tree):
        if o['kind'] not in ('clogin', 'slogin'):
            continue
        ux = facts.untested(o)
        if not ux[0]:
            continue
        f = o['file']
        top = o['members']
        has = [m for m in top if m['m'] == 'def' and m['value'] == 'self.size']
        if has:
            out.append(mk('self-size', 'variable-member-before', o, facts.site(o, 'top', 'variable-member-before'),
                          [ins_after(f, o['body_open'], '\n    CString verif_s;')], f'variable-sized member CString verif_s put before the self.size field {has[0]["name"]}', extra=ux))
            continue
        if any(m['m'] == 'def' and m['value'] == 'self.size' for m, _ in walk(top)):
            continue
        if top and top[-1]['m'] == 'if':
            out.append(mk('self-size', 'after-if', o, facts.site(o, 'top', 'after-if'),
                          [ins_before(f, o['body_close'], '    u16 verif_size = self.size;\n')], 'new field `u16 verif_size = self.size;` after an if statement', extra=ux))
        if top and top[-1]['m'] == 'optional':
            continue
        if top and top[-1]['m'] == 'def' and top[-1]['array'] != '-' and any(
                m['m'] == 'def' and (m['ty'] in ('CString', 'String') or (m['array'] and not m['array'].isdigit())) for m in top):
            out.append(mk('self-size', 'after-variable-member', o, facts.site(o, 'top', 'after-variable-member'),
                          [ins_before(f, o['body_close'], '    u16 verif_size = self.size;\n')], 'new field `u16 verif_size = self.size;` after a variable-sized member', extra=ux))
        for ctx, bo, mem in blocks(o):
            if ctx:
                out.append(mk('self-size', 'inside-block', o, facts.site(o, ctx_name(ctx), 'inside-block'),
                              [ins_after(f, bo, '\n    u16 verif_size = self.size;')], f'new field `u16 verif_size = self.size;` inside the {ctx_name(ctx)} block', extra=ux))
    return out


def op_index(tree, facts, rng, want):
    out = []
    used = set()
    names = set()
    for e, _ in EXPANSIONS:
        used |= set(tree.index[e].values())
        names |= set(tree.index[e])
    free = [v for v in range(0x0600, 0x0FFF) if v not in used]
    for o in containers(tree):
        if o['kind'] not in ('smsg', 'cmsg', 'msg') or o['fam'] != 'world' or o['name'] in facts.test_subjects:
            continue
        f = o['file']
        exps = [e for e, ev in EXPANSIONS if any(any(tagcovers(t, ev) for t in vs) for vs in o['vsets'])]
        if not exps:
            continue
        suffix = ''
        base = o['name']
        for sfx in ('_Client', '_Server'):
            if base.endswith(sfx):
                base, suffix = base[:-len(sfx)], sfx
        newname = base + '_VERIF' + suffix
        ex = '+'.join(exps)
        # the two halves of a MSG_* pair share one index entry
        mkind = '@' + (o['kind'] if not suffix else 'msg' + suffix.lower().replace('_', '-'))
        if want == 'opcode-mismatch':
            v = rng.choice(free)
            out.append(mk(want, 'unused-opcode' + mkind, o, facts.site(o, ex, 'unused-opcode'), [rep_tok(f, o['opcode_tok'], f'0x{v:04X}')],
                          f'opcode of {o["name"]}: {o["opcode_raw"]} -> 0x{v:04X} (in no index)'))
            others = sorted(set(tree.index[exps[0]].values()) - {wowm.parse_value(o['opcode_raw'])})
            v = rng.choice(others)
            out.append(mk(want, 'opcode-of-another-message' + mkind, o, facts.site(o, ex, 'opcode-of-another-message'), [rep_tok(f, o['opcode_tok'], f'0x{v:04X}')],
                          f'opcode of {o["name"]}: {o["opcode_raw"]} -> 0x{v:04X} (belongs to another message)'))
        elif want == 'name-mismatch':
            out.append(mk(want, 'renamed' + mkind, o, facts.site(o, ex, 'renamed'), [rep_tok(f, o['name_tok'], newname)],
                          f'{o["name"]} renamed to {newname} (opcode {o["opcode_raw"]} unchanged)', names=[newname]))
        else:
            v = rng.choice(free)
            out.append(mk(want, 'renamed+unused-opcode' + mkind, o, facts.site(o, ex, 'renamed+unused-opcode'),
                          [rep_tok(f, o['name_tok'], newname), rep_tok(f, o['opcode_tok'], f'0x{v:04X}')],
                          f'{o["name"]} = {o["opcode_raw"]} -> {newname} = 0x{v:04X}', names=[newname]))
    return out


OPERATORS = collections.OrderedDict([
    ('unknown-type', op_unknown_type),
    ('recursive', op_recursive),
    ('missing-enumerator', op_missing_enumerator),
    ('enum-and', lambda t, f, r: op_operator(t, f, r, 'enum-and')),
    ('flag-equals', lambda t, f, r: op_operator(t, f, r, 'flag-equals')),
    ('no-version', op_no_version),
    ('both-versions', op_both_versions),
    ('overlap-names', op_overlap_names),
    ('overlap-tags', op_overlap_tags),
    ('dup-field', op_dup_field),
    ('dup-value', op_dup_value),
    ('bad-value', op_bad_value),
    ('range-value', op_range_value),
    ('bad-int-type', op_bad_int_type),
    ('flag-signed', op_flag_signed),
    ('if-vars', op_if_vars),
    ('upcast-unsupported', lambda t, f, r: op_upcast(t, f, r, 'upcast-unsupported')),
    ('upcast-same', lambda t, f, r: op_upcast(t, f, r, 'upcast-same')),
    ('self-size', op_self_size),
    ('opcode-mismatch', lambda t, f, r: op_index(t, f, r, 'opcode-mismatch')),
    ('name-mismatch', lambda t, f, r: op_index(t, f, r, 'name-mismatch')),
    ('not-in-index', lambda t, f, r: op_index(t, f, r, 'not-in-index')),
])


def classify(tree, mut):
    """-> (ok, violations, why-discarded)"""
    try:
        v = check_mutant(tree, mut['edits'])
    except (SyntaxError, ValueError) as e:
        return False, [], f'does not parse: {e}'
    rules = {r for r, *_ in v}
    if mut['rule'] == 'unknown-type':
        # an if-variable whose type no longer resolves cannot have its conditions checked: a consequence of the unknown type,
        # which is what has to be reported, not a second broken rule
        rules.discard('other:if-variable-type-unresolved')
    if rules == {mut['rule']}:
        return True, v, None
    if not rules:
        return False, v, 'reference checker sees no violation'
    return False, v, 'breaks ' + ','.join(sorted(rules))


def select(tree, facts, rule, per_rule, seed, stats=None):
    """seeded choice of `per_rule` classified mutants of one rule, round-robin over (variant, site class)"""
    rng = random.Random(f'{seed}:{rule}')
    cands = OPERATORS[rule](tree, facts, rng)
    groups = collections.defaultdict(list)
    for c in cands:
        groups[(c['variant'], c['site'])].append(c)
    keys = sorted(groups)
    rng.shuffle(keys)
    # variants first (each variant at least once), then classes
    for k in keys:
        rng.shuffle(groups[k])
    by_variant = collections.defaultdict(list)
    for k in keys:
        by_variant[k[0]].append(k)
    for v, ks in by_variant.items():
        # login sites are rare: take them in turn with world sites (1 : 2) instead of leaving them to chance
        lg = [k for k in ks if k[1].startswith('login')]
        wd = [k for k in ks if not k[1].startswith('login')]
        merged = []
        while lg or wd:
            if lg:
                merged.append(lg.pop(0))
            merged += wd[:2]
            del wd[:2]
        by_variant[v] = merged
    order = []
    vs = sorted(by_variant)
    i = 0
    while any(by_variant[v] for v in vs):
        v = vs[i % len(vs)]
        if by_variant[v]:
            order.append(by_variant[v].pop(0))
        i += 1
    chosen, discarded = [], collections.Counter()
    rounds = 0
    while len(chosen) < per_rule and any(groups[k] for k in order) and rounds < 50:
        rounds += 1
        for k in order:
            if len(chosen) >= per_rule:
                break
            tries = 0
            while groups[k] and tries < 4:
                c = groups[k].pop()
                tries += 1
                ok, viol, why = classify(tree, c)
                if ok:
                    c['ref_violations'] = [f'{r}: {n}: {d}' for r, n, _, d in viol][:4]
                    chosen.append(c)
                    break
                discarded[why.split(':')[0][:60]] += 1
    if stats is not None:
        stats[rule] = {'candidates': len(cands), 'site_classes': len(keys), 'chosen': len(chosen), 'discarded': dict(discarded)}
    return chosen
