"""Random wowm programs for C07, drawn from the language features the corpus uses, composed freely under
the static rules of lang-spec.md.  A program = one message body plus fresh helper enums / flags / structs.
Every program is labelled with the *construct classes* it contains so failures can be attributed and
classes recorded as open known findings can be kept out of the random batches (and probed separately).
"""
import random

INTS = ['u8', 'u16', 'u32', 'u64', 'i32']
SCALARS = ['u8', 'u16', 'u32', 'u64', 'i32', 'f32', 'Bool', 'Guid', 'PackedGuid', 'CString', 'DateTime', 'Spell', 'Item', 'Gold',
           'Seconds', 'Milliseconds', 'Level', 'Level32', 'Bool32']
ARRAY_ELEMS = ['u8', 'u16', 'u32', 'u64', 'Guid', 'PackedGuid', 'CString', 'Spell']


LOGIN_RANDOM_SCALARS = ['u8', 'u16', 'u32', 'u64', 'i32', 'f32', 'Bool', 'CString', 'String', 'Population', 'IpAddress']
LOGIN_RANDOM_ELEMS = ['u8']


class Prog:
    def __init__(s, prefix, rng, avoid=(), family='world'):
        s.p, s.rng, s.avoid = prefix, rng, set(avoid)
        s.family = family
        s.scalars = SCALARS if family == 'world' else LOGIN_RANDOM_SCALARS
        s.elems = ARRAY_ELEMS if family == 'world' else LOGIN_RANDOM_ELEMS
        s.helpers = []      # wowm text of helper definers/structs
        s.classes = set()
        s.n = 0
        s.names = set()
        s.allnames = set()
        s.branch_depth = 0
        s.branch_kinds = []

    def fresh(s, base):
        """letters only: the Wireshark printer cuts type names at the first digit when it builds its registry"""
        s.n += 1
        n, out = s.n, ''
        while True:
            out = 'abcdefghijklmnopqrstuvwxyz'[n % 26] + out
            n //= 26
            if n == 0:
                break
        return f'{base}{out.capitalize()}'

    def field(s, base='f'):
        """letter-only, type-qualified names: the Wireshark printer keys its field registry on the name with
        trailing digits stripped and requires one type per key (see probe field-names-trailing-digits)"""
        base = ''.join(ch for ch in base.lower() if ch.isalpha() or ch == '_')
        while True:
            n = f'{base}_' + ''.join(s.rng.choice('abcdefghijklmnopqrstuvwxyz') for _ in range(5))
            if n not in s.names and n not in s.allnames:
                s.names.add(n)
                s.allnames.add(n)
                return n

    # -- helpers --------------------------------------------------------------------------------
    def new_enum(s, signed_ok=True):
        r = s.rng
        name = f'{s.p}En{s.fresh("")}'
        base = r.choice(['u8', 'u8', 'u16', 'u32'] + (['i32'] if signed_ok and 'signed-enum' not in s.avoid else []))
        n = r.randint(2, 6)
        vals = set()
        hi = {'u8': 255, 'u16': 65535, 'u32': 0xFFFFFFFF, 'i32': 0x7FFFFFFF}[base]
        while len(vals) < n:
            vals.add(r.choice([r.randint(0, min(hi, 40)), r.randint(0, hi)]))
        if base == 'i32' and r.random() < 0.7:
            vals.add(-r.randint(1, 1000))
            s.classes.add('signed-enum')
        vals = sorted(vals)
        fmt = r.choice(['dec', 'hex', 'mixed'])
        lines = []
        enumerators = []
        for i, v in enumerate(vals):
            en = f'V{i}_{abs(v) % 1000}'
            enumerators.append(en)
            if v < 0 or fmt == 'dec' or (fmt == 'mixed' and i % 2):
                lit = str(v)
            else:
                lit = hex(v)
            if fmt == 'mixed' and v >= 0 and v < 256 and i % 3 == 2:
                lit = bin(v)
                s.classes.add('binary-literal')
            lines.append(f'    {en} = {lit};')
        s.helpers.append((name, f'enum {name} : {base} {{\n' + '\n'.join(lines) + '\n}'))
        return name, base, enumerators

    def new_flag(s):
        r = s.rng
        name = f'{s.p}Fl{s.fresh("")}'
        base = r.choice(['u8', 'u16', 'u32'])
        width = {'u8': 8, 'u16': 16, 'u32': 32}[base]
        nbits = r.randint(2, min(6, width))
        bits = sorted(r.sample(range(width), nbits))
        lines = ['    NONE = 0x00;']
        enumerators = []
        for b in bits:
            en = f'B{b}'
            enumerators.append(en)
            lines.append(f'    {en} = {hex(1 << b)};')
        s.helpers.append((name, f'flag {name} : {base} {{\n' + '\n'.join(lines) + '\n}'))
        return name, base, enumerators

    def new_struct(s, depth):
        name = f'{s.p}St{s.fresh("")}'
        saved = s.names, s.branch_depth, s.branch_kinds
        s.names, s.branch_depth, s.branch_kinds = set(), 0, []
        body = s.members(depth + 1, in_struct=True, budget=s.rng.randint(1, 4))
        s.names, s.branch_depth, s.branch_kinds = saved
        s.helpers.append((name, f'struct {name} {{\n' + body + '\n}'))
        return name

    # -- members --------------------------------------------------------------------------------
    def scalar(s, indent):
        r = s.rng
        ty = r.choice(s.scalars)
        if ty == 'IpAddress' and 'enum' in s.branch_kinds:
            # Ipv4Addr has no Default: a known class when the enclosing if has an else-if / else (emitted as a Rust enum)
            if 'ipaddress-in-enum-elif-else' in s.avoid:
                ty = 'u32'
            else:
                s.classes.add('ipaddress-in-enum-elif-else')
        n = s.field('v' + ty)
        in_enum_branch = bool(s.branch_kinds) and s.branch_kinds[-1] == 'enum'
        if ty in INTS and r.random() < 0.08 and not (in_enum_branch and 'constant-member-in-enum-branch' in s.avoid):
            s.classes.add('constant-member')
            if in_enum_branch:
                s.classes.add('constant-member-in-enum-branch')
            return f'{indent}{ty} {n} = {r.choice([0, 1, 7])};'
        return f'{indent}{ty} {n};'

    def array(s, indent, depth, allow_endless, after_conditional):
        r = s.rng
        kind = r.choice(['fixed', 'var', 'var', 'endless' if allow_endless else 'var'])
        is_struct = False
        if r.random() < 0.3 and depth < 2:
            elem = s.new_struct(depth)
            is_struct = True
            s.classes.add('array-of-struct')
            if kind == 'fixed' and 'fixed-array-of-struct' in s.avoid:
                kind = 'var'
            elif kind == 'fixed':
                s.classes.add('fixed-array-of-struct')
        else:
            elem = r.choice(s.elems)
        n = s.field('arr' + elem)
        if kind == 'fixed' and elem in ('Guid', 'PackedGuid', 'Spell') and s.branch_depth >= 1 and 'fixed-guid-array-in-branch' in s.avoid:
            elem = 'u64'
        if kind == 'fixed':
            s.classes.add('fixed-array')
            if s.branch_depth >= 1 and elem in ('Guid', 'PackedGuid', 'Spell'):
                s.classes.add('fixed-guid-array-in-branch')
            if elem == 'CString':
                elem = 'u32'
            return f'{indent}{elem}[{r.randint(1, 5)}] {n};', False
        if kind == 'var':
            cty = r.choice(['u8', 'u8', 'u16', 'u32'])
            cnt = s.field('amount' + cty + '_of')
            s.classes.add('variable-array')
            return f'{indent}{cty} {cnt};\n{indent}{elem}[{cnt}] {n};', False
        s.classes.add('endless-array')
        if after_conditional:
            s.classes.add('endless-array-after-conditional')
        return f'{indent}{elem}[-] {n};', True

    def members(s, depth, in_struct=False, budget=None, top=False):
        r = s.rng
        indent = '    ' * (1 if depth == 0 or in_struct and depth == 1 else 1)
        indent = '    '
        out = []
        budget = budget if budget is not None else r.randint(2, 7)
        seen_conditional = False
        ended = False
        enum_vars_in_scope = []
        for i in range(budget):
            last = i == budget - 1
            x = r.random()
            if x < 0.45:
                out.append(s.scalar(indent))
            elif x < 0.6:
                if seen_conditional and 'endless-array-after-conditional' in s.avoid:
                    allow_endless = False
                else:
                    allow_endless = last and top and s.family == 'world'
                txt, ended = s.array(indent, depth, allow_endless, seen_conditional)
                out.append(txt)
            elif x < 0.7 and depth < 2:
                st = s.new_struct(depth)
                s.classes.add('struct-member')
                out.append(f'{indent}{st} {s.field("st" + st)};')
            elif x < 0.85 and depth < 2 and not (getattr(s, 'in_optional', False) and 'conditional-inside-optional' in s.avoid):
                txt = s.enum_if(indent, depth)
                if txt:
                    out.append(txt)
                    seen_conditional = True
            elif depth < 2 and not (getattr(s, 'in_optional', False) and 'conditional-inside-optional' in s.avoid):
                txt = s.flag_if(indent, depth)
                if txt:
                    out.append(txt)
                    seen_conditional = True
            else:
                out.append(s.scalar(indent))
            if ended:
                break
        if top and s.family == 'world' and not ended and r.random() < 0.2 and not (seen_conditional and 'optional-after-conditional' in s.avoid):
            s.classes.add('optional')
            if seen_conditional:
                s.classes.add('optional-after-conditional')
            s.in_optional = True
            s.branch_depth += 1
            inner = '\n'.join('    ' + l for l in (s.members(depth + 1, budget=r.randint(1, 3)) or s.scalar('    ')).split('\n'))
            s.branch_depth -= 1
            s.in_optional = False
            if 'if (' in inner:
                s.classes.add('conditional-inside-optional')
            out.append(f'{indent}optional {s.field("opt")} {{\n{inner}\n{indent}}}')
        return '\n'.join(out)

    def block(s, depth, budget=None, kind='enum'):
        s.branch_kinds.append(kind)
        s.branch_depth += 1
        body = s.members(depth + 1, budget=budget if budget is not None else s.rng.randint(1, 3))
        if not body.strip():
            body = s.scalar('    ')
        s.branch_depth -= 1
        s.branch_kinds.pop()
        return '\n'.join('    ' + l for l in body.split('\n'))

    def enum_if(s, indent, depth):
        r = s.rng
        if 'two-ifvars-of-one-enum-type' in s.avoid and getattr(s, '_enum_if_used_at', {}).get(depth):
            pass
        name, base, ens = s.new_enum()
        var = s.field('e' + name)
        upcast = ''
        if r.random() < 0.25:
            wider = {'u8': ['u16', 'u32'], 'u16': ['u32'], 'u32': ['u64'], 'i32': []}[base]
            if wider:
                upcast = f'({r.choice(wider)})'
                s.classes.add('upcast-enum')
        decl = f'{indent}{upcast}{name} {var};'
        form = r.choice(['eq', 'eq-or', 'eq-elif', 'eq-else', 'neq', 'neq-else', 'eq-elif-else'])
        s.classes.add('enum-if:' + form)
        if s.branch_depth >= 1:
            s.classes.add('nested-if')
        e = list(ens)
        r.shuffle(e)
        if form == 'eq':
            cond = f'{var} == {e[0]}'
            txt = f'{indent}if ({cond}) {{\n{s.block(depth)}\n{indent}}}'
        elif form == 'eq-or':
            cond = f'{var} == {e[0]}\n{indent}    || {var} == {e[1]}'
            txt = f'{indent}if ({cond}) {{\n{s.block(depth)}\n{indent}}}'
        elif form in ('eq-elif', 'eq-elif-else'):
            txt = f'{indent}if ({var} == {e[0]}) {{\n{s.block(depth)}\n{indent}}}\n{indent}else if ({var} == {e[1]}) {{\n{s.block(depth)}\n{indent}}}'
            if form == 'eq-elif-else' and len(e) > 2:
                txt += f'\n{indent}else {{\n{s.block(depth)}\n{indent}}}'
        elif form == 'eq-else':
            txt = f'{indent}if ({var} == {e[0]}) {{\n{s.block(depth)}\n{indent}}} else {{\n{s.block(depth)}\n{indent}}}'
        elif form == 'neq':
            txt = f'{indent}if ({var} != {e[0]}) {{\n{s.block(depth)}\n{indent}}}'
        else:
            txt = f'{indent}if ({var} != {e[0]}) {{\n{s.block(depth)}\n{indent}}} else {{\n{s.block(depth)}\n{indent}}}'
        return decl + '\n' + txt

    def flag_if(s, indent, depth):
        r = s.rng
        if s.branch_depth >= 1 and 'flag-ifvar-declared-in-branch' in s.avoid:
            return None
        name, base, ens = s.new_flag()
        var = s.field('fl' + name)
        decl = f'{indent}{name} {var};'
        if s.branch_depth >= 1:
            s.classes.add('flag-ifvar-declared-in-branch')
        forms = ['and', 'and-and']
        if 'flag-elseif' not in s.avoid:
            forms.append('and-elif')
        form = r.choice(forms)
        s.classes.add('flag-if:' + form)
        e = list(ens)
        r.shuffle(e)

        def blk():
            # constant-size members only unless nested conditionals in flag branches are allowed
            if 'conditional-inside-flag-branch' in s.avoid:
                return '\n'.join('    ' + s.scalar(indent) for _ in range(r.randint(1, 2)))
            t = s.block(depth, kind='flag')
            if 'if (' in t:
                s.classes.add('conditional-inside-flag-branch')
            return t
        if form == 'and':
            txt = f'{indent}if ({var} & {e[0]}) {{\n{blk()}\n{indent}}}'
        elif form == 'and-and':
            txt = f'{indent}if ({var} & {e[0]}) {{\n{blk()}\n{indent}}}\n{indent}if ({var} & {e[1]}) {{\n{blk()}\n{indent}}}'
        else:
            s.classes.add('flag-elseif')
            txt = f'{indent}if ({var} & {e[0]}) {{\n{blk()}\n{indent}}}\n{indent}else if ({var} & {e[1]}) {{\n{blk()}\n{indent}}}'
        return decl + '\n' + txt


def make_program(prefix, seed, avoid=(), family='world'):
    """-> dict(body=str, helpers=[(name, text)], classes=set)"""
    rng = random.Random(seed)
    p = Prog(prefix, rng, avoid, family)
    body = p.members(0, top=True)
    return {'body': body, 'helpers': p.helpers, 'classes': sorted(p.classes)}


# dedicated probes for construct classes recorded as open known findings: small hand-written programs, one class each
PROBES = {
    'fixed-array-of-struct': lambda p: {
        'body': f'    {p}Sta[2] arrst;\n    u8 xbyte;',
        'helpers': [(f'{p}Ena', f'enum {p}Ena : u8 {{\n    A = 0;\n    B = 1;\n}}'), (f'{p}Sta', f'struct {p}Sta {{\n    {p}Ena eone;\n    if (eone == A) {{\n        u32 xint;\n    }}\n    u8 xbyteb;\n}}')]},
    'constant-member-in-enum-branch': lambda p: {
        'body': f'    {p}Ena eone;\n    if (eone == A) {{\n        u32 xconst = 7;\n    }}\n    Spell vspell;\n    u8 xbyte;',
        'helpers': [(f'{p}Ena', f'enum {p}Ena : u8 {{\n    A = 0;\n    B = 1;\n}}')]},
    'fixed-guid-array-in-branch': lambda p: {
        'body': f'    {p}Ena eone;\n    if (eone == A) {{\n        Guid[3] arrguid;\n    }}\n    u8 xbyte;',
        'helpers': [(f'{p}Ena', f'enum {p}Ena : u8 {{\n    A = 0;\n    B = 1;\n}}')]},
    'conditional-inside-optional': lambda p: {
        'body': f'    u8 xbyte;\n    optional optone {{\n        {p}Ena eone;\n        if (eone == A) {{\n            u32 xint;\n        }}\n    }}',
        'helpers': [(f'{p}Ena', f'enum {p}Ena : u8 {{\n    A = 0;\n    B = 1;\n}}')]},
    'fixed-noncopy-array-in-enum-elif-else': lambda p: {
        'body': f'    {p}Ena eone;\n    if (eone == A) {{\n        CString[3] arrcstring;\n    }}\n    else if (eone == B) {{\n        u16 xshort;\n    }}\n    else {{\n        u32 xint;\n    }}\n    u8 xbyte;',
        'helpers': [(f'{p}Ena', f'enum {p}Ena : u8 {{\n    A = 0;\n    B = 1;\n    C = 2;\n}}')]},
    'ipaddress-in-enum-elif-else': lambda p: {
        'family': 'login',
        'body': f'    {p}Ena eone;\n    if (eone == A) {{\n        IpAddress vipaddress;\n    }}\n    else if (eone == B) {{\n        u16 xshort;\n    }}\n    else {{\n        u32 xint;\n    }}\n    u8 xbyte;',
        'helpers': [(f'{p}Ena', f'enum {p}Ena : u8 {{\n    A = 0;\n    B = 1;\n    C = 2;\n}}')]},
    'self-size-in-constant-sized-container': lambda p: {
        'body': '    u32 vsize = self.size;\n    u32 xint;\n    u8 xbyte;', 'helpers': []},
    'field-names-trailing-digits': lambda p: {
        'body': '    u32 item1;\n    f32 item2;', 'helpers': []},
    'flag-ifvar-declared-in-branch': lambda p: {
        'body': f'    {p}Ena eone;\n    if (eone == A) {{\n        {p}Fla flone;\n        if (flone & B0) {{\n            u8 xbyte;\n        }}\n    }}',
        'helpers': [(f'{p}Ena', f'enum {p}Ena : u8 {{\n    A = 0;\n    B = 1;\n}}'), (f'{p}Fla', f'flag {p}Fla : u8 {{\n    NONE = 0x00;\n    B0 = 0x01;\n    B1 = 0x02;\n}}')]},
    'two-ifvars-of-one-enum-type': lambda p: {
        'body': f'    {p}Ena eone;\n    if (eone == A) {{\n        u8 xbyte;\n    }}\n    {p}Ena etwo;\n    if (etwo == B) {{\n        u16 xshort;\n    }}',
        'helpers': [(f'{p}Ena', f'enum {p}Ena : u8 {{\n    A = 0;\n    B = 1;\n}}')]},
    'optional-after-conditional': lambda p: {
        'body': f'    {p}Ena eone;\n    if (eone == A) {{\n        u8 xbyte;\n    }}\n    optional optone {{\n        u32 xint;\n    }}',
        'helpers': [(f'{p}Ena', f'enum {p}Ena : u8 {{\n    A = 0;\n    B = 1;\n}}')]},
    'endless-array-after-conditional': lambda p: {
        'body': f'    {p}Ena eone;\n    if (eone == A) {{\n        u32 xintb;\n    }}\n    u8[-] restbytes;',
        'helpers': [(f'{p}Ena', f'enum {p}Ena : u8 {{\n    A = 0;\n    B = 1;\n}}')]},
    'flag-elseif': lambda p: {
        'body': f'    {p}Fla flone;\n    if (flone & B0) {{\n        u8 xbyte;\n    }}\n    else if (flone & B1) {{\n        u16 xshort;\n    }}\n    u8 xbyteb;',
        'helpers': [(f'{p}Fla', f'flag {p}Fla : u8 {{\n    NONE = 0x00;\n    B0 = 0x01;\n    B1 = 0x02;\n}}')]},
    'conditional-inside-flag-branch': lambda p: {
        'body': f'    {p}Fla flone;\n    if (flone & B0) {{\n        {p}Ena eone;\n        if (eone == A) {{\n            u32 xintb;\n        }}\n    }}\n    u8 xbyteb;',
        'helpers': [(f'{p}Ena', f'enum {p}Ena : u8 {{\n    A = 0;\n    B = 1;\n}}'), (f'{p}Fla', f'flag {p}Fla : u8 {{\n    NONE = 0x00;\n    B0 = 0x01;\n    B1 = 0x02;\n}}')]},
}


def systematic_programs(prefix_of):
    """Deterministic small programs crossing branch contents of different size classes (constant small, constant large,
    string, counted array, packed guid): every ordered pair as if/else on an enum, some if/else-if/else triples, and pairs
    of independent flag ifs.  prefix_of(i) -> type-name prefix for program i."""
    kinds = [('u8', lambda p: f'        u8 {p.field("vu")};'),
             ('u32', lambda p: f'        u32 {p.field("vu")};'),
             ('wide', lambda p: f'        u64 {p.field("vu")};\n        u64 {p.field("vu")};\n        Guid {p.field("vguid")};'),
             ('cstring', lambda p: f'        CString {p.field("vcstring")};'),
             ('array', lambda p: (lambda c: f'        u8 {c};\n        u16[{c}] {p.field("arru")};')(p.field("amountu_of"))),
             ('packed', lambda p: f'        PackedGuid {p.field("vpackedguid")};')]
    out = []
    i = 0

    def mk(body_fn, classes):
        nonlocal i
        p = Prog(prefix_of(i), random.Random(f'sys{i}'))
        body = body_fn(p)
        out.append({'body': body, 'helpers': p.helpers, 'classes': sorted(set(classes)), 'systematic': True})
        i += 1
    for (na, fa) in kinds:
        for (nb, fb) in kinds:
            if na == nb:
                continue

            def body(p, fa=fa, fb=fb):
                name, base, ens = p.new_enum(signed_ok=False)
                var = p.field('e' + name)
                return (f'    {name} {var};\n    if ({var} == {ens[0]}) {{\n{fa(p)}\n    }} else {{\n{fb(p)}\n    }}\n    u8 {p.field("vu")};')
            mk(body, [f'sys:if-else:{na}/{nb}'])
    for (na, fa), (nb, fb), (nc, fc) in [(kinds[0], kinds[3], kinds[2]), (kinds[3], kinds[0], kinds[4]), (kinds[2], kinds[5], kinds[3]),
                                         (kinds[4], kinds[1], kinds[0]), (kinds[1], kinds[2], kinds[3]), (kinds[5], kinds[3], kinds[1])]:
        def body(p, fa=fa, fb=fb, fc=fc):
            name, base, ens = p.new_enum(signed_ok=False)
            while len(ens) < 3:
                name, base, ens = p.new_enum(signed_ok=False)
            var = p.field('e' + name)
            return (f'    {name} {var};\n    if ({var} == {ens[0]}) {{\n{fa(p)}\n    }}\n    else if ({var} == {ens[1]}) {{\n{fb(p)}\n    }}\n    else {{\n{fc(p)}\n    }}\n    u8 {p.field("vu")};')
        mk(body, [f'sys:if-elif-else:{na}/{nb}/{nc}'])
    for (na, fa), (nb, fb) in [(kinds[0], kinds[3]), (kinds[3], kinds[4]), (kinds[2], kinds[5]), (kinds[4], kinds[0]), (kinds[5], kinds[1]), (kinds[1], kinds[2])]:
        def body(p, fa=fa, fb=fb):
            name, base, ens = p.new_flag()
            var = p.field('fl' + name)
            return (f'    {name} {var};\n    if ({var} & {ens[0]}) {{\n{fa(p)}\n    }}\n    if ({var} & {ens[1]}) {{\n{fb(p)}\n    }}\n    u8 {p.field("vu")};')
        mk(body, [f'sys:flag-if-if:{na}/{nb}'])
    return out


# ---------------------------------------------------------------------------------------------
# type x position matrix: every member type the corpus uses in every position class

MATRIX_SCALARS = ['u8', 'u16', 'u32', 'u64', 'i32', 'f32', 'Bool', 'Bool32', 'Guid', 'PackedGuid', 'CString', 'SizedCString',
                  'DateTime', 'Spell', 'Spell16', 'Item', 'Gold', 'Seconds', 'Milliseconds', 'Level', 'Level16', 'Level32',
                  'enum', 'upcast-enum', 'flag', 'const', 'struct-fixed', 'struct-var']
MATRIX_ARRAYS = [(k, e) for e in ('u8', 'u16', 'u32', 'u64', 'Guid', 'PackedGuid', 'CString', 'Spell', 'struct-fixed', 'struct-var')
                 for k in ('fixed', 'var8', 'var32', 'endless')]
MATRIX_CONTEXTS = ['top', 'enum-if', 'enum-neq', 'enum-elif-else', 'flag-if', 'struct-in-array', 'struct-member', 'optional', 'self-size-top', 'self-size-struct', 'self-size-after-const']
LOGIN_SCALARS = ['u8', 'u16', 'u32', 'u64', 'i32', 'f32', 'Bool', 'CString', 'String', 'Population', 'IpAddress', 'enum', 'upcast-enum', 'flag', 'const', 'struct-fixed', 'struct-var']
LOGIN_ARRAYS = [(k, e) for e in ('u8', 'struct-fixed', 'struct-var') for k in ('fixed', 'var8', 'var16', 'var32')]
LOGIN_CONTEXTS = ['top', 'enum-if', 'enum-neq', 'enum-elif-else', 'flag-if', 'struct-in-array', 'self-size-top', 'self-size-struct', 'self-size-after-const']


ENUM_CTX = ('enum-if', 'enum-neq', 'enum-elif-else')
# (position, member type) pairs that fall into a construct class recorded as an open known finding: left out of the matrix
# while that class is open (each class has its own probe program)
MATRIX_KNOWN = {**{(c, 'const'): 'constant-member-in-enum-branch' for c in ENUM_CTX},
                **{(c, f'{e}[fixed]'): 'fixed-guid-array-in-branch' for c in ENUM_CTX for e in ('Guid', 'PackedGuid', 'Spell')},
                ('enum-elif-else', 'IpAddress'): 'ipaddress-in-enum-elif-else',
                ('enum-elif-else', 'CString[fixed]'): 'fixed-noncopy-array-in-enum-elif-else',
                ('enum-elif-else', 'struct-var[fixed]'): 'fixed-noncopy-array-in-enum-elif-else'}


def _struct(p, variable):
    name = f'{p.p}St{p.fresh("")}'
    saved = p.names
    p.names = set()
    body = f'    u16 {p.field("vu")};\n    u8 {p.field("vu")};'
    if variable:
        body += f'\n    CString {p.field("vcstring")};'
    p.names = saved
    p.helpers.append((name, f'struct {name} {{\n{body}\n}}'))
    return name


def _member(p, ty):
    """-> wowm lines (4-space indented) declaring one member of matrix type `ty`"""
    if ty == 'enum':
        name, base, ens = p.new_enum(signed_ok=False)
        return f'    {name} {p.field("e" + name)};'
    if ty == 'upcast-enum':
        while True:
            name, base, ens = p.new_enum(signed_ok=False)
            if base in ('u8', 'u16'):
                break
        return f'    (u32){name} {p.field("e" + name)};'
    if ty == 'flag':
        name, base, ens = p.new_flag()
        return f'    {name} {p.field("fl" + name)};'
    if ty == 'const':
        return f'    u16 {p.field("vconst")} = 7;'
    if ty in ('struct-fixed', 'struct-var'):
        st = _struct(p, ty == 'struct-var')
        return f'    {st} {p.field("st" + st)};'
    return f'    {ty} {p.field("v" + ty)};'


def _array(p, kind, elem):
    if elem in ('struct-fixed', 'struct-var'):
        elem = _struct(p, elem == 'struct-var')
    n = p.field('arr' + elem)
    if kind == 'fixed':
        return f'    {elem}[3] {n};'
    if kind == 'endless':
        return f'    {elem}[-] {n};'
    cty = {'var8': 'u8', 'var16': 'u16', 'var32': 'u32'}[kind]
    cnt = p.field('amount' + cty + '_of')
    return f'    {cty} {cnt};\n    {elem}[{cnt}] {n};'


def _ind(txt, n=1):
    return '\n'.join('    ' * n + l for l in txt.split('\n'))


def _wrap(p, ctx, members, tail=True):
    """members: list of member texts (each 4-space indented, maybe several lines) -> message body"""
    t = f'\n    u8 {p.field("vtail")};' if tail else ''
    if ctx == 'top':
        return '\n'.join(members) + t
    if ctx in ('enum-if', 'enum-neq'):
        name, base, ens = p.new_enum(signed_ok=False)
        var = p.field('e' + name)
        op = '==' if ctx == 'enum-if' else '!='
        return f'    {name} {var};\n    if ({var} {op} {ens[0]}) {{\n{_ind(chr(10).join(members))}\n    }}{t}'
    if ctx == 'enum-elif-else':
        while True:
            name, base, ens = p.new_enum(signed_ok=False)
            if len(ens) >= 3:
                break
        var = p.field('e' + name)
        a = members[0::3] or [f'    u8 {p.field("vu")};']
        b = members[1::3] or [f'    u16 {p.field("vu")};']
        c = members[2::3] or [f'    u32 {p.field("vu")};']
        return (f'    {name} {var};\n    if ({var} == {ens[0]}) {{\n{_ind(chr(10).join(a))}\n    }}\n    else if ({var} == {ens[1]}) {{\n{_ind(chr(10).join(b))}\n    }}\n'
                f'    else {{\n{_ind(chr(10).join(c))}\n    }}{t}')
    if ctx == 'flag-if':
        name, base, ens = p.new_flag()
        var = p.field('fl' + name)
        return f'    {name} {var};\n    if ({var} & {ens[0]}) {{\n{_ind(chr(10).join(members))}\n    }}{t}'
    if ctx in ('struct-in-array', 'struct-member'):
        name = f'{p.p}St{p.fresh("")}'
        p.helpers.append((name, f'struct {name} {{\n' + '\n'.join(members) + '\n}'))
        if ctx == 'struct-member':
            return f'    {name} {p.field("st" + name)};{t}'
        cnt = p.field('amountu_of')
        return f'    u8 {cnt};\n    {name}[{cnt}] {p.field("arr" + name)};{t}'
    if ctx in ('self-size-top', 'self-size-struct', 'self-size-after-const') and 'self-size-in-constant-sized-container' in p.avoid:
        # a container whose size is a constant gets no size() method, which the self.size writer calls (known class, own probe):
        # keep these containers variable-sized
        members = members + [f'    CString {p.field("vcstring")};']
    if ctx == 'self-size-top':
        return f'    {p.rng.choice(["u16", "u32"])} {p.field("vsize")} = self.size;\n' + '\n'.join(members) + t
    if ctx == 'self-size-after-const':
        # members in front of the size field, one of them constant-valued: the size counts what follows the size field only
        return (f'    u8 {p.field("vmarker")} = 42;\n    u16 {p.field("vu")};\n    {p.rng.choice(["u16", "u32"])} {p.field("vsize")} = self.size;\n'
                + '\n'.join(members) + t)
    if ctx == 'self-size-struct':
        name = f'{p.p}St{p.fresh("")}'
        p.helpers.append((name, f'struct {name} {{\n    {p.rng.choice(["u8", "u16", "u32"])} {p.field("vsize")} = self.size;\n' + '\n'.join(members) + '\n}'))
        cnt = p.field('amountu_of')
        return f'    u8 {cnt};\n    {name}[{cnt}] {p.field("arr" + name)};{t}'
    if ctx == 'optional':
        return f'    u32 {p.field("vu")};\n    optional {p.field("opt")} {{\n{_ind(chr(10).join(members))}\n    }}'
    raise ValueError(ctx)


def matrix_programs(prefix_of, family='world', chunk=4, avoid=()):
    """One program per (position class, chunk of member types): every type x position pair of the corpus' feature subset.
    A pair that is an open known class is left out (`skip(ctx, ty)`)."""
    scal, arrs, ctxs = (MATRIX_SCALARS, MATRIX_ARRAYS, MATRIX_CONTEXTS) if family == 'world' else (LOGIN_SCALARS, LOGIN_ARRAYS, LOGIN_CONTEXTS)
    out = []
    i = 0

    def mk(ctx, items, label):
        nonlocal i
        items = [it for it in items if MATRIX_KNOWN.get((ctx, it if isinstance(it, str) else f'{it[1]}[{it[0]}]')) not in avoid or not avoid]
        if not items:
            return
        p = Prog(prefix_of(i), random.Random(f'mx{family}{i}'), avoid=avoid, family=family)
        members = []
        for it in items:
            members.append(_member(p, it) if isinstance(it, str) else _array(p, *it))
        endless = any(not isinstance(it, str) and it[0] == 'endless' for it in items)
        body = _wrap(p, ctx, members, tail=not endless)
        names = [it if isinstance(it, str) else f'{it[1]}[{it[0]}]' for it in items]
        out.append({'body': body, 'helpers': p.helpers, 'classes': [f'mx:{ctx}:{n}' for n in names], 'systematic': True, 'matrix': (ctx, names)})
        i += 1
    for ctx in ctxs:
        bounded = [t for t in scal if t != 'SizedCString']      # its u32 length makes the maximum saturate (see the arrays below)
        for k in range(0, len(bounded), chunk):
            mk(ctx, bounded[k:k + chunk], 'scalars')
        if 'SizedCString' in scal:
            mk(ctx, ['SizedCString', 'u8'], 'scalars')
        # arrays whose size is bounded (fixed, u8 / u16 counted) apart from the u32-counted ones: a container's bounds are sums, and the
        # saturated maximum of one unbounded member would hide a wrong bound of its neighbours
        for group in ([a for a in arrs if a[0] in ('fixed', 'var8', 'var16')], [a for a in arrs if a[0] == 'var32']):
            for k in range(0, len(group), chunk):
                mk(ctx, group[k:k + chunk], 'arrays')
    for a in arrs:
        if a[0] == 'endless':
            mk('top', ['u8', a], 'endless')
    return out
