"""Exact extremal encoded lengths of a container over its whole conditional structure.

Interval evaluation, not sampling: if-variables are enumerated over their equivalence classes
(enum: every enumerator; flag: every subset of the bits that conditions mention), so correlated
if statements on one variable are handled exactly.  Leaf bounds come from the type documents.
"""
import math
from . import model, codec
from .codec import definer_values, definer_base, walk_defs, walk_ifs, info, member_compressed
from .model import INT_TYPES, ALIASES

INF = math.inf
CSTRING_MAX = 256          # 255 bytes + NUL (canonical limit, DESIGN.md 2.1)
SIZED_CSTRING_MAX = 4 + 8000


class Approx(Exception):
    pass


def leaf_extent(cdc, c, m):
    """(min, max) of one scalar (non-array) member"""
    ty = m['ty']
    aty = ALIASES.get(ty, ty)
    if m['upcast']:
        w = INT_TYPES[m['upcast']][0]
        return w, w
    if aty in INT_TYPES:
        return INT_TYPES[aty][0], INT_TYPES[aty][0]
    v = cdc.env.version
    if ty == 'Bool':
        return 1, 1
    if ty in ('Bool32', 'f32', 'Population', 'DateTime'):
        return 4, 4
    if ty in ('CString', 'String'):
        mx = CSTRING_MAX
        for k, val in m['tags']:
            if k == 'maximum_length':
                mx = min(mx, int(val) + 1)
        return 1, mx
    if ty == 'SizedCString':
        return 5, SIZED_CSTRING_MAX
    if ty == 'PackedGuid':
        return 1, 9
    if ty == 'NamedGuid':
        return 8, 8 + CSTRING_MAX
    if ty == 'VariableItemRandomProperty':
        return 4, 8
    if ty == 'CacheMask':
        return 4, 4 + 32 * 4
    if ty == 'EnchantMask':
        return 2, 2 + 16 * 2
    if ty == 'AuraMask':
        if v == 'vanilla':
            return 4, 4 + 32 * 2
        a = extent(cdc, cdc.lookup('Aura'))
        return 8, 8 + 64 * a[1]
    if ty == 'InspectTalentGearMask':
        g = extent(cdc, cdc.lookup('InspectTalentGear'))
        return 4, 4 + 32 * g[1]
    if ty == 'UpdateMask':
        return 1, 1 + 255 * 4 + 255 * 32 * 4
    if ty == 'MonsterMoveSplines':
        return 4, INF
    if ty in ('AchievementDoneArray', 'AchievementInProgressArray'):
        return 4, INF
    if ty == 'AddonArray':
        return 0, INF
    o = cdc.lookup(ty)
    if o.kind in ('enum', 'flag'):
        w = definer_base(o)[0]
        return w, w
    if o.kind == 'struct':
        return extent(cdc, o)
    raise codec.RefError(f'{c.name}.{m["name"]}: {ty}')


_cache = {}


def extent(cdc, c):
    """-> (min, max) of the encoded body of container c (max may be inf)."""
    k = (cdc.env.key, c.name)
    if k in _cache:
        return _cache[k]
    inf = info(c)
    # value classes per if-variable
    classes = {}
    independent = {}
    for var in inf.ifvars:
        dv = cdc.definer_of_var(c, var)
        table = definer_values(dv)
        byname = {n: uv for (n, uv, _) in table}
        if dv.kind == 'enum':
            classes[var] = sorted({uv for (_, uv, _) in table})
        else:
            # bits used by exactly one plain `if` (no else-if / else, single condition) are independent
            # of everything else: that statement contributes [0, max] on its own and needs no enumeration
            uses = {}
            for st in walk_ifs(c.raw['members']):
                for conds in [st['conds']] + [e['conds'] for e in st['elifs']]:
                    for (v, op, e) in conds:
                        if v == var:
                            uses.setdefault(byname[e], []).append(st)
            bits = []
            for b, sts in uses.items():
                st = sts[0]
                simple = len(sts) == 1 and not st['elifs'] and not st['else'] and len(st['conds']) == 1
                if b and simple:
                    independent[(var, id(st))] = True
                elif b:
                    bits.append(b)
            bits = sorted(set(bits))
            if len(bits) > 14:
                raise Approx(f'{c.name}.{var}: {len(bits)} relevant bits')
            vals = [0]
            for b in bits:
                vals += [x | b for x in vals]
            classes[var] = sorted(set(vals))

    def walk(seq, choices):
        lo, hi = 0, 0
        for i, m in enumerate(seq):
            kind = m['m']
            if kind == 'def':
                name = m['name']
                if m['array'] is None:
                    a, b = leaf_extent(cdc, c, m)
                    if name in classes and name not in choices:
                        # branch over the variable's classes for the rest of the container
                        rest = seq[i + 1:]
                        rl, rh = INF, 0
                        for v in classes[name]:
                            x, y = walk(rest, {**choices, name: v})
                            rl, rh = min(rl, x), max(rh, y)
                        return lo + a + rl, hi + b + rh
                    lo, hi = lo + a, hi + b
                else:
                    a, b = leaf_extent(cdc, c, {**m, 'array': None})
                    arr = m['array']
                    if member_compressed(m):
                        # u32 length + zlib stream: at least the 4 byte length
                        lo, hi = lo + 4, INF
                    elif arr == '-':
                        hi = INF
                    elif arr.isdigit() or arr.startswith('0x'):
                        n = int(arr, 0)
                        lo, hi = lo + n * a, hi + n * b
                    else:
                        cm = cdc.find_def(c, arr)
                        w = cdc.wire_int(cm)[0]
                        nmax = (1 << (8 * w)) - 1
                        hi = hi + nmax * b if b else hi
            elif kind == 'if' and (m['conds'][0][0], id(m)) in independent:
                x, y = walk(list(m['members']), choices)
                hi += y
            elif kind == 'if':
                vals = dict(choices)
                idx = codec.branch_taken(m, vals, cdc.definer_of_var, c)
                x, y = walk(list(codec.branch_members(m, idx)) + list(seq[i + 1:]), choices)
                return lo + x, hi + y
            elif kind == 'optional':
                x, y = walk(m['members'], choices)
                hi += y
        return lo, hi

    r = walk(list(c.raw['members']), {})
    if info(c).compressed:
        # u32 decompressed size, then a zlib stream of the payload; nothing follows an empty payload, and
        # the shortest zlib stream of a non-empty payload is 9 bytes (2 header + 3 block + 4 adler)
        r = (4 if r[0] == 0 else 4 + 9, INF)
    _cache[k] = r
    return r


def constant_size(cdc, c):
    lo, hi = extent(cdc, c)
    return lo if lo == hi else None
