"""JSON Typedef (RFC 8927) validator: all eight forms, strict additionalProperties, refs, nullable."""
import math

_INT = {'int8': (-128, 127), 'uint8': (0, 255), 'int16': (-32768, 32767), 'uint16': (0, 65535),
        'int32': (-2 ** 31, 2 ** 31 - 1), 'uint32': (0, 2 ** 32 - 1)}


class SchemaError(Exception):
    pass


def validate(schema, instance, max_errors=50):
    """-> list of (instance path, schema path, message)"""
    defs = schema.get('definitions', {})
    errs = []

    def chk(s, v, ip, sp):
        if len(errs) >= max_errors:
            return
        if s.get('nullable') and v is None:
            return
        if 'ref' in s:
            if s['ref'] not in defs:
                raise SchemaError(f'undefined ref {s["ref"]}')
            return chk(defs[s['ref']], v, ip, f'/definitions/{s["ref"]}')
        if 'type' in s:
            t = s['type']
            if t == 'boolean':
                ok = isinstance(v, bool)
            elif t == 'string':
                ok = isinstance(v, str)
            elif t == 'timestamp':
                ok = isinstance(v, str)
            elif t in ('float32', 'float64'):
                ok = isinstance(v, (int, float)) and not isinstance(v, bool)
            elif t in _INT:
                ok = (isinstance(v, (int, float)) and not isinstance(v, bool) and float(v).is_integer()
                      and _INT[t][0] <= v <= _INT[t][1])
            else:
                raise SchemaError(f'unknown type {t}')
            if not ok:
                errs.append((ip, sp + '/type', f'expected {t}, got {v!r}'[:120]))
            return
        if 'enum' in s:
            if not isinstance(v, str) or v not in s['enum']:
                errs.append((ip, sp + '/enum', f'{v!r} not in enum'[:120]))
            return
        if 'elements' in s:
            if not isinstance(v, list):
                errs.append((ip, sp + '/elements', 'expected array'))
                return
            for i, x in enumerate(v):
                chk(s['elements'], x, f'{ip}/{i}', sp + '/elements')
            return
        if 'values' in s:
            if not isinstance(v, dict):
                errs.append((ip, sp + '/values', 'expected object'))
                return
            for k, x in v.items():
                chk(s['values'], x, f'{ip}/{k}', sp + '/values')
            return
        if 'discriminator' in s:
            if not isinstance(v, dict):
                errs.append((ip, sp + '/discriminator', 'expected object'))
                return
            tag = s['discriminator']
            if tag not in v:
                errs.append((ip, sp + '/discriminator', f'missing tag {tag}'))
                return
            if not isinstance(v[tag], str) or v[tag] not in s['mapping']:
                errs.append((f'{ip}/{tag}', sp + '/mapping', f'unknown tag value {v[tag]!r}'))
                return
            return props(s['mapping'][v[tag]], v, ip, f'{sp}/mapping/{v[tag]}', skip=tag)
        if 'properties' in s or 'optionalProperties' in s:
            return props(s, v, ip, sp)
        # empty form accepts anything
        return

    def props(s, v, ip, sp, skip=None):
        if not isinstance(v, dict):
            errs.append((ip, sp + '/properties', 'expected object'))
            return
        req = s.get('properties', {})
        opt = s.get('optionalProperties', {})
        for k, sub in req.items():
            if k not in v:
                errs.append((ip, f'{sp}/properties/{k}', f'missing required property {k}'))
            else:
                chk(sub, v[k], f'{ip}/{k}', f'{sp}/properties/{k}')
        for k, sub in opt.items():
            if k in v:
                chk(sub, v[k], f'{ip}/{k}', f'{sp}/optionalProperties/{k}')
        if not s.get('additionalProperties'):
            for k in v:
                if k not in req and k not in opt and k != skip:
                    errs.append((f'{ip}/{k}', sp, f'additional property {k}'))

    chk(schema, instance, '', '')
    return errs
