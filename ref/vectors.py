"""Produce canonical vector files (*.vec.jsonl) for every message of every flavour."""
import json, os, sys, random, multiprocessing, zlib
from . import model, codec, canon
from .codec import RefError, DecodeError

ADDON_ARRAY_NOTE = 'AddonArray messages are encode-only (element count is external, types/addon-array.md)'


def uses_type(cdc, c, ty, seen=None):
    seen = seen or set()
    if c.name in seen:
        return False
    seen.add(c.name)
    for d in codec.walk_defs(c.raw['members']):
        if d['ty'] == ty:
            return True
        if not model.is_builtin(d['ty']):
            o = cdc.env.lookup(d['ty'])
            if o is not None and o.kind == 'struct' and uses_type(cdc, o, ty, seen):
                return True
    return False


def build_env(args):
    root, envkey, seed, k, out_path, only, selfcheck = args
    corpus = model.Corpus(root)
    env = corpus.envs[envkey]
    cdc = codec.Codec(env)
    stats = {'env': envkey, 'messages': 0, 'vectors': 0, 'skipped': {}, 'sigs': 0, 'model_selfcheck_fail': []}
    sigs = set()
    with open(out_path, 'w') as f:
        for c in sorted(env.messages(), key=lambda o: o.name):
            if only and c.name not in only:
                continue
            if uses_type(cdc, c, 'AddonArray'):
                stats['skipped'][c.name] = ADDON_ARRAY_NOTE
                continue
            stats['messages'] += 1
            try:
                n = 0
                for klass, vals in canon.vectors_for(cdc, c, seed, k):
                    try:
                        body, fmap, sig, payloads = cdc.encode(c, vals)
                    except codec.NotCanonical:
                        continue
                    if selfcheck:
                        try:
                            v2, _ = cdc.decode(c, body)
                            b2 = cdc.encode(c, v2)[0]
                            if b2 != body and not payloads:
                                stats['model_selfcheck_fail'].append(f'{c.name}:{klass}: encode(decode(b)) != b')
                        except DecodeError as e:
                            stats['model_selfcheck_fail'].append(f'{c.name}:{klass}: {e}')
                    for d in cdc.directions(c):
                        try:
                            frame = cdc.canonical_frame(c, body, d)
                        except RefError:
                            continue
                        hl = len(frame) - len(body)
                        rec = {
                            'id': f'{envkey}.{d[0].upper()}.{c.name}#{klass}', 'family': env.family,
                            'version': env.version, 'dir': d, 'object': c.name, 'opcode': c.raw['opcode'],
                            'hex': frame.hex(), 'hdr': hl, 'class': 'canonical', 'kind': klass,
                            'sig': sig, 'feat': cdc.last_feat,
                            'fmap': [[r[0], r[1] + hl, r[2], r[3], r[4]] + r[5:] for r in fmap],
                            'payloads': [{'len_off': p['len_off'] + hl, 'data_off': p['data_off'] + hl,
                                          'payload': p['payload'].hex(),
                                          'fmap': p['fmap']} for p in payloads],
                        }
                        f.write(json.dumps(rec) + '\n')
                        n += 1
                        sigs.add((c.name, d, tuple(sig)))
                stats['vectors'] += n
            except RefError as e:
                stats['skipped'][c.name] = f'reference model: {e}'
    stats['sigs'] = len(sigs)
    return stats


def build(root, seed, k, out_dir, envs=None, only=None, selfcheck=True, procs=None):
    os.makedirs(out_dir, exist_ok=True)
    keys = envs or (['world:vanilla', 'world:tbc', 'world:wrath'] + [f'login:{n}' for n in model.LOGIN_VERSIONS])
    jobs = [(root, key, seed, k, os.path.join(out_dir, key.replace(':', '_') + '.vec.jsonl'), only, selfcheck) for key in keys]
    with multiprocessing.Pool(procs or min(len(jobs), 9)) as pool:
        res = pool.map(build_env, jobs)
    return {r['env']: r for r in res}, {j[1]: j[4] for j in jobs}


if __name__ == '__main__':
    out = sys.argv[1]
    k = int(sys.argv[2]) if len(sys.argv) > 2 else 2
    st, files = build(model.default_root(), 1, k, out)
    for e, s in st.items():
        print(e, s['messages'], s['vectors'], s['sigs'], len(s['skipped']), s['model_selfcheck_fail'][:5])
        for n, why in list(s['skipped'].items())[:10]:
            print('   skipped', n, why)
