#!/usr/bin/env python3
"""Spike: independent reading of the wowm language (tokenizer + recursive descent)."""
import os, re, sys, json, collections

TOKEN_RE = re.compile(r'''
    (?P<ws>\s+)
  | (?P<doc>///[^\n]*)
  | (?P<comment>/\*.*?\*/)
  | (?P<string>"[^"]*")
  | (?P<num>0x[0-9A-Fa-f]+|0b[01]+|-?\d+\.\d+|-?\d+(?![A-Za-z_0-9]))
  | (?P<selfsize>self\.size)
  | (?P<ident>[A-Za-z_0-9]+)
  | (?P<op>==|!=|\|\||[#{}\[\]();=,:&|\-])
''', re.S | re.X)

class Tok:
    __slots__ = ('kind', 'val', 'line')
    def __init__(s, kind, val, line): s.kind, s.val, s.line = kind, val, line
    def __repr__(s): return f'{s.kind}:{s.val!r}@{s.line}'

def tokenize(text, fname):
    pos, line, out = 0, 1, []
    while pos < len(text):
        m = TOKEN_RE.match(text, pos)
        if not m:
            raise SyntaxError(f'{fname}:{line}: bad char {text[pos]!r}')
        k = m.lastgroup
        v = m.group(k)
        if k not in ('ws', 'comment'):
            out.append(Tok(k, v, line))
        line += v.count('\n')
        pos = m.end()
    out.append(Tok('eof', '', line))
    return out

def parse_value(s):
    if s.startswith('0x'): return int(s[2:], 16)
    if s.startswith('0b'): return int(s[2:], 2)
    if s.startswith('"'):
        b = s[1:-1].replace('\\0', '\0').encode()
        return int.from_bytes(b.rjust(8, b'\0')[-8:], 'big')
    try: return int(s)
    except ValueError: return None

class P:
    def __init__(s, toks, fname): s.t, s.i, s.f = toks, 0, fname
    def peek(s, k=0): return s.t[s.i + k]
    def next(s): t = s.t[s.i]; s.i += 1; return t
    def accept(s, val):
        if s.peek().val == val and s.peek().kind in ('op', 'ident'): s.i += 1; return True
        return False
    def expect(s, val):
        t = s.next()
        if t.val != val: raise SyntaxError(f'{s.f}:{t.line}: expected {val!r} got {t!r}')
        return t
    def ident(s):
        t = s.next()
        if t.kind not in ('ident', 'num'): raise SyntaxError(f'{s.f}:{t.line}: expected ident got {t!r}')
        return t.val
    def docs(s):
        d = []
        while s.peek().kind == 'doc': d.append(s.next().val[3:].strip())
        return d
    def kvs(s):
        """{ key = "value"; ... }"""
        out = []
        s.expect('{')
        while not s.accept('}'):
            k = s.ident(); s.expect('=')
            t = s.next(); assert t.kind == 'string', (s.f, t)
            s.expect(';')
            out.append((k, t.val[1:-1]))
        return out
    def file(s):
        cmds, objs = [], []
        while s.peek().val == '#':
            s.next(); c = s.ident(); k = s.ident(); v = s.next(); s.expect(';')
            cmds.append((c, k, v.val[1:-1]))
        pending_docs = []
        while s.peek().kind != 'eof':
            pending_docs += s.docs()
            if s.peek().kind == 'eof': break
            kw = s.peek().val
            line = s.peek().line
            if kw in ('enum', 'flag'): o = s.definer()
            elif kw in ('struct', 'clogin', 'slogin', 'smsg', 'cmsg', 'msg'): o = s.container()
            elif kw == 'test': o = s.test()
            else: raise SyntaxError(f'{s.f}:{line}: unexpected {s.peek()!r}')
            o['docs'] = pending_docs; pending_docs = []
            o['file'] = s.f; o['line'] = line; o['end_line'] = s.t[s.i - 1].line
            objs.append(o)
        return cmds, objs
    def definer(s):
        kind = s.next().val; name = s.ident(); s.expect(':'); ty = s.ident()
        s.expect('{'); fields = []
        while not s.accept('}'):
            d = s.docs(); n = s.ident(); s.expect('='); v = s.next()
            tags = []
            if s.peek().val == '{': tags = s.kvs()
            else: s.expect(';')
            fields.append({'name': n, 'raw': v.val, 'value': parse_value(v.val), 'tags': tags, 'docs': d})
        tags = s.kvs() if s.peek().val == '{' else []
        return {'kind': kind, 'name': name, 'ty': ty, 'fields': fields, 'tags': tags}
    def container(s):
        kind = s.next().val; name = s.ident(); opcode = None
        if s.accept('='): opcode = s.next().val
        members = s.members()
        tags = s.kvs() if s.peek().val == '{' else []
        return {'kind': kind, 'name': name, 'opcode_raw': opcode,
                'opcode': parse_value(opcode) if opcode else None, 'members': members, 'tags': tags}
    def members(s):
        s.expect('{'); out = []
        while not s.accept('}'):
            out.append(s.member())
        return out
    def member(s):
        d = s.docs()
        t = s.peek()
        if t.val == 'if': m = s.ifstmt()
        elif t.val == 'optional':
            s.next(); n = s.ident(); mem = s.members()
            tags = []
            m = {'m': 'optional', 'name': n, 'members': mem}
        elif t.val == 'unimplemented':
            s.next(); m = {'m': 'unimplemented'}
        else:
            upcast = None
            if s.accept('('): upcast = s.ident(); s.expect(')')
            ty = s.ident(); arr = None
            if s.accept('['):
                if s.accept('-'): arr = '-'
                else: arr = s.ident()
                s.expect(']')
            n = s.ident(); val = None
            if s.accept('='): val = s.next().val
            tags = []
            if s.peek().val == '{': tags = s.kvs()
            else: s.expect(';')
            m = {'m': 'def', 'ty': ty, 'upcast': upcast, 'array': arr, 'name': n, 'value': val, 'tags': tags}
        m['docs'] = d
        return m
    def conds(s):
        s.expect('('); c = []
        while True:
            v = s.ident(); op = s.next().val; e = s.ident()
            c.append((v, op, e))
            if not s.accept('||'): break
        s.expect(')')
        return c
    def ifstmt(s):
        s.expect('if'); c = s.conds(); mem = s.members()
        elifs, els = [], []
        while s.peek().val == 'else':
            s.next()
            if s.accept('if'):
                ec = s.conds(); em = s.members(); elifs.append({'conds': ec, 'members': em})
            else:
                els = s.members(); break
        return {'m': 'if', 'conds': c, 'members': mem, 'elifs': elifs, 'else': els}
    def test(s):
        s.expect('test'); name = s.ident()
        fields = s.test_fields()
        s.expect('['); data = []
        while not s.accept(']'):
            t = s.next(); data.append(parse_value(t.val)); s.accept(',')
        tags = s.kvs() if s.peek().val == '{' else []
        return {'kind': 'test', 'name': name, 'fields': fields, 'bytes': data, 'tags': tags}
    def test_fields(s):
        s.expect('{'); out = []
        while not s.accept('}'):
            n = s.ident(); s.expect('='); v = s.test_value()
            if s.peek().val == '{' and False: pass
            if not s.accept(';'):
                # complex_test_item with key values
                if s.peek().val == '{': s.kvs()
            out.append((n, v))
        return out
    def test_value(s):
        t = s.peek()
        if t.val == '[':
            s.next(); items = []
            while not s.accept(']'):
                if s.peek().val == '{': items.append(s.test_fields())
                else: items.append(s.next().val)
                s.accept(',')
            return items
        if t.val == '{': return s.test_fields()
        vals = [s.next().val]
        while s.accept('|'): vals.append(s.next().val)
        return vals if len(vals) > 1 else vals[0]

def load(root):
    files = []
    for d, _, fs in os.walk(root):
        for f in sorted(fs):
            if f.endswith('.wowm'): files.append(os.path.join(d, f))
    objs = []
    for f in sorted(files):
        txt = open(f).read()
        cmds, os_ = P(tokenize(txt, f), f).file()
        for o in os_:
            o['tag_all'] = [(k, v) for (c, k, v) in cmds if c == 'tag_all']
            objs.append(o)
    return objs

if __name__ == '__main__':
    objs = load(sys.argv[1])
    c = collections.Counter(o['kind'] for o in objs)
    print(c)
