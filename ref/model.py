"""Independent reading of the wowm corpus: version expansion and name resolution.

Written from wowm_language/src/spec/*.md and versioning-with-tags.md.  Shares no code with
the generator.  An `Env` is the set of objects visible to one protocol flavour:
world expansions vanilla (1.12), tbc (2.4.3), wrath (3.3.5); login protocol versions 2,3,5,6,7,8.
"""
import collections, os
from . import wowm

EXPANSIONS = {'vanilla': (1, 12), 'tbc': (2, 4, 3), 'wrath': (3, 3, 5)}
LOGIN_VERSIONS = [2, 3, 5, 6, 7, 8]
CONTAINER_KINDS = ('struct', 'clogin', 'slogin', 'smsg', 'cmsg', 'msg')
MESSAGE_KINDS = ('clogin', 'slogin', 'smsg', 'cmsg', 'msg')

INT_TYPES = {  # name -> (width, signed, big_endian)
    'u8': (1, False, False), 'u16': (2, False, False), 'u32': (4, False, False), 'u64': (8, False, False),
    'i8': (1, True, False), 'i16': (2, True, False), 'i32': (4, True, False), 'i64': (8, True, False),
    'u16_be': (2, False, True), 'u32_be': (4, False, True), 'u64_be': (8, False, True),
    'u48': (6, False, False),
}
# aliases documented in lang-spec.md's type table
ALIASES = {
    'Gold': 'u32', 'Level': 'u8', 'Level16': 'u16', 'Level32': 'u32', 'Seconds': 'u32',
    'Milliseconds': 'u32', 'Spell': 'u32', 'Spell16': 'u16', 'Item': 'u32', 'Guid': 'u64',
    'IpAddress': 'u32_be',
}
BUILTIN_OTHER = {
    'Bool', 'Bool32', 'PackedGuid', 'NamedGuid', 'DateTime', 'f32', 'CString', 'SizedCString', 'String',
    'UpdateMask', 'MonsterMoveSplines', 'AuraMask', 'AchievementDoneArray', 'AchievementInProgressArray',
    'EnchantMask', 'InspectTalentGearMask', 'Population', 'VariableItemRandomProperty', 'AddonArray',
    'CacheMask',
}


def is_builtin(ty):
    return ty in INT_TYPES or ty in ALIASES or ty in BUILTIN_OTHER


def parse_wv(s):
    if s == '*':
        return ('*',)
    return tuple(int(x) for x in s.split('.'))


def covers(tagv, target):
    """A tag version covers a concrete target iff it is as specific or less specific."""
    if tagv == ('*',):
        return True
    return len(tagv) <= len(target) and tuple(target[:len(tagv)]) == tuple(tagv)


def tagdict(o):
    d = collections.defaultdict(list)
    for k, v in o['tags']:
        d[k].append(v)
    for k, v in o.get('tag_all', []):
        d[k].append(v)
    return d


class Obj:
    """One version-expanded object."""
    __slots__ = ('raw', 'kind', 'name', 'family', 'versions', 'tags', 'file', 'line')

    def __init__(s, raw, family, versions, tags):
        s.raw, s.kind, s.name, s.family, s.versions, s.tags = raw, raw['kind'], raw['name'], family, versions, tags
        s.file, s.line = raw['file'], raw['line']

    def is_test_object(s):
        return 'true' in s.tags.get('test', [])

    def __repr__(s):
        return f'<{s.kind} {s.name} {s.family} {s.versions}>'


def expand(raw_objs):
    out, tests = [], []
    for o in raw_objs:
        if o['kind'] == 'test':
            tests.append(o)
            continue
        t = tagdict(o)
        wv = [parse_wv(x) for s in t.get('versions', []) for x in s.split()]
        pv = [parse_wv(x) for s in t.get('paste_versions', []) for x in s.split()]
        lv = [x if x == '*' else int(x) for s in t.get('login_versions', []) for x in s.split()]
        if pv:
            for v in pv:
                out.append(Obj(o, 'world', [v], t))
            if wv:
                out.append(Obj(o, 'world', wv, t))
        elif wv:
            out.append(Obj(o, 'world', wv, t))
        elif lv:
            out.append(Obj(o, 'login', lv, t))
        else:
            out.append(Obj(o, 'none', [], t))
    return out, tests


class Env:
    def __init__(s, family, version):
        s.family, s.version = family, version
        s.definers, s.containers = {}, {}
        s.clashes = []

    @property
    def key(s):
        return f'{s.family}:{s.version}'

    def add(s, o):
        d = s.definers if o.kind in ('enum', 'flag') else s.containers
        if o.name in d:
            s.clashes.append(o.name)
        d[o.name] = o

    def messages(s):
        return [o for o in s.containers.values() if o.kind in MESSAGE_KINDS]

    def lookup(s, ty):
        if ty in s.definers:
            return s.definers[ty]
        if ty in s.containers:
            return s.containers[ty]
        return None


class Corpus:
    def __init__(s, root, include_test_objects=False):
        s.root = root
        s.raw = wowm.load(root)
        s.objs, s.raw_tests = expand(s.raw)
        s.envs = {}
        for e, trip in EXPANSIONS.items():
            env = Env('world', e)
            for o in s.objs:
                if o.family == 'world' and any(covers(v, trip) for v in o.versions):
                    if o.is_test_object() and not include_test_objects:
                        continue
                    env.add(o)
            s.envs[env.key] = env
        for n in LOGIN_VERSIONS:
            env = Env('login', n)
            for o in s.objs:
                if o.family == 'login' and ('*' in o.versions or n in o.versions):
                    if o.is_test_object() and not include_test_objects:
                        continue
                    env.add(o)
            s.envs[env.key] = env

    def env(s, family, version):
        return s.envs[f'{family}:{version}']

    def env_for(s, obj):
        """Environment of names visible to `obj`: same-family objects whose versions cover every version of obj
        (versioning-with-tags.md: 'as specific or less specific')."""
        env = Env(obj.family, 'obj:' + obj.name)

        def cov(cand):
            if obj.family == 'login':
                return all(('*' in cand.versions) or (v in cand.versions) for v in obj.versions if v != '*') and \
                    (('*' not in obj.versions) or ('*' in cand.versions))
            return all(any(covers(u, v) for u in cand.versions) for v in obj.versions)
        for o in s.objs:
            if o.family == obj.family and cov(o):
                env.add(o)
        return env

    def tests(s):
        """Yield (env, container Obj, raw test) for every test x flavour it applies to."""
        for t in s.raw_tests:
            td = tagdict(t)
            wv = [parse_wv(x) for v in td.get('versions', []) + td.get('paste_versions', []) for x in v.split()]
            lv = [x if x == '*' else int(x) for v in td.get('login_versions', []) for x in v.split()]
            for env in s.envs.values():
                if env.family == 'world' and wv and any(covers(v, EXPANSIONS[env.version]) for v in wv):
                    pass
                elif env.family == 'login' and lv and ('*' in lv or env.version in lv):
                    pass
                else:
                    continue
                c = env.containers.get(t['name'])
                if c is not None:
                    yield env, c, t


def default_root():
    return os.environ.get('WOWM_ROOT', os.path.join(os.environ.get('WOWM_REPO', '/repo'), 'wow_message_parser', 'wowm'))
