"""Structured corruptions of canonical vectors, driven by their field maps (C03, C04)."""
import struct, zlib, random


def header(family, version, direction, opcode, body_len, size_override=None):
    if family == 'login':
        return bytes([opcode & 0xFF])
    if direction == 'client':
        size = body_len + 4 if size_override is None else size_override
        return struct.pack('>H', size & 0xFFFF) + struct.pack('<I', opcode & 0xFFFFFFFF)
    size = body_len + 2 if size_override is None else size_override
    if version == 'wrath' and size > 0x7FFF:
        return bytes([0x80 | ((size >> 16) & 0x7F), (size >> 8) & 0xFF, size & 0xFF]) + struct.pack('<H', opcode & 0xFFFF)
    return struct.pack('>H', size & 0xFFFF) + struct.pack('<H', opcode & 0xFFFF)


def reframe(vec, body, size_override=None, opcode=None):
    return header(vec['family'], vec['version'], vec['dir'], vec['opcode'] if opcode is None else opcode, len(body), size_override) + body


def body_of(vec):
    b = bytes.fromhex(vec['hex'])
    return b[vec['hdr']:]


def leaves(vec):
    """Yield (row, where) for every leaf; where = None for plain body leaves or the payload index."""
    for r in vec['fmap']:
        yield r, None
    for i, p in enumerate(vec.get('payloads') or []):
        for r in p['fmap']:
            yield r, i


def poke(vec, row, where, newbytes):
    """-> new frame with leaf `row` replaced by `newbytes` (same width)."""
    hdr = vec['hdr']
    frame = bytearray(bytes.fromhex(vec['hex']))
    if where is None:
        off = row[1]
        frame[off:off + len(newbytes)] = newbytes
        return bytes(frame)
    p = vec['payloads'][where]
    payload = bytearray(bytes.fromhex(p['payload']))
    off = row[1]
    payload[off:off + len(newbytes)] = newbytes
    body = bytes(frame[hdr:p['data_off']]) + zlib.compress(bytes(payload))
    return reframe(vec, body)


def enum_faults(vec, corpus_definers):
    """C04(a): undeclared values at full wire width in every enum-typed leaf.
    corpus_definers: name -> sorted list of declared unsigned values at base width.
    Yields (fault_id_suffix, frame, injected_value, leaf_path, width)."""
    for row, where in leaves(vec):
        role = row[4]
        if not role.startswith('enum'):
            continue
        extra = row[5] if len(row) > 5 else {}
        w, bw = row[2], extra.get('base_width', row[2])
        declared = corpus_definers.get(extra.get('definer'))
        if not declared:
            continue
        dset = set(declared)
        be = row[3].endswith('_be')
        cands = []
        # two undeclared values inside the base range
        full = 1 << (8 * bw)
        for v in (max(declared) + 1, (min(declared) - 1) % full, full - 1, full // 2 + 3):
            if v < full and v not in dset and v not in cands:
                cands.append(v)
            if len(cands) >= 2:
                break
        # aliases of a declared value modulo the base width (only expressible when upcast)
        d0 = declared[len(declared) // 2]
        for sh in (8, 16, 32):
            if w * 8 > sh and sh >= bw * 8:
                v = d0 + (1 << sh)
                if v < (1 << (8 * w)):
                    cands.append(v)
        allones = (1 << (8 * w)) - 1
        if w > bw or allones not in dset:
            if allones not in cands and not (w == bw and allones in dset):
                # for signed enums all-ones at the upcast width is -1 sign-extended, which may be declared
                if not (w > bw and ((1 << (8 * bw)) - 1) in dset):
                    cands.append(allones)
        for v in cands:
            if w == bw and v in dset:
                continue
            yield f'enum@{row[0]}={v:#x}', poke(vec, row, where, v.to_bytes(w, 'big' if be else 'little')), v, row[0], w


def truncations(vec):
    """C03(b): body cut at every field boundary and +-1; header says the truncated length."""
    body = body_of(vec)
    hdr = vec['hdr']
    cuts = set()
    for r in vec['fmap']:
        for d in (-1, 0, 1):
            c = r[1] - hdr + d
            if 0 <= c < len(body):
                cuts.add(c)
    for c in sorted(cuts):
        yield f'trunc@{c}', reframe(vec, body[:c])


def stream_truncations(vec, every=1):
    """the frame cut short while the header still announces the full length (EOF mid message)"""
    frame = bytes.fromhex(vec['hex'])
    for c in range(0, len(frame), every):
        yield f'eof@{c}', frame[:c]


COUNT_VALUES = [0, 1, 2, 0x7F, 0xFF, 0xFFFF, 0x7FFFFFFF, 0xFFFFFFFF]


def count_faults(vec):
    """C03(b): every count / length / size leaf set to boundary values."""
    for row, where in leaves(vec):
        if row[4] not in ('count-of', 'string-len', 'compressed-len', 'self-size'):
            continue
        w = row[2]
        be = row[3].endswith('_be')
        seen = set()
        for v in COUNT_VALUES + [(1 << 8 * w) - 1]:
            v &= (1 << 8 * w) - 1
            if v in seen:
                continue
            seen.add(v)
            yield f'count@{row[0]}={v:#x}', poke(vec, row, where, v.to_bytes(w, 'big' if be else 'little'))


def domain_faults(vec, rng):
    """C03(b): enum / bool / flag / mask-pattern / datetime / float leaves set to all ones and a random value."""
    for row, where in leaves(vec):
        role = row[4]
        if not (role.startswith('enum') or role.startswith('flag') or role in ('bool', 'mask-pattern', 'datetime', 'packed-guid', 'cstring', 'string')):
            continue
        w = row[2]
        if role in ('cstring', 'string', 'packed-guid'):
            if w == 0:
                continue
            yield f'ff@{row[0]}', poke(vec, row, where, b'\xff' * w)
            continue
        yield f'ones@{row[0]}', poke(vec, row, where, b'\xff' * w)
        yield f'rnd@{row[0]}', poke(vec, row, where, bytes(rng.getrandbits(8) for _ in range(w)))


def header_faults(vec):
    """C03(b): header size larger / smaller than the body that follows."""
    if vec['family'] == 'login':
        return
    body = body_of(vec)
    base = len(body) + (4 if vec['dir'] == 'client' else 2)
    for d in (-2, -1, 1, 2, 1000):
        s = base + d
        if s < 0:
            continue
        yield f'hdrsize{d:+d}', reframe(vec, body, size_override=s)


def compressed_faults(vec, rng):
    """C03(c): corrupt compressed payloads."""
    for i, p in enumerate(vec.get('payloads') or []):
        frame = bytes.fromhex(vec['hex'])
        hdr = vec['hdr']
        pre = frame[hdr:p['data_off']]
        payload = bytes.fromhex(p['payload'])
        stream = zlib.compress(payload)
        lenoff = p['len_off'] - hdr

        def mk(prefix, tail):
            return reframe(vec, prefix + tail)
        yield f'z{i}:truncated', mk(pre, stream[:max(1, len(stream) // 2)])
        yield f'z{i}:empty-stream', mk(pre, b'')
        yield f'z{i}:garbage', mk(pre, bytes(rng.getrandbits(8) for _ in range(24)))
        if len(stream) > 4:
            b = bytearray(stream)
            b[len(b) // 2] ^= 0x5A
            yield f'z{i}:flipped', mk(pre, bytes(b))
            b = bytearray(stream)
            b[-1] ^= 0xFF
            yield f'z{i}:bad-adler', mk(pre, bytes(b))
        for lie in (0, 1, 2 ** 31, 2 ** 32 - 1):
            pp = bytearray(pre)
            pp[lenoff:lenoff + 4] = struct.pack('<I', lie)
            yield f'z{i}:len={lie:#x}', mk(bytes(pp), stream)
        bomb = zlib.compress(b'\0' * (1 << 20))
        pp = bytearray(pre)
        pp[lenoff:lenoff + 4] = struct.pack('<I', 1 << 20)
        yield f'z{i}:bomb1M', mk(bytes(pp), bomb)
        yield f'z{i}:valid-empty-stream', mk(bytes(pp[:lenoff]) + struct.pack('<I', 0) + bytes(pp[lenoff + 4:]), zlib.compress(b''))


def string_faults(vec):
    """C03(b): C strings at and beyond the 255/256 byte limit, with and without their terminator,
    followed by the rest of the message (or by nothing)."""
    hdr = vec['hdr']
    frame = bytes.fromhex(vec['hex'])
    for row in vec['fmap']:
        if row[4] != 'cstring':
            continue
        off, w = row[1], row[2]
        before, after = frame[hdr:off], frame[off + w:]
        for L in (255, 256, 257, 300):
            s_ = bytes(0x41 + (i % 26) for i in range(L))
            yield f'str@{row[0]}={L}+nul', reframe(vec, before + s_ + b'\0' + after)
            yield f'str@{row[0]}={L}-nul', reframe(vec, before + s_ + after)
            yield f'str@{row[0]}={L}-nul-end', reframe(vec, before + s_)
