"""Reference encoder / decoder / canonical value generator for wowm containers.

Everything here is derived from the language documents (lang-spec.md, types/*.md,
compression.md, ir/implementing_world.md).  It shares no code with the generator.

Value representation (per container instance): a flat dict  member-name -> value
  integers / enums / flags / Bool : int (wire value, unsigned)
  f32 / Population              : int (raw IEEE bits, so NaN payloads survive)
  CString / String / SizedCString: bytes (without NUL / length)
  struct                        : dict
  arrays                        : list
  optional <name>               : vals[name] = True/False, members live in the same dict
  PackedGuid / Guid             : int
  NamedGuid                     : (guid, name-bytes or None)
  masks                         : list with None for absent entries
  UpdateMask                    : (block_count, {field_index: u32})
  MonsterMoveSplines            : list: [ (xbits,ybits,zbits), packed_u32, ... ]
  Achievement*Array             : list of dict
  VariableItemRandomProperty    : (id, suffix or None)
"""
import struct, zlib, datetime, random
from . import model
from .model import INT_TYPES, ALIASES

U32MAX = 0xFFFFFFFF


class RefError(Exception):
    """The reference model cannot handle something (never a verdict about the repository)."""


class NotCanonical(RefError):
    """The drawn value has no canonical encoding (e.g. a self.size field too narrow for what follows)."""


class DecodeError(Exception):
    """The reference decoder says the bytes are not an encoding of the definition."""


# ---------------------------------------------------------------------------------------------
# definers

def definer_base(o):
    ty = o.raw['ty']
    if ty not in INT_TYPES:
        raise RefError(f'definer {o.name} has base type {ty}')
    return INT_TYPES[ty]


def definer_values(o):
    """[(name, unsigned wire value at base width, signed numeric value)]"""
    w, signed, _ = definer_base(o)
    out = []
    for f in o.raw['fields']:
        v = f['value']
        if v is None:
            raise RefError(f'{o.name}.{f["name"]}: value {f["raw"]}')
        out.append((f['name'], v & ((1 << (8 * w)) - 1), v))
    return out


# ---------------------------------------------------------------------------------------------
# static analysis of a container

def walk_defs(members):
    for m in members:
        if m['m'] == 'def':
            yield m
        elif m['m'] == 'if':
            yield from walk_defs(m['members'])
            for e in m['elifs']:
                yield from walk_defs(e['members'])
            yield from walk_defs(m['else'])
        elif m['m'] == 'optional':
            yield from walk_defs(m['members'])


def walk_ifs(members):
    for m in members:
        if m['m'] == 'if':
            yield m
            yield from walk_ifs(m['members'])
            for e in m['elifs']:
                yield from walk_ifs(e['members'])
            yield from walk_ifs(m['else'])
        elif m['m'] == 'optional':
            yield from walk_ifs(m['members'])


class Info:
    """Per-container facts: which members are counts, if-variables, where self.size is."""

    def __init__(s, c):
        s.count_of = {}   # count member name -> [array member names]
        s.ifvars = set()
        defs = list(walk_defs(c.raw['members']))
        names = {d['name'] for d in defs}
        for d in defs:
            a = d['array']
            if a is not None and a != '-' and not a.isdigit() and not a.startswith('0x'):
                if a not in names:
                    raise RefError(f'{c.name}: array length {a} unknown')
                s.count_of.setdefault(a, []).append(d['name'])
        for i in walk_ifs(c.raw['members']):
            for (v, op, e) in i['conds']:
                s.ifvars.add(v)
            for el in i['elifs']:
                for (v, op, e) in el['conds']:
                    s.ifvars.add(v)
        s.compressed = 'true' in c.tags.get('compressed', [])


_info_cache = {}


def info(c):
    k = id(c)
    if k not in _info_cache:
        _info_cache[k] = Info(c)
    return _info_cache[k]


def member_compressed(m):
    return any(k == 'compressed' and v == 'true' for k, v in m['tags'])


def const_value(m):
    """Numeric constant of a member with `= value` (not self.size), else None."""
    v = m['value']
    if v is None or v == 'self.size':
        return None
    n = model.wowm.parse_value(v)
    return n


def branch_taken(stmt, vals, env_lookup_definer, container):
    """Index of the branch taken: 0 = if, 1.. = else-ifs, -1 = else / none."""
    def cond_true(conds):
        for (v, op, e) in conds:
            if v not in vals:
                raise RefError(f'{container.name}: if-variable {v} has no value')
            val = vals[v]
            dv = env_lookup_definer(container, v)
            ev = None
            for (n, uv, sv) in definer_values(dv):
                if n == e:
                    ev = uv
            if ev is None:
                raise RefError(f'{container.name}: enumerator {e} not in {dv.name}')
            if op == '==':
                if val == ev:
                    return True
            elif op == '!=':
                if val != ev:
                    return True
            elif op == '&':
                if val & ev:
                    return True
            else:
                raise RefError(op)
        return False
    if cond_true(stmt['conds']):
        return 0
    for i, el in enumerate(stmt['elifs']):
        if cond_true(el['conds']):
            return i + 1
    return -1


def branch_members(stmt, idx):
    if idx == 0:
        return stmt['members']
    if idx == -1:
        return stmt['else']
    return stmt['elifs'][idx - 1]['members']


# ---------------------------------------------------------------------------------------------
# DateTime helpers (types/datetime.md)

def days_in_month(year, month0):
    m = month0 + 1
    if m == 12:
        nxt = datetime.date(year + 1, 1, 1)
    else:
        nxt = datetime.date(year, m + 1, 1)
    return (nxt - datetime.date(year, m, 1)).days


def datetime_pack(y, mon, day, hour, minute):
    wd = (datetime.date(2000 + y, mon + 1, day + 1).weekday() + 1) % 7  # 0 = Sunday
    return (y << 24) | (mon << 20) | (day << 14) | (wd << 11) | (hour << 6) | minute


def datetime_valid(v):
    minute = v & 0x3F
    hour = (v >> 6) & 0x1F
    wd = (v >> 11) & 0x7
    day = (v >> 14) & 0x3F
    mon = (v >> 20) & 0xF
    y = (v >> 24) & 0xFF
    if minute >= 60 or hour >= 24 or mon >= 12:
        return False
    if day >= days_in_month(2000 + y, mon):
        return False
    return wd == (datetime.date(2000 + y, mon + 1, day + 1).weekday() + 1) % 7


# ---------------------------------------------------------------------------------------------
# update mask object types (types/update-mask.md: OBJECT_TYPE is field 2)

UPDATE_MASK_TYPES = {  # OBJECT_TYPE value -> name; values from update-mask.md text
    0x0003: 'item', 0x0007: 'container', 0x0009: 'unit', 0x0019: 'player',
    0x0021: 'gameobject', 0x0041: 'dynamicobject', 0x0081: 'corpse',
}


class Codec:
    """Reference codec for one Env."""

    def __init__(s, env):
        s.env = env

    # -- lookups -----------------------------------------------------------------------------
    def lookup(s, ty):
        o = s.env.lookup(ty)
        if o is None:
            raise RefError(f'{s.env.key}: unknown type {ty}')
        return o

    def find_def(s, c, name):
        for d in walk_defs(c.raw['members']):
            if d['name'] == name:
                return d
        return None

    def definer_of_var(s, c, var):
        d = s.find_def(c, var)
        if d is None:
            raise RefError(f'{c.name}: if-variable {var} is not a member')
        o = s.lookup(d['ty'])
        if o.kind not in ('enum', 'flag'):
            raise RefError(f'{c.name}.{var} is not a definer')
        return o

    def wire_int(s, m):
        """(width, signed, big_endian) of an integer-like / definer member on the wire."""
        ty = m['ty']
        if m['upcast']:
            return INT_TYPES[m['upcast']]
        ty = ALIASES.get(ty, ty)
        if ty in INT_TYPES:
            return INT_TYPES[ty]
        o = s.lookup(ty)
        return definer_base(o)

    # -- frames -------------------------------------------------------------------------------
    def directions(s, c):
        return {'cmsg': ['client'], 'smsg': ['server'], 'msg': ['client', 'server'],
                'clogin': ['client'], 'slogin': ['server']}[c.kind]

    CLIENT_LIMIT = 10240   # canonical client messages stay within the client buffer limit (assumption, DESIGN.md 2.1)

    def canonical_frame(s, c, body, direction):
        if s.env.family == 'world' and direction == 'client' and len(body) > s.CLIENT_LIMIT:
            raise RefError('client message above the client buffer limit')
        return s.frame(c, body, direction)

    def frame(s, c, body, direction):
        """Full message bytes: header + body, per ir/implementing_world.md / implementing_login.md."""
        op = c.raw['opcode']
        if s.env.family == 'login':
            return bytes([op]) + body
        if direction == 'client':
            size = len(body) + 4
            if size > 0xFFFF:
                raise RefError('client frame too large')
            return struct.pack('>H', size) + struct.pack('<I', op) + body
        size = len(body) + 2
        if s.env.version == 'wrath' and size > 0x7FFF:
            if size > 0x7FFFFF:
                raise RefError('server frame too large')
            return bytes([0x80 | (size >> 16), (size >> 8) & 0xFF, size & 0xFF]) + struct.pack('<H', op) + body
        if size > 0xFFFF or (s.env.version == 'wrath' and size > 0x7FFF):
            raise RefError('server frame too large')
        return struct.pack('>H', size) + struct.pack('<H', op) + body

    def header_len(s, direction, body_len=0):
        if s.env.family == 'login':
            return 1
        if direction == 'client':
            return 6
        if s.env.version == 'wrath' and body_len + 2 > 0x7FFF:
            return 5
        return 4

    # =========================================================================================
    # ENCODER
    # =========================================================================================
    def encode(s, c, vals):
        """-> (body bytes, fmap, sig, payloads).  fmap rows: [path, off, width, leaf, role]."""
        st = _EncState()
        s._enc_container(c, vals, st, '')
        body = bytes(st.out)
        if info(c).compressed:
            payload = body
            body = struct.pack('<I', len(payload)) + zlib.compress(payload)
            inner = st.fmap
            st.fmap = [['<message>.decompressed_size', 0, 4, 'u32', 'compressed-len']]
            st.payloads = [{'len_off': 0, 'data_off': 4, 'payload': payload, 'fmap': inner}]
        s.last_feat = sorted(st.feat)
        return body, st.fmap, st.sig, st.payloads

    def _enc_container(s, c, vals, st, path):
        size_patches = []
        s._enc_members(c, c.raw['members'], vals, st, path, size_patches)
        for (off, w, be) in size_patches:
            n = len(st.out) - (off + w)
            if n >> (8 * w):
                raise NotCanonical(f'{c.name}: self.size {n} does not fit {w} byte(s)')
            st.out[off:off + w] = n.to_bytes(w, 'big' if be else 'little')

    def _enc_members(s, c, members, vals, st, path, size_patches):
        for m in members:
            k = m['m']
            if k == 'def':
                s._enc_def(c, m, vals, st, path, size_patches)
            elif k == 'if':
                idx = branch_taken(m, vals, s.definer_of_var, c)
                st.sig.append(f'{path}if({m["conds"][0][0]}{m["conds"][0][1]}{m["conds"][0][2]}):{idx}')
                if idx >= 0 and m['elifs'] and s.definer_of_var(c, m['conds'][0][0]).kind == 'flag':
                    st.feat.add('flag-elseif-taken')
                s._enc_members(c, branch_members(m, idx), vals, st, path, size_patches)
            elif k == 'optional':
                present = bool(vals.get(m['name']))
                st.sig.append(f'{path}optional {m["name"]}:{int(present)}')
                if present:
                    s._enc_members(c, m['members'], vals, st, path, size_patches)
            elif k == 'unimplemented':
                raise RefError(f'{c.name}: unimplemented')

    def _enc_def(s, c, m, vals, st, path, size_patches):
        name = m['name']
        p = path + name
        if m['value'] == 'self.size':
            w, sg, be = s.wire_int(m)
            st.row(p, w, m['ty'], 'self-size')
            size_patches.append((len(st.out), w, be))
            st.out += b'\0' * w
            return
        if name not in vals:
            raise RefError(f'{c.name}: no value for {p}')
        v = vals[name]
        if m['array'] is not None:
            a = m['array']
            comp = member_compressed(m)
            if comp:
                outer = st
                st = _EncState()
                st.feat = outer.feat
            klass = 'n' if len(v) > 2 else str(len(v))
            (outer if comp else st).sig.append(f'{p}[{"-" if a == "-" else "n" if not a.isdigit() else a}]:{klass}')
            for i, e in enumerate(v):
                s._enc_scalar(c, m, e, st, f'{p}[{i}]', 'elem')
            if comp:
                payload = bytes(st.out)
                off = len(outer.out)
                outer.row(p + '.decompressed_size', 4, 'u32', 'compressed-len')
                outer.out += struct.pack('<I', len(payload))
                # the captured vectors show an empty payload sent as length 0 and nothing else
                outer.out += zlib.compress(payload) if payload or vals.get('__force_stream_' + name) else b''
                outer.payloads.append({'len_off': off, 'data_off': off + 4, 'payload': payload, 'fmap': st.fmap,
                                       'member': p})
                outer.sig += st.sig
            return
        role = 'plain'
        inf = info(c)
        if name in inf.count_of:
            role = 'count-of'
        if m['value'] is not None:
            role = 'const'
        s._enc_scalar(c, m, v, st, p, role, is_ifvar=name in inf.ifvars)

    def _enc_scalar(s, c, m, v, st, p, role, is_ifvar=False):
        ty = m['ty']
        aty = ALIASES.get(ty, ty)
        if aty in INT_TYPES and not m['upcast']:
            w, sg, be = INT_TYPES[aty]
            st.row(p, w, ty, role)
            if aty == 'u48':
                st.out += struct.pack('<I', v & U32MAX) + struct.pack('<H', v >> 32)
            else:
                st.out += (v & ((1 << (8 * w)) - 1)).to_bytes(w, 'big' if be else 'little')
            return
        if ty in model.BUILTIN_OTHER:
            return s._enc_builtin(c, ty, v, st, p, role)
        o = s.lookup(ty)
        if o.kind in ('enum', 'flag'):
            w, sg, be = s.wire_int(m)
            bw = definer_base(o)[0]
            r = o.kind if role in ('plain', 'elem') else role
            if is_ifvar:
                r = o.kind + ':ifvar'
            st.row(p, w, ty, r, extra={'base_width': bw, 'definer': o.name})
            # an enum's numeric value is sign-extended to the upcast width, a flag's zero-extended
            if o.kind == 'enum' and definer_base(o)[1] and w > bw and v >> (8 * bw - 1) & 1:
                v = v | (((1 << (8 * w)) - 1) ^ ((1 << (8 * bw)) - 1))
            st.out += (v & ((1 << (8 * w)) - 1)).to_bytes(w, 'big' if be else 'little')
            return
        if o.kind == 'struct':
            if m['upcast']:
                raise RefError('upcast on struct')
            s._enc_container(o, v, st, p + '.')
            return
        raise RefError(f'{c.name}.{p}: type {ty} is a {o.kind}')

    def _enc_builtin(s, c, ty, v, st, p, role):
        out = st.out
        if ty == 'Bool':
            st.row(p, 1, ty, 'bool'); out.append(v)
        elif ty == 'Bool32':
            st.row(p, 4, ty, 'bool'); out += struct.pack('<I', v)
        elif ty in ('f32', 'Population'):
            st.row(p, 4, ty, 'float'); out += struct.pack('<I', v)
        elif ty == 'DateTime':
            st.row(p, 4, ty, 'datetime'); out += struct.pack('<I', v)
        elif ty == 'CString':
            st.row(p, len(v) + 1, ty, 'cstring'); out += v + b'\0'
        elif ty == 'String':
            st.row(p + '.len', 1, 'u8', 'string-len'); out.append(len(v))
            st.row(p, len(v), ty, 'string'); out += v
        elif ty == 'SizedCString':
            st.row(p + '.len', 4, 'u32', 'string-len'); out += struct.pack('<I', len(v) + 1)
            st.row(p, len(v) + 1, ty, 'cstring'); out += v + b'\0'
        elif ty == 'PackedGuid':
            mask, bs = 0, b''
            for i in range(8):
                b = (v >> (8 * i)) & 0xFF
                if b:
                    mask |= 1 << i
                    bs += bytes([b])
            st.row(p, 1 + len(bs), ty, 'packed-guid'); out.append(mask); out += bs
        elif ty == 'NamedGuid':
            g, nm = v
            st.row(p, 8, 'Guid', 'plain'); out += struct.pack('<Q', g)
            if g != 0:
                st.row(p + '.name', len(nm) + 1, 'CString', 'cstring'); out += nm + b'\0'
        elif ty == 'VariableItemRandomProperty':
            a, b = v
            st.row(p, 4, 'u32', 'plain'); out += struct.pack('<I', a)
            if a != 0:
                st.row(p + '.suffix', 4, 'u32', 'plain'); out += struct.pack('<I', b)
        elif ty == 'CacheMask':
            s._enc_mask(v, 4, lambda e, q: (st.row(q, 4, 'u32', 'plain'), out.__iadd__(struct.pack('<I', e))), st, p)
        elif ty == 'EnchantMask':
            s._enc_mask(v, 2, lambda e, q: (st.row(q, 2, 'u16', 'plain'), out.__iadd__(struct.pack('<H', e))), st, p)
        elif ty == 'AuraMask':
            if s.env.version == 'vanilla':
                s._enc_mask(v, 4, lambda e, q: (st.row(q, 2, 'u16', 'plain'), out.__iadd__(struct.pack('<H', e))), st, p)
            else:
                aura = s.lookup('Aura')
                s._enc_mask(v, 8, lambda e, q: s._enc_container(aura, e, st, q + '.'), st, p)
        elif ty == 'InspectTalentGearMask':
            gear = s.lookup('InspectTalentGear')
            s._enc_mask(v, 4, lambda e, q: s._enc_container(gear, e, st, q + '.'), st, p)
        elif ty == 'UpdateMask':
            n, fields = v
            st.row(p + '.blocks', 1, 'u8', 'count-of'); out.append(n)
            blocks = [0] * n
            for idx in fields:
                blocks[idx // 32] |= 1 << (idx % 32)
            for i, b in enumerate(blocks):
                st.row(f'{p}.mask[{i}]', 4, 'u32', 'mask-pattern'); out += struct.pack('<I', b)
            for idx in sorted(fields):
                st.row(f'{p}.value[{idx}]', 4, 'u32', 'plain'); out += struct.pack('<I', fields[idx])
        elif ty == 'MonsterMoveSplines':
            st.row(p + '.count', 4, 'u32', 'count-of'); out += struct.pack('<I', len(v))
            for i, e in enumerate(v):
                if i == 0:
                    for j, nm in enumerate('xyz'):
                        st.row(f'{p}[0].{nm}', 4, 'f32', 'float'); out += struct.pack('<I', e[j])
                else:
                    st.row(f'{p}[{i}]', 4, 'u32', 'packed-spline'); out += struct.pack('<I', e)
        elif ty in ('AchievementDoneArray', 'AchievementInProgressArray'):
            inner = s.lookup('AchievementDone' if ty == 'AchievementDoneArray' else 'AchievementInProgress')
            for i, e in enumerate(v):
                s._enc_container(inner, e, st, f'{p}[{i}].')
            st.row(p + '.sentinel', 4, 'u32', 'const'); out += struct.pack('<I', U32MAX)
        elif ty == 'AddonArray':
            raise RefError('AddonArray is encode-only (element count is external)')
        else:
            raise RefError(f'builtin {ty}')

    def _enc_mask(s, v, pw, enc_elem, st, p):
        pattern = 0
        for i, e in enumerate(v):
            if e is not None:
                pattern |= 1 << i
        st.row(p + '.pattern', pw, f'u{pw * 8}', 'mask-pattern')
        st.out += pattern.to_bytes(pw, 'little')
        for i, e in enumerate(v):
            if e is not None:
                enc_elem(e, f'{p}[{i}]')

    # =========================================================================================
    # DECODER  (used for self-validation on captured vectors and by C13/C17/C18)
    # =========================================================================================
    def decode(s, c, body):
        """-> (vals, fmap, visited)  raises DecodeError if body is not exactly one encoding."""
        if info(c).compressed:
            if len(body) < 4:
                raise DecodeError('compressed message shorter than its length field')
            n = struct.unpack('<I', body[:4])[0]
            try:
                payload = zlib.decompress(body[4:]) if body[4:] else b''
            except zlib.error as e:
                raise DecodeError(f'zlib: {e}')
            if len(payload) != n:
                raise DecodeError(f'decompressed size {len(payload)} != announced {n}')
            body = payload
        rd = _Reader(body)
        vals = s._dec_container(c, rd, '')
        if rd.pos != len(body):
            raise DecodeError(f'{c.name}: {len(body) - rd.pos} trailing bytes')
        return vals, rd.fmap

    def _dec_container(s, c, rd, path):
        vals = {}
        start_sizes = []
        s._dec_members(c, c.raw['members'], vals, rd, path, start_sizes)
        for (name, endpos, n) in start_sizes:
            if rd.pos - endpos != n:
                raise DecodeError(f'{c.name}.{name}: self.size {n} but {rd.pos - endpos} bytes follow')
        return vals

    def _dec_members(s, c, members, vals, rd, path, sizes):
        for i, m in enumerate(members):
            k = m['m']
            if k == 'def':
                s._dec_def(c, m, vals, rd, path, sizes)
            elif k == 'if':
                idx = branch_taken(m, vals, s.definer_of_var, c)
                s._dec_members(c, branch_members(m, idx), vals, rd, path, sizes)
            elif k == 'optional':
                present = rd.pos < len(rd.b)
                vals[m['name']] = present
                if present:
                    s._dec_members(c, m['members'], vals, rd, path, sizes)

    def _dec_def(s, c, m, vals, rd, path, sizes):
        name = m['name']
        p = path + name
        if m['value'] == 'self.size':
            w, sg, be = s.wire_int(m)
            n = int.from_bytes(rd.take(w, p, m['ty'], 'self-size'), 'big' if be else 'little')
            sizes.append((name, rd.pos, n))
            vals[name] = n
            return
        a = m['array']
        if a is None:
            vals[name] = s._dec_scalar(c, m, rd, p)
            return
        if member_compressed(m):
            n = struct.unpack('<I', rd.take(4, p + '.decompressed_size', 'u32', 'compressed-len'))[0]
            rest = rd.b[rd.pos:]
            rd.pos = len(rd.b)
            try:
                payload = zlib.decompress(rest) if rest else b''
            except zlib.error as e:
                raise DecodeError(f'zlib: {e}')
            if len(payload) != n:
                raise DecodeError(f'{p}: decompressed size {len(payload)} != announced {n}')
            sub = _Reader(payload)
            out = []
            while sub.pos < len(payload):
                out.append(s._dec_scalar(c, m, sub, f'{p}[{len(out)}]'))
            rd.payloads.append({'member': p, 'payload': payload, 'fmap': sub.fmap})
            vals[name] = out
            return
        out = []
        if a == '-':
            while rd.pos < len(rd.b):
                out.append(s._dec_scalar(c, m, rd, f'{p}[{len(out)}]'))
        else:
            n = int(a, 0) if (a.isdigit() or a.startswith('0x')) else vals[a]
            for i in range(n):
                out.append(s._dec_scalar(c, m, rd, f'{p}[{i}]'))
        vals[name] = out

    def _dec_scalar(s, c, m, rd, p):
        ty = m['ty']
        aty = ALIASES.get(ty, ty)
        if aty in INT_TYPES and not m['upcast']:
            w, sg, be = INT_TYPES[aty]
            b = rd.take(w, p, ty, 'plain')
            if aty == 'u48':
                return struct.unpack('<I', b[:4])[0] | (struct.unpack('<H', b[4:])[0] << 32)
            return int.from_bytes(b, 'big' if be else 'little')
        if ty in model.BUILTIN_OTHER:
            return s._dec_builtin(c, ty, rd, p)
        o = s.lookup(ty)
        if o.kind in ('enum', 'flag'):
            w, sg, be = s.wire_int(m)
            bw, bsg, _ = definer_base(o)
            v = int.from_bytes(rd.take(w, p, ty, o.kind), 'big' if be else 'little')
            if w > bw:
                # value must be representable at the base width (sign- or zero-extended)
                lo = v & ((1 << (8 * bw)) - 1)
                hi = v >> (8 * bw)
                ok = hi == 0 or (o.kind == 'enum' and bsg and hi == (1 << (8 * (w - bw))) - 1 and lo >> (8 * bw - 1))
                if not ok:
                    raise DecodeError(f'{p}: value {v:#x} does not fit {o.name}')
                v = lo
            if o.kind == 'enum' and v not in [uv for (_, uv, _) in definer_values(o)]:
                raise DecodeError(f'{p}: {v:#x} is not an enumerator of {o.name}')
            return v
        if o.kind == 'struct':
            return s._dec_container(o, rd, p + '.')
        raise RefError(f'{c.name}.{p}: type {ty}')

    def _dec_builtin(s, c, ty, rd, p):
        if ty == 'Bool':
            return rd.take(1, p, ty, 'bool')[0]
        if ty == 'Bool32':
            return struct.unpack('<I', rd.take(4, p, ty, 'bool'))[0]
        if ty in ('f32', 'Population'):
            return struct.unpack('<I', rd.take(4, p, ty, 'float'))[0]
        if ty == 'DateTime':
            return struct.unpack('<I', rd.take(4, p, ty, 'datetime'))[0]
        if ty == 'CString':
            return rd.cstring(p)
        if ty == 'String':
            n = rd.take(1, p + '.len', 'u8', 'string-len')[0]
            return rd.take(n, p, ty, 'string')
        if ty == 'SizedCString':
            n = struct.unpack('<I', rd.take(4, p + '.len', 'u32', 'string-len'))[0]
            v = rd.cstring(p)
            if len(v) + 1 != n:
                raise DecodeError(f'{p}: SizedCString length {n} but string has {len(v)}+1 bytes')
            return v
        if ty == 'PackedGuid':
            start = rd.pos
            mask = rd.raw(1)[0]
            g = 0
            for i in range(8):
                if mask & (1 << i):
                    g |= rd.raw(1)[0] << (8 * i)
            rd.fmap.append([p, start, rd.pos - start, ty, 'packed-guid'])
            return g
        if ty == 'NamedGuid':
            g = struct.unpack('<Q', rd.take(8, p, 'Guid', 'plain'))[0]
            return (g, rd.cstring(p + '.name') if g else None)
        if ty == 'VariableItemRandomProperty':
            a = struct.unpack('<I', rd.take(4, p, 'u32', 'plain'))[0]
            return (a, struct.unpack('<I', rd.take(4, p + '.suffix', 'u32', 'plain'))[0] if a else None)
        if ty == 'CacheMask':
            return s._dec_mask(rd, p, 4, lambda q: struct.unpack('<I', rd.take(4, q, 'u32', 'plain'))[0])
        if ty == 'EnchantMask':
            return s._dec_mask(rd, p, 2, lambda q: struct.unpack('<H', rd.take(2, q, 'u16', 'plain'))[0])
        if ty == 'AuraMask':
            if s.env.version == 'vanilla':
                return s._dec_mask(rd, p, 4, lambda q: struct.unpack('<H', rd.take(2, q, 'u16', 'plain'))[0])
            aura = s.lookup('Aura')
            return s._dec_mask(rd, p, 8, lambda q: s._dec_container(aura, rd, q + '.'))
        if ty == 'InspectTalentGearMask':
            gear = s.lookup('InspectTalentGear')
            return s._dec_mask(rd, p, 4, lambda q: s._dec_container(gear, rd, q + '.'))
        if ty == 'UpdateMask':
            n = rd.take(1, p + '.blocks', 'u8', 'count-of')[0]
            blocks = [struct.unpack('<I', rd.take(4, f'{p}.mask[{i}]', 'u32', 'mask-pattern'))[0] for i in range(n)]
            fields = {}
            for i, b in enumerate(blocks):
                for bit in range(32):
                    if b & (1 << bit):
                        idx = i * 32 + bit
                        fields[idx] = struct.unpack('<I', rd.take(4, f'{p}.value[{idx}]', 'u32', 'plain'))[0]
            return (n, fields)
        if ty == 'MonsterMoveSplines':
            n = struct.unpack('<I', rd.take(4, p + '.count', 'u32', 'count-of'))[0]
            out = []
            for i in range(n):
                if i == 0:
                    out.append(tuple(struct.unpack('<I', rd.take(4, f'{p}[0].{nm}', 'f32', 'float'))[0] for nm in 'xyz'))
                else:
                    out.append(struct.unpack('<I', rd.take(4, f'{p}[{i}]', 'u32', 'packed-spline'))[0])
            return out
        if ty in ('AchievementDoneArray', 'AchievementInProgressArray'):
            inner = s.lookup('AchievementDone' if ty == 'AchievementDoneArray' else 'AchievementInProgress')
            out = []
            while True:
                if rd.pos + 4 > len(rd.b):
                    raise DecodeError(f'{p}: missing sentinel')
                if rd.b[rd.pos:rd.pos + 4] == b'\xff\xff\xff\xff':
                    rd.take(4, p + '.sentinel', 'u32', 'const')
                    return out
                out.append(s._dec_container(inner, rd, f'{p}[{len(out)}].'))
        raise RefError(f'builtin {ty}')

    def _dec_mask(s, rd, p, pw, dec_elem):
        pattern = int.from_bytes(rd.take(pw, p + '.pattern', f'u{pw * 8}', 'mask-pattern'), 'little')
        return [dec_elem(f'{p}[{i}]') if pattern & (1 << i) else None for i in range(pw * 8)]


class _EncState:
    def __init__(s):
        s.out = bytearray()
        s.fmap = []
        s.sig = []
        s.payloads = []
        s.feat = set()

    def row(s, path, width, leaf, role, extra=None):
        r = [path, len(s.out), width, leaf, role]
        if extra:
            r.append(extra)
        s.fmap.append(r)


class _Reader:
    def __init__(s, b):
        s.b, s.pos, s.fmap, s.payloads = bytes(b), 0, [], []

    def raw(s, n):
        if s.pos + n > len(s.b):
            raise DecodeError(f'need {n} bytes at {s.pos}, have {len(s.b) - s.pos}')
        v = s.b[s.pos:s.pos + n]
        s.pos += n
        return v

    def take(s, n, path, leaf, role):
        off = s.pos
        v = s.raw(n)
        s.fmap.append([path, off, n, leaf, role])
        return v

    def cstring(s, path):
        end = s.b.find(b'\0', s.pos)
        if end < 0:
            raise DecodeError(f'{path}: unterminated CString')
        v = s.b[s.pos:end]
        s.fmap.append([path, s.pos, end + 1 - s.pos, 'CString', 'cstring'])
        s.pos = end + 1
        return v
