"""Canonical value generator: draws values of a container that the definition prescribes.

Canonical rules are the conservative ones written down in DESIGN.md 2.1.  `force` maps dotted
member paths (array indices removed) to wire values; `policy` chooses length / string / numeric
classes.  The each-choice planner enumerates every branch alternative, every enumerator of every
if-variable and every single flag bit.
"""
import random, struct
from . import model, codec
from .codec import (definer_values, definer_base, info, walk_defs, member_compressed, RefError,
                    datetime_pack, days_in_month)
from .model import INT_TYPES, ALIASES

FLOAT_POOL = [0x00000000, 0x80000000, 0x3F800000, 0xBF800000, 0x7F800000, 0xFF800000, 0x7F7FFFFF,
              0x00800000, 0x00000001, 0x40490FDB, 0x447A0000, 0xC47A0000]
def _fb(x):
    return struct.unpack('<I', struct.pack('<f', x))[0]


# Population is an f32 with three named values; everything next to them is an ordinary float
POP_POOL = [_fb(v) for v in (200.0, 400.0, 600.0)] + \
           [_fb(v) + d for v in (200.0, 400.0, 600.0) for d in (-1, 1)] + \
           [_fb(v) for v in (200.5, 200.99, 199.5, 400.25, 400.75, 399.999, 600.5, 600.0625, 599.5, -200.0, -400.0, 0.5, 1.5)]
WORDS = [b'', b'a', b'Azeroth', b'Blizzard_AuctionUI', 'Vashj’ir'.encode(), 'König'.encode(),
         b'The quick brown fox', '日本語'.encode(), b'x' * 40]


def strip_idx(path):
    out, depth = [], 0
    for ch in path:
        if ch == '[':
            depth += 1
        elif ch == ']':
            depth -= 1
        elif depth == 0:
            out.append(ch)
    return ''.join(out)


class Policy:
    def __init__(s, arr='rand', string='rand', num='rand', opt='rand', flag='rand', nan=False, big=12):
        s.arr, s.string, s.num, s.opt, s.flag, s.nan, s.big = arr, string, num, opt, flag, nan, big

    def key(s):
        return f'arr={s.arr},str={s.string},num={s.num},opt={s.opt},flag={s.flag}'


class Gen:
    def __init__(s, cdc, rng, force=None, policy=None, budget=6000):
        s.cdc, s.rng, s.force, s.pol = cdc, rng, force or {}, policy or Policy()
        s.budget = budget   # rough cap on generated elements so frames stay small
        s.depth = 0

    # -- helpers ------------------------------------------------------------------------------
    def forced(s, p):
        return s.force.get(strip_idx(p))

    def arr_len(s, p, maxv):
        f = s.forced(p + '#len')
        if f is not None:
            return min(f, maxv)
        a = s.pol.arr
        if s.budget <= 0 or s.depth > 3:
            return 0
        if a == 'rand':
            n = s.rng.choice([0, 1, 1, 2, 2, 3, s.rng.randint(0, s.pol.big)])
        elif a == 'big':
            n = s.rng.randint(3, s.pol.big)
        elif a == 'manysmall':
            n = 1 if s.depth == 1 else s.rng.choice([0, 1])
        elif a in ('lim255', 'lim256'):
            # the top of a u8 count and the first length beyond it (outermost arrays only)
            n = int(a[3:]) if s.depth == 1 else s.rng.choice([0, 1, 2])
        else:
            n = int(a)
        n = min(n, maxv)
        return n

    def text(s, p, maxlen):
        f = s.forced(p)
        if f is not None:
            return f[:maxlen]
        k = s.pol.string
        if k == 'empty':
            return b''
        if k == 'max':
            return bytes(s.rng.choice(b'abcdefghijklmnopqrstuvwxyz ') for _ in range(maxlen))
        t = s.rng.choice(WORDS)
        if s.rng.random() < 0.3:
            t = bytes(s.rng.randint(0x20, 0x7E) for _ in range(s.rng.randint(0, 24)))
        while len(t) > maxlen:   # cut on a UTF-8 boundary
            t = t[:-1]
            try:
                t.decode()
            except UnicodeDecodeError:
                continue
            break
        try:
            t.decode()
        except UnicodeDecodeError:
            t = b''
        return t

    def integer(s, m, p, w, signed):
        f = s.forced(p)
        if f is not None:
            return f & ((1 << 8 * w) - 1)
        lo, hi = 0, (1 << 8 * w) - 1
        for k, v in m['tags']:
            if k == 'valid_range':
                a, b = v.split()
                lo, hi = int(a), int(b)
            elif k == 'valid_values':
                return int(s.rng.choice(v.split()))
        ty = m['ty']
        if ty in ('Level16', 'Level32'):
            hi = min(hi, 255)
        if s.pol.num == 'min':
            return lo
        if s.pol.num == 'max':
            return hi
        r = s.rng.random()
        if r < 0.15:
            return lo
        if r < 0.3:
            return hi
        if r < 0.6:
            return s.rng.randint(lo, min(hi, lo + 300))
        return s.rng.randint(lo, hi)

    def f32(s, p):
        f = s.forced(p)
        if f is not None:
            return f
        if s.pol.nan and s.rng.random() < 0.3:
            return 0x7FC00000
        if s.rng.random() < 0.4:
            return s.rng.choice(FLOAT_POOL)
        while True:
            b = s.rng.getrandbits(32)
            if (b >> 23) & 0xFF != 0xFF:   # finite
                return b

    def datetime(s):
        y = s.rng.randint(0, 255)
        mon = s.rng.randint(0, 11)
        day = s.rng.randint(0, days_in_month(2000 + y, mon) - 1)
        return datetime_pack(y, mon, day, s.rng.randint(0, 23), s.rng.randint(0, 59))

    def definer_value(s, o, p):
        f = s.forced(p)
        if f is not None:
            return f
        dv = definer_values(o)
        if o.kind == 'enum':
            return s.rng.choice(dv)[1]
        bits = sorted({uv for (_, uv, _) in dv})
        if s.pol.flag == 'none':
            return 0
        if s.pol.flag == 'all':
            v = 0
            for b in bits:
                v |= b
            return v
        v = 0
        k = s.rng.choice([0, 1, 1, 2, 3, len(bits)])
        for b in s.rng.sample(bits, min(k, len(bits))):
            v |= b
        return v

    # -- containers ---------------------------------------------------------------------------
    def container(s, c, path=''):
        vals = {}
        s.depth += 1
        s._members(c, c.raw['members'], vals, path)
        s.depth -= 1
        return vals

    def _members(s, c, members, vals, path):
        for m in members:
            k = m['m']
            if k == 'def':
                s._def(c, m, vals, path)
            elif k == 'if':
                idx = codec.branch_taken(m, vals, s.cdc.definer_of_var, c)
                s._members(c, codec.branch_members(m, idx), vals, path)
            elif k == 'optional':
                f = s.forced(path + m['name'])
                if f is None:
                    f = s.rng.random() < 0.5 if s.pol.opt == 'rand' else bool(s.pol.opt)
                vals[m['name']] = bool(f)
                if f:
                    s._members(c, m['members'], vals, path)
            else:
                raise RefError(f'{c.name}: {k}')

    def _def(s, c, m, vals, path):
        name = m['name']
        p = path + name
        if m['value'] == 'self.size':
            vals[name] = 0
            return
        a = m['array']
        inf = info(c)
        if a is None:
            cv = codec.const_value(m)
            if cv is not None:
                w = s.cdc.wire_int(m)[0]
                vals[name] = cv & ((1 << 8 * w) - 1)
                return
            if name in inf.count_of:
                w = s.cdc.wire_int(m)[0]
                if s.pol.arr == 'manysmall' and s.forced(p + '#len') is None and s.forced(p) is None:
                    # thousands of minimal elements where an element may be 1..9 bytes (PackedGuid) and the count has 32 bits: the encoding is
                    # a few KiB, but count x *largest* element size is beyond what any guard may assume
                    elems = [d['ty'] for d in walk_defs(c.raw['members']) if d['array'] == name]
                    vals[name] = 7300 if w == 4 and 'PackedGuid' in elems else (1 if s.depth == 1 else s.rng.choice([0, 1]))
                    return
                vals[name] = s.arr_len(p, (1 << 8 * w) - 1)
                return
            vals[name] = s._scalar(c, m, p)
            return
        if a == '-':
            n = s.arr_len(p, 1 << 30)
            if s._elem_min_size(m) == 0:
                n = 0
        elif a.isdigit() or a.startswith('0x'):
            n = int(a, 0)
        else:
            n = vals[a]
        out = []
        for i in range(n):
            out.append(s._scalar(c, m, f'{p}[{i}]'))
            s.budget -= 1
        vals[name] = out

    def _elem_min_size(s, m):
        return 1

    def _scalar(s, c, m, p):
        ty = m['ty']
        aty = ALIASES.get(ty, ty)
        if aty in INT_TYPES and not m['upcast']:
            w, sg, be = INT_TYPES[aty]
            return s.integer(m, p, w, sg)
        if ty in model.BUILTIN_OTHER:
            return s._builtin(c, m, ty, p)
        o = s.cdc.lookup(ty)
        if o.kind in ('enum', 'flag'):
            return s.definer_value(o, p)
        if o.kind == 'struct':
            return s.container(o, p + '.')
        raise RefError(f'{c.name}.{p}: {ty}')

    def _maxlen(s, m, default):
        for k, v in m['tags']:
            if k == 'maximum_length':
                return min(default, int(v))
        return default

    def _builtin(s, c, m, ty, p):
        r = s.rng
        if ty in ('Bool', 'Bool32'):
            f = s.forced(p)
            return f if f is not None else r.randint(0, 1)
        if ty == 'Population' and s.forced(p) is None and r.random() < 0.6:
            return r.choice(POP_POOL)
        if ty in ('f32', 'Population'):
            return s.f32(p)
        if ty == 'DateTime':
            return s.datetime()
        if ty == 'CString':
            return s.text(p, s._maxlen(m, 255))
        if ty == 'String':
            return s.text(p, s._maxlen(m, 255))
        if ty == 'SizedCString':
            return s.text(p, s._maxlen(m, 1000))
        if ty == 'PackedGuid':
            f = s.forced(p)
            if f is not None:
                return f
            if s.pol.num == 'min':
                return 0                                # one mask byte, nothing else
            if s.pol.num == 'max' or r.random() < 0.15:
                return int.from_bytes(bytes(r.randint(1, 255) for _ in range(8)), 'little')   # full width: mask + 8 bytes
            g = r.getrandbits(64)
            for i in range(8):
                if r.random() < 0.4:
                    g &= ~(0xFF << (8 * i))
            return g
        if ty == 'NamedGuid':
            g = r.choice([0, r.getrandbits(64) | 1])
            return (g, s.text(p + '.name', 255) if g else None)
        if ty == 'VariableItemRandomProperty':
            a = r.choice([0, r.randint(1, 0xFFFFFFFF)])
            return (a, r.getrandbits(32) if a else None)
        if ty == 'CacheMask':
            return s._mask(32, lambda q: r.getrandbits(32))
        if ty == 'EnchantMask':
            return s._mask(16, lambda q: r.getrandbits(16))
        if ty == 'AuraMask':
            if s.cdc.env.version == 'vanilla':
                return s._mask(32, lambda q: r.getrandbits(16))
            aura = s.cdc.lookup('Aura')
            return s._mask(64, lambda q: s.container(aura, q + '.'), p)
        if ty == 'InspectTalentGearMask':
            gear = s.cdc.lookup('InspectTalentGear')
            return s._mask(32, lambda q: s.container(gear, q + '.'), p)
        if ty == 'UpdateMask':
            return s.update_mask()
        if ty == 'MonsterMoveSplines':
            n = s.arr_len(p, 1 << 20)
            out = []
            for i in range(n):
                if i == 0:
                    out.append((s.f32(p), s.f32(p), s.f32(p)))
                else:
                    x, y, z = r.randint(0, 0x7FF) & ~3, r.randint(0, 0x7FF) & ~3, r.randint(0, 0x3FF) & ~3
                    out.append(x | (y << 11) | (z << 22))
            return out
        if ty in ('AchievementDoneArray', 'AchievementInProgressArray'):
            inner = s.cdc.lookup('AchievementDone' if ty == 'AchievementDoneArray' else 'AchievementInProgress')
            n = s.arr_len(p, 1 << 20)
            out = []
            first = [d for d in walk_defs(inner.raw['members'])][0]['name']
            for i in range(n):
                v = s.container(inner, f'{p}[{i}].')
                if v[first] == 0xFFFFFFFF:
                    v[first] = 0xFFFFFFFE   # the sentinel value cannot be a member
                out.append(v)
            return out
        raise RefError(f'{c.name}.{p}: builtin {ty}')

    def _mask(s, n, elem, p=''):
        k = s.pol.arr
        dens = {'rand': s.rng.choice([0.0, 0.1, 0.5, 1.0]), 'big': 1.0, '0': 0.0, 0: 0.0}.get(k, 0.15)
        return [elem(f'{p}[{i}]') if s.rng.random() < dens else None for i in range(n)]

    def update_mask(s):
        r = s.rng
        tyval = r.choice(list(codec.UPDATE_MASK_TYPES))
        n = r.choice([1, 1, 2, 3, 6, 10, r.randint(1, 40)])
        fields = {2: tyval}
        if r.random() < 0.7:
            fields[0] = r.getrandbits(32)
            fields[1] = r.getrandbits(32)
        for _ in range(r.choice([0, 1, 3, 8, 20])):
            fields[r.randrange(0, n * 32)] = r.getrandbits(32)
        # edge patterns of a mask block: only its top bit, only its bottom bit, completely full
        edge = r.random()
        if edge < 0.2:
            b = r.randrange(1, n + 1)
            for i in list(fields):
                if i // 32 == b:
                    del fields[i]
            fields[b * 32 + 31] = r.getrandbits(32)
        elif edge < 0.3:
            b = r.randrange(1, n + 1)
            for i in range(32):
                fields[b * 32 + i] = r.getrandbits(32)
        elif edge < 0.4:
            b = r.randrange(1, n + 1)
            for i in list(fields):
                if i // 32 == b:
                    del fields[i]
            fields[b * 32] = r.getrandbits(32)
        fields[2] = tyval   # OBJECT_FIELD_TYPE selects the object kind: it keeps a declared value (random fills above may have hit index 2)
        # block count: at least as many blocks as the highest field needs; servers size the mask
        # by object type, so trailing (and interior) all-zero blocks are ordinary encodings
        n = max(fields) // 32 + 1
        if r.random() < 0.3:
            n += r.choice([1, 1, 2, 5])
        return (n, fields)


# ---------------------------------------------------------------------------------------------
# each-choice planner

def plan_choices(cdc, c, prefix='', ctx=None, depth=0, seen=None):
    """-> list of force-dicts that together reach every branch alternative, enumerator of every
    if-variable, single flag bit, none and all, plus optional present/absent."""
    plans = []
    ctx = dict(ctx or {})
    seen = seen or ()
    if c.name in seen or depth > 4:
        return plans
    seen = seen + (c.name,)

    def rec(members, ctx):
        for m in members:
            if m['m'] == 'def':
                ty = m['ty']
                if not model.is_builtin(ty):
                    o = cdc.env.lookup(ty)
                    if o is not None and o.kind == 'struct':
                        sub_ctx = dict(ctx)
                        if m['array'] is not None and m['array'] != '-' and not m['array'].isdigit():
                            sub_ctx[prefix + m['array']] = 1   # count member forced through path of count
                            sub_ctx[prefix + m['array'] + '#len'] = 1
                        elif m['array'] == '-':
                            sub_ctx[prefix + m['name'] + '#len'] = 1
                        plans.extend(plan_choices(cdc, o, prefix + m['name'] + '.', sub_ctx, depth + 1, seen))
            elif m['m'] == 'optional':
                plans.append({**ctx, prefix + m['name']: True})
                plans.append({**ctx, prefix + m['name']: False})
                rec(m['members'], {**ctx, prefix + m['name']: True})
            elif m['m'] == 'if':
                var = m['conds'][0][0]
                dv = cdc.definer_of_var(c, var)
                table = definer_values(dv)
                byname = {n: uv for (n, uv, _) in table}
                branches = [m['conds']] + [e['conds'] for e in m['elifs']]
                used = set()
                for conds in branches:
                    for (_, op, e) in conds:
                        used.add(byname[e])
                op = m['conds'][0][1]
                if dv.kind == 'enum':
                    for (n, uv, _) in table:
                        plans.append({**ctx, prefix + var: uv})
                    for bi, conds in enumerate(branches):
                        if op == '!=':
                            other = [uv for (_, uv, _) in table if uv != byname[conds[0][2]]]
                            if other:
                                rec(m['members'], {**ctx, prefix + var: other[0]})
                        else:
                            members = m['members'] if bi == 0 else m['elifs'][bi - 1]['members']
                            rec(members, {**ctx, prefix + var: byname[conds[0][2]]})
                    if m['else']:
                        if op == '!=':
                            rec(m['else'], {**ctx, prefix + var: byname[m['conds'][0][2]]})
                        else:
                            other = [uv for (_, uv, _) in table if uv not in used]
                            if other:
                                rec(m['else'], {**ctx, prefix + var: other[0]})
                else:
                    allbits = 0
                    for (n, uv, _) in table:
                        allbits |= uv
                        plans.append({**ctx, prefix + var: uv})
                    plans.append({**ctx, prefix + var: 0})
                    plans.append({**ctx, prefix + var: allbits})
                    prior = 0
                    for bi, conds in enumerate(branches):
                        members = m['members'] if bi == 0 else m['elifs'][bi - 1]['members']
                        val = byname[conds[0][2]]
                        # reach branch bi: its bit set, earlier branch bits clear
                        base = ctx.get(prefix + var, 0)
                        rec(members, {**ctx, prefix + var: (base | val) & ~prior})
                        for (_, _, e) in conds:
                            prior |= byname[e]
                    if m['else']:
                        rec(m['else'], {**ctx, prefix + var: ctx.get(prefix + var, 0) & ~prior})
    rec(c.raw['members'], ctx)
    # de-duplicate
    out, keys = [], set()
    for p in plans:
        k = tuple(sorted(p.items()))
        if k not in keys:
            keys.add(k)
            out.append(p)
    return out


POLICY_VARIANTS = [
    Policy(arr=0, string='empty', num='min', opt=False, flag='none'),
    Policy(arr=1, string='rand', num='max', opt=True, flag='all'),
    Policy(arr=2, string='rand', num='rand', opt='rand', flag='rand'),
    Policy(arr='big', string='max', num='rand', opt=True, flag='rand'),
    Policy(arr='lim255', string='rand', num='max', opt=True, flag='rand'),     # the largest encoding a u8-counted array can have
    Policy(arr='lim256', string='rand', num='rand', opt=True, flag='rand'),
]


def pair_plans(plans, rng, cap=300):
    """pairwise combinations of single-variable choices (different variables) for deeper tiers"""
    singles = [p for p in plans if len(p) == 1]
    out = []
    for i in range(len(singles)):
        for j in range(i + 1, len(singles)):
            a, b = singles[i], singles[j]
            if list(a)[0] != list(b)[0]:
                out.append({**a, **b})
    if len(out) > cap:
        out = rng.sample(out, cap)
    return out


EXTREME_POLICIES = [
    Policy(arr=0, string='empty', num='min', opt=False, flag='rand'),
    Policy(arr='big', string='max', num='max', opt=True, flag='rand'),
]


def _reaches_u32_counted_packed_guids(cdc, c, depth=0):
    defs = list(walk_defs(c.raw['members']))
    byname = {d['name']: d for d in defs}
    for d in defs:
        a = d['array']
        if d['ty'] == 'PackedGuid' and a in byname and cdc.wire_int(byname[a])[0] == 4:
            return True
        if depth < 3 and not model.is_builtin(d['ty']):
            o = cdc.env.lookup(d['ty'])
            if o is not None and o.kind == 'struct' and _reaches_u32_counted_packed_guids(cdc, o, depth + 1):
                return True
    return False


def vectors_for(cdc, c, seed, k_random, with_choices=True, max_choice=400, extremes=False):
    """Yield (class, vals) canonical values for container c."""
    base = random.Random(f'{seed}:{cdc.env.key}:{c.name}')
    n = 0
    for i, pol in enumerate(POLICY_VARIANTS):
        yield f'policy{i}', Gen(cdc, random.Random(base.getrandbits(64)), policy=pol).container(c)
    if with_choices:
        plans = plan_choices(cdc, c)
        if len(plans) > max_choice:
            plans = base.sample(plans, max_choice)
        for j, f in enumerate(plans):
            yield f'choice{j}', Gen(cdc, random.Random(base.getrandbits(64)), force=f).container(c)
        if extremes or k_random >= 100:
            # every branch alternative with its content at the size extremes (shortest / longest canonical members)
            for j, f in enumerate(plans):
                for e, pol in enumerate(EXTREME_POLICIES):
                    yield f'choice{j}x{e}', Gen(cdc, random.Random(base.getrandbits(64)), force=f, policy=pol).container(c)
        if k_random >= 100:   # thorough tiers
            for j, f in enumerate(pair_plans(plans, base)):
                yield f'pair{j}', Gen(cdc, random.Random(base.getrandbits(64)), force=f).container(c)
    if with_choices and _reaches_u32_counted_packed_guids(cdc, c):
        pol = Policy(arr='manysmall', string='empty', num='min', opt=False, flag='none')
        for j, f in enumerate(plans):
            yield f'choice{j}manysmall', Gen(cdc, random.Random(base.getrandbits(64)), force=f, policy=pol, budget=20000).container(c)
    for j in range(k_random):
        yield f'rand{j}', Gen(cdc, random.Random(base.getrandbits(64))).container(c)
