"""C19: every documented feature combination of the libraries builds, and a codec present in two
configurations behaves identically in both.

Build half  : `cargo check --offline --locked -p <lib> --no-default-features --features <set>` from the
              current working tree of the repository (compiler as oracle), one private target dir per
              worker (reused across configurations, removed at the end).
Behaviour   : codec_driver built against the libraries in several feature sets; the same canonical
half          vector file is pushed through each build and the event logs (minus allocation statistics)
              of the codecs present in both builds must be equal line for line.
"""
import atexit, glob, itertools, json, os, random, re, shutil, signal, subprocess, sys, threading, time, tomllib
from lib import common

# canonical order of the documented features (anything else found in the manifest is appended)
ORDER = {
    'wow_login_messages': ['sync', 'tokio', 'async-std'],
    'wow_world_base': ['extended', 'vanilla', 'tbc', 'wrath', 'shared', 'print-testcase', 'serde', 'chrono'],
    'wow_world_messages': ['sync', 'tokio', 'async-std', 'vanilla', 'tbc', 'wrath', 'encryption', 'print-testcase', 'chrono'],
}
# implicit features of optional dependencies that are an implementation detail of a documented feature
IGNORED = {'wow_world_messages': {'wow_srp'}}
# thorough: full powerset of MAIN[lib]; the remaining features are toggled across it by a parity design
MAIN = {'wow_login_messages': 3, 'wow_world_base': 8, 'wow_world_messages': 8}
EXPANSIONS = ('vanilla', 'tbc', 'wrath')
FLAVOURS = ('sync', 'tokio', 'async-std')

C19_DIR = os.path.join(common.BUILD, 'c19')
_mydirs = []

INFRA_PAT = re.compile(
    r'No space left on device|os error 28|signal: 9|SIGKILL|signal: 15|SIGTERM|out of memory|memory allocation of|'
    r'failed to download|failed to select a version|no matching package named|unable to update registry|'
    r"can't be found offline|attempting to make an HTTP request|lock file .* needs to be updated|"
    r'failed to open|failed to create directory|failed to write|Blocking waiting for file lock.*timed out|'
    r'Permission denied|failed to parse manifest|failed to load manifest|failed to read', re.I)


# ------------------------------------------------------------------------------------------------
# private target dirs

def _cleanup():
    for d in list(_mydirs):
        shutil.rmtree(d, ignore_errors=True)
    try:
        os.rmdir(C19_DIR)
    except OSError:
        pass


def _sweep_stale():
    for d in glob.glob(os.path.join(C19_DIR, '*')):
        m = re.match(r'(\d+)-', os.path.basename(d))
        if not m or not os.path.exists(f'/proc/{m.group(1)}'):
            shutil.rmtree(d, ignore_errors=True)


def _newdir(tag):
    d = os.path.join(C19_DIR, f'{os.getpid()}-{tag}')
    os.makedirs(d, exist_ok=True)
    if d not in _mydirs:
        _mydirs.append(d)
    return d


def _install_cleanup():
    atexit.register(_cleanup)

    def bye(signum, frame):
        sys.exit(2)                 # runs the atexit handlers
    for s in (signal.SIGTERM, signal.SIGHUP):
        try:
            signal.signal(s, bye)
        except (ValueError, OSError):
            pass


def tree_fingerprint():
    """(path, size, mtime) digest of everything the three libraries are compiled from"""
    import hashlib
    h = hashlib.sha1()
    roots = [os.path.join(common.REPO, 'Cargo.toml'), os.path.join(common.REPO, 'Cargo.lock')]
    for lib in ORDER:
        roots += [os.path.join(common.REPO, lib, 'Cargo.toml'), os.path.join(common.REPO, lib, 'src')]
    for r in roots:
        files = [r] if not os.path.isdir(r) else sorted(os.path.join(d, f) for d, _, fs in os.walk(r) for f in fs)
        for p in files:
            try:
                st = os.stat(p)
                h.update(f'{p}\0{st.st_size}\0{st.st_mtime_ns}\n'.encode())
            except OSError:
                h.update(f'{p}\0missing\n'.encode())
    return h.hexdigest()


# ------------------------------------------------------------------------------------------------
# configuration enumeration

def lib_features(lib):
    """documented cargo features of a library, read from the manifest of the current tree"""
    with open(os.path.join(common.REPO, lib, 'Cargo.toml'), 'rb') as f:
        m = tomllib.load(f)
    table = m.get('features', {})
    feats = [k for k in table if k != 'default']
    used_dep = {x[4:] for v in table.values() for x in v if x.startswith('dep:')}
    for dep, spec in m.get('dependencies', {}).items():
        if isinstance(spec, dict) and spec.get('optional') and dep not in used_dep and dep not in feats:
            feats.append(dep)
    feats = [f for f in feats if f not in IGNORED.get(lib, ())]
    order = ORDER[lib]
    feats.sort(key=lambda f: (order.index(f) if f in order else len(order), f))
    return feats, list(table.get('default', []))


def documented_features(lib):
    """feature names the crate documentation tells users to enable: the bullet list under 'following features'
    in src/lib.rs and the `cargo add --features '...'` lines of src/lib.rs and README.md -> {name: where}"""
    found = {}
    for rel in ('src/lib.rs', 'README.md'):
        try:
            with open(os.path.join(common.REPO, lib, rel), encoding='utf8', errors='replace') as f:
                lines = f.read().splitlines()
        except OSError:
            continue
        in_list = False
        for i, line in enumerate(lines):
            if rel.endswith('.rs'):
                if not line.startswith('//!'):
                    continue
                line = line[3:]
            if 'following features' in line:
                in_list = True
                continue
            if in_list and line.strip().startswith('#'):
                in_list = False
            m = re.match(r'\s*\*\s+`([A-Za-z0-9_-]+)`', line)
            if in_list and m:
                found.setdefault(m.group(1), f'{lib}/{rel}:{i + 1}')
            if 'cargo add' in line:
                m = re.search(r"--features[ =]+'([^']+)'|--features[ =]+\"([^\"]+)\"", line)
                if m:
                    for name in re.split(r'[ ,]+', (m.group(1) or m.group(2)).strip()):
                        if name:
                            found.setdefault(name, f'{lib}/{rel}:{i + 1}')
    return found


def covering(n, t, seedrows=()):
    """greedy t-wise covering array over n binary factors (deterministic)"""
    t = min(t, n)
    combos = list(itertools.combinations(range(n), t))

    def cov(r):
        return {(idx, tuple(r[i] for i in idx)) for idx in combos}
    need = {(idx, vals) for idx in combos for vals in itertools.product((0, 1), repeat=t)}
    rows = []
    for r in seedrows:
        rows.append(tuple(r))
        need -= cov(r)
    allrows = list(itertools.product((0, 1), repeat=n))
    covs = {r: cov(r) for r in allrows} if n <= 10 else None
    while need:
        best = max(allrows, key=lambda r: len((covs[r] if covs else cov(r)) & need))
        rows.append(best)
        need -= covs[best] if covs else cov(best)
    return rows


def enumerate_configs(lib, feats, tier, rng):
    """-> (list of feature tuples, description of what is covered)"""
    n = len(feats)
    out = []

    def add(bits):
        c = tuple(f for f, b in zip(feats, bits) if b)
        if c not in out:
            out.append(c)
    if tier == 'thorough':
        nm = min(MAIN[lib], n)
        if os.environ.get('VERIF_C19_FULL'):
            nm = n
        for bits in itertools.product((0, 1), repeat=nm):
            extra = [(sum(bits) + j) & 1 for j in range(n - nm)]
            add(tuple(bits) + tuple(extra))
        what = f'full powerset of {{{", ".join(feats[:nm])}}} = {2 ** nm}'
        if n > nm:
            what += f'; {{{", ".join(feats[nm:])}}} not crossed exhaustively: toggled by the parity of the other bits (so each is seen on and off with every setting of any {nm - 1} of the other features)'
        else:
            what += ' (exhaustive over the documented features)'
        return out, what
    if n <= 3:
        for bits in itertools.product((0, 1), repeat=n):
            add(bits)
        return out, f'full powerset of {{{", ".join(feats)}}} = {2 ** n} (exhaustive)'
    rows = covering(n, 3, [tuple([1] * n), tuple([0] * n)])
    for r in rows:
        add(r)
    n3 = len(out)
    for i in range(n):                                   # every feature alone
        add(tuple(1 if j == i else 0 for j in range(n)))
    n1 = len(out)
    if lib == 'wow_world_messages':                      # every flavour x expansion pair, nothing else
        for fl in FLAVOURS:
            for ex in EXPANSIONS:
                if fl in feats and ex in feats:
                    add(tuple(1 if f in (fl, ex) else 0 for f in feats))
    nfix = len(out)
    tries = 0
    while len(out) < nfix + 4 and tries < 100:           # seeded random extras
        tries += 1
        add(tuple(rng.randrange(2) for _ in range(n)))
    return out, (f'NOT exhaustive: greedy 3-wise covering array ({n3} rows: every on/off setting of every 3 of the {n} features), '
                 f'each feature alone (+{n1 - n3} sets), every single flavour with every single expansion (+{nfix - n1} sets), {len(out) - nfix} seeded random sets; {len(out)} of {2 ** n}')


def est(lib, feats):
    """(rough seconds, rough GB) used only for scheduling"""
    ne = sum(1 for f in feats if f in EXPANSIONS)
    nf = sum(1 for f in feats if f in FLAVOURS)
    pt = 1.3 if 'print-testcase' in feats else 1.0
    if lib == 'wow_world_messages':
        return 3 + ne * (2 + 6 * nf) * pt, 0.4 + 0.2 * ne * (1 + nf) * pt
    if lib == 'wow_world_base':
        return 1 + (ne + (1 if 'shared' in feats else 0)) * 2 * pt * (1.6 if 'serde' in feats else 1) + (12 if 'extended' in feats and ne else 0), 0.3 + 0.3 * ne
    return 2 + 2 * nf, 0.3


# ------------------------------------------------------------------------------------------------
# running cargo

WS = {'manifest': None, 'cwd': None, 'locked': True, 'mode': None}


def _toml(d, prefix=''):
    out, tables = [], []
    for k, v in d.items():
        if isinstance(v, dict):
            tables.append((k, v))
        else:
            out.append(f'{k} = {json.dumps(v)}')
    text = ''
    if out:
        text += (f'[{prefix}]\n' if prefix else '') + '\n'.join(out) + '\n\n'
    for k, v in tables:
        text += _toml(v, f'{prefix}.{k}' if prefix else k)
    return text


def setup_workspace():
    """The libraries are checked inside the repository's own workspace with --locked (nothing in the
    repository can be written).  When its Cargo.lock is missing or stale, a shadow workspace of symlinks
    to the three library directories is used instead, so that cargo writes its lock file there."""
    man = os.path.join(common.REPO, 'Cargo.toml')
    why = 'the repository has no Cargo.lock'
    if os.path.exists(os.path.join(common.REPO, 'Cargo.lock')):
        p = subprocess.run(['cargo', 'metadata', '--offline', '--locked', '--format-version', '1', '--manifest-path', man],
                           env=common.ENV, stdout=subprocess.DEVNULL, stderr=subprocess.PIPE, text=True)
        if p.returncode == 0:
            WS.update(manifest=man, cwd=common.REPO, locked=True, mode='workspace of the repository, --locked')
            return
        why = 'cargo metadata --locked failed in the repository: ' + p.stderr.strip()[-300:]
    d = _newdir('ws')
    with open(man, 'rb') as f:
        m = tomllib.load(f)
    ws = dict(m.get('workspace', {}))
    ws['members'] = list(ORDER)
    ws.pop('exclude', None)
    with open(os.path.join(d, 'Cargo.toml'), 'w') as f:
        f.write(_toml({'workspace': ws}))
    for lib in ORDER:
        if not os.path.islink(os.path.join(d, lib)):
            os.symlink(os.path.join(os.path.realpath(common.REPO), lib), os.path.join(d, lib))
    if os.path.exists(os.path.join(common.REPO, 'Cargo.lock')):
        shutil.copy(os.path.join(common.REPO, 'Cargo.lock'), os.path.join(d, 'Cargo.lock'))
    p = subprocess.run(['cargo', 'metadata', '--offline', '--format-version', '1', '--manifest-path', os.path.join(d, 'Cargo.toml')],
                       env=common.ENV, stdout=subprocess.DEVNULL, stderr=subprocess.PIPE, text=True)
    if p.returncode != 0:
        raise common.Inconclusive(f'no usable workspace for the libraries ({why}); shadow workspace: {p.stderr.strip()[-600:]}')
    WS.update(manifest=os.path.join(d, 'Cargo.toml'), cwd=d, locked=False, mode=f'shadow workspace of symlinks ({why})')
    common.log('[c19] ' + WS['mode'])


def check_cmd(lib, feats, default=False):
    cmd = ['cargo', 'check', '--offline'] + (['--locked'] if WS['locked'] else []) + ['--manifest-path', WS['manifest'], '-p', lib]
    if not default:
        cmd.append('--no-default-features')
        if feats:
            cmd += ['--features', ','.join(feats)]
    return cmd


def driver_cmd(feats):
    return ['cargo', 'build', '--offline', '--no-default-features', '--features', ','.join(('alloc-monitor',) + tuple(feats))]


def error_blocks(stderr):
    """the rustc error diagnostics (without warnings) of a cargo run"""
    blocks, cur = [], None
    for line in stderr.splitlines():
        if re.match(r'error(\[E\d+\])?:', line):
            if cur:
                blocks.append(cur)
            cur = [line]
        elif re.match(r'warning(\[[^\]]*\])?:', line):
            if cur:
                blocks.append(cur)
            cur = None
        elif cur is not None:
            if line.strip() == '' and len(cur) > 1 and cur[-1].strip() == '':
                continue
            cur.append(line)
    if cur:
        blocks.append(cur)
    return ['\n'.join(b).rstrip() for b in blocks]


def classify(rc, stderr):
    """-> ('ok' | 'compile' | 'infra', signature dict or reason)"""
    if rc == 0:
        return 'ok', None
    blocks = error_blocks(stderr)
    if rc == 'timeout':
        return 'infra', 'cargo timed out'
    if isinstance(rc, int) and rc < 0:
        return 'infra', f'cargo killed by signal {-rc}'
    m = re.search(r"error: .*(does not contain (this|these) features?|does not have (the|these) features?|none of the selected packages contains? (this|these) features?)[^\n]*", stderr)
    if m:
        return 'nofeature', m.group(0)[:200]
    if INFRA_PAT.search(stderr):
        return 'infra', (INFRA_PAT.search(stderr).group(0) + ': ' + stderr[-600:])
    m = re.search(r'could not compile `([\w-]+)`', stderr)
    root = os.path.realpath(common.REPO)
    for b in blocks:
        head = b.splitlines()[0]
        if head.startswith('error: could not compile') or head.startswith('error: aborting'):
            continue
        loc = re.search(r'-->\s+(\S+?):(\d+):(\d+)', b)
        if not loc:
            continue
        path = loc.group(1)
        ap = os.path.realpath(path if os.path.isabs(path) else os.path.join(WS['cwd'] or common.REPO, path))
        if not ap.startswith(root + os.sep):
            continue                                      # an error inside a registry crate is not the repository's
        code = re.match(r'error\[(E\d+)\]', head)
        msg = re.sub(r'^error(\[E\d+\])?:\s*', '', head)
        return 'compile', {'crate': m.group(1) if m else None, 'error_code': code.group(1) if code else 'error',
                           'error_file': os.path.relpath(ap, root), 'error_line': int(loc.group(2)), 'error_msg': msg[:160]}
    return 'infra', 'cargo failed without a rustc error located in the repository: ' + stderr[-800:]


def run_cargo(cmd, cwd, target_dir, timeout=1500):
    env = dict(common.ENV)
    env.update({'CARGO_TARGET_DIR': target_dir, 'CARGO_INCREMENTAL': '0', 'WOWM_REPO': common.REPO})
    t0 = time.time()
    try:
        p = subprocess.run(cmd, cwd=cwd, env=env, stdout=subprocess.PIPE, stderr=subprocess.PIPE, text=True, timeout=timeout)
        rc, err = p.returncode, p.stderr
    except subprocess.TimeoutExpired as e:
        rc, err = 'timeout', (e.stderr.decode('utf8', 'replace') if isinstance(e.stderr, bytes) else (e.stderr or ''))
    return rc, err, time.time() - t0


def prune(target_dir, lib):
    """drop the checked library's own metadata (never reused: every configuration has its own hash)"""
    for pat in (f'debug/deps/lib{lib}-*', f'debug/deps/{lib}-*', f'debug/.fingerprint/{lib}-*'):
        for p in glob.glob(os.path.join(target_dir, pat)):
            try:
                shutil.rmtree(p) if os.path.isdir(p) else os.remove(p)
            except OSError:
                pass


class Task:
    def __init__(s, kind, lib, feats, default=False, name=None):
        s.kind, s.lib, s.feats, s.default, s.name = kind, lib, tuple(feats), default, name
        if kind == 'check':
            s.cost, s.mem = est(lib, feats)
        else:
            s.cost, s.mem = 400, 3.0
        s.rc = s.err = s.wall = s.cls = s.sig = s.binary = None
        s.retried = False
        s.documented_at = None

    def label(s):
        if s.kind == 'driver':
            return f'codec_driver[{",".join(s.feats) or "-"}]'
        return f'{s.lib}[{"(default)" if s.default else ",".join(s.feats) or "-"}]'

    def cmd(s):
        return driver_cmd(s.feats) if s.kind == 'driver' else check_cmd(s.lib, s.feats, s.default)

    def run(s, target_dir):
        if s.kind == 'driver':
            cwd = os.path.join(common.HARNESS, 'codec_driver')
            if s.name == 'all':
                # the default build every other check uses (shared target dir)
                try:
                    s.binary = common.cargo_build('codec_driver')
                    s.rc, s.err, s.cls = 0, '', 'ok'
                except common.Inconclusive as e:
                    s.rc, s.err, s.cls, s.sig = 1, str(e), 'infra', str(e)[-800:]
                return
            d = _newdir('drv-' + s.name)
            s.rc, s.err, s.wall = run_cargo(s.cmd(), cwd, d)
            s.binary = os.path.join(d, 'debug', 'codec_driver')
            s.cls = 'ok' if s.rc == 0 and os.path.exists(s.binary) else 'fail'
            # keep only the binary
            for sub in ('deps', 'build', '.fingerprint', 'incremental'):
                shutil.rmtree(os.path.join(d, 'debug', sub), ignore_errors=True)
            return
        s.rc, s.err, s.wall = run_cargo(s.cmd(), WS['cwd'], target_dir)
        s.cls, s.sig = classify(s.rc, s.err)
        prune(target_dir, s.lib)


def mem_budget_gb():
    try:
        with open('/proc/meminfo') as f:
            for line in f:
                if line.startswith('MemAvailable'):
                    return max(4.0, int(line.split()[1]) / 1048576 * 0.6)
    except OSError:
        pass
    return 16.0


def run_pool(tasks, nworkers):
    pending = sorted(tasks, key=lambda t: -t.cost)
    budget = mem_budget_gb()
    st = {'mem': 0.0, 'running': 0, 'done': 0}
    cv = threading.Condition()
    total = len(pending)
    t00 = time.time()

    def worker(k):
        d = _newdir(str(k))
        while True:
            with cv:
                while True:
                    if not pending:
                        return
                    i = next((i for i, t in enumerate(pending) if st['running'] == 0 or st['mem'] + t.mem <= budget), None)
                    if i is not None:
                        t = pending.pop(i)
                        st['mem'] += t.mem
                        st['running'] += 1
                        break
                    cv.wait(5)
            t0 = time.time()
            try:
                t.run(d)
            except Exception as e:                      # never lose a task silently
                t.rc, t.err, t.cls, t.sig = 1, repr(e), 'infra', 'checker error: ' + repr(e)
            t.wall = t.wall if t.wall is not None else time.time() - t0
            with cv:
                st['mem'] -= t.mem
                st['running'] -= 1
                st['done'] += 1
                if t.cls != 'ok' or st['done'] % 25 == 0 or st['done'] == total:
                    common.log(f'[c19] {st["done"]}/{total} {t.label()} -> {t.cls} in {t.wall:.1f}s (t+{time.time() - t00:.0f}s)')
                cv.notify_all()
    ths = [threading.Thread(target=worker, args=(k,), daemon=True) for k in range(nworkers)]
    for th in ths:
        th.start()
    for th in ths:
        th.join()


# ------------------------------------------------------------------------------------------------
# judging the build half

def minimal_condition(feats, failing, passing):
    """smallest conjunction of feature literals true of every failing set and of no passing set"""
    lits = [(f, v) for f in feats for v in (True, False)]

    def holds(c, s):
        return all((f in s) == v for f, v in c)
    for k in range(1, 5):
        best = None
        for c in itertools.combinations(lits, k):
            if len({f for f, _ in c}) < k:
                continue
            if all(holds(c, s) for s in failing) and not any(holds(c, s) for s in passing):
                score = sum(1 for _, v in c if not v)
                if best is None or score < best[0]:
                    best = (score, c)
        if best:
            return ' & '.join((f if v else '!' + f) for f, v in best[1])
    return None


def judge_builds(chk, tasks, feats_of, condition=None):
    for lib in ORDER:
        mine = [t for t in tasks if t.kind == 'check' and t.lib == lib]
        passing = [set(t.feats) for t in mine if t.cls == 'ok' and not t.default]
        groups = {}
        shown = max((t for t in mine if t.cls == 'ok'), key=lambda t: t.wall or 0, default=None)
        for t in mine:
            if t.cls == 'ok':
                chk.count('build_ok')
                chk.ok(('build', lib, t.eff), sample={'library': lib, 'features': list(t.feats), 'default_configuration': t.default,
                                                      'command': ' '.join(t.cmd()), 'cargo_check_exit': 0,
                                                      'wall_s': round(t.wall, 1)} if t is shown else None)
            elif t.cls == 'infra':
                chk.count('build_infra')
                chk.inconclusive.append(f'{t.label()}: {str(t.sig)[:300]}')
            elif t.cls == 'nofeature':
                obs = {'check': 'documented-feature', 'library': lib, 'feature': ','.join(t.feats),
                       'error_msg': re.sub(r"'[^']*'", "'<pkg>'", str(t.sig))[:120]}
                r = chk.violation(obs, {'kind': 'build', 'library': lib, 'features': list(t.feats), 'default_configuration': False,
                                        'documented_at': t.documented_at, 'command': ' '.join(t.cmd()), 'exit': t.rc,
                                        'diagnostics': (t.err or '')[-2000:], 'rerun': 'python3 check.py C19 --replay <this file>'})
                chk.count('documented_feature_' + r)
            else:
                groups.setdefault((t.sig['error_code'], t.sig['error_file'], t.sig['error_msg']), []).append(t)
        for (code, file, msg), ts in groups.items():
            ts.sort(key=lambda t: (len(t.feats), t.feats))
            cond = condition or minimal_condition(feats_of[lib], [set(t.feats) for t in ts if not t.default] or [set(ts[0].eff)], passing)
            t = ts[0]
            chk.reported = getattr(chk, 'reported', set()) | {(code, file, msg)}
            obs = {'check': 'build', 'library': lib, 'error_code': code, 'error_file': file, 'error_msg': msg,
                   'condition': cond or ('exactly ' + ','.join(t.feats))}
            r = chk.violation(obs, {
                'kind': 'build', 'library': lib, 'features': list(t.feats), 'default_configuration': t.default,
                'command': ' '.join(t.cmd()) + '   (cwd = repository root, CARGO_TARGET_DIR = a private directory)',
                'exit': t.rc, 'diagnostics': '\n\n'.join(error_blocks(t.err))[:12000],
                'failing_feature_sets': [','.join(x.feats) or '(none)' for x in ts][:80], 'n_failing_feature_sets': len(ts),
                'smallest_condition_separating_failing_from_passing_sets_checked': cond,
                'rerun': 'python3 check.py C19 --replay <this file>'})
            chk.count('build_' + r, len(ts))
            chk.evaluations += len(ts) - 1


# ------------------------------------------------------------------------------------------------
# behaviour half

def driver_configs(tier):
    """(name, codec_driver features).  'all' is the default build used by every other check."""
    q = [('all', ('vanilla', 'tbc', 'wrath', 'encryption')),
         ('vanilla-noenc', ('vanilla',)),
         ('tbc-wrath-async', ('tbc', 'wrath', 'encryption', 'tokio', 'async-std'))]
    if tier == 'quick':
        return q
    return q + [('tbc-noenc', ('tbc',)),
                ('wrath-noenc', ('wrath',)),
                ('vanilla-enc', ('vanilla', 'encryption')),
                ('wrath-enc', ('wrath', 'encryption')),
                ('allexp-noenc', ('vanilla', 'tbc', 'wrath')),
                ('vanilla-tokio', ('vanilla', 'tokio')),
                ('login-only', ()),
                ('everything', ('vanilla', 'tbc', 'wrath', 'encryption', 'tokio', 'async-std', 'print-testcase', 'chrono', 'base-extended'))]


VOLATILE = ('alloc_max', 'alloc_peak')


def strip(e):
    if not isinstance(e, dict):
        return e
    return {k: strip(v) for k, v in e.items() if k not in VOLATILE}


def present(v, feats):
    return v['family'] == 'login' or v['version'] in feats


def compare(chk, vectors, ref, other, stats):
    """ref/other: (name, feats, events)"""
    rname, rfeats, rev = ref
    oname, ofeats, oev = other
    n_cmp = n_noapi = n_skip = n_okres = 0
    clean = True
    for v in vectors:
        a, b = rev.get(v['id']), oev.get(v['id'])
        if a is None or b is None:
            stats['missing'] = stats.get('missing', 0) + 1
            continue
        if not present(v, ofeats):
            if b.get('result') == 'noapi':
                n_noapi += 1
                chk.ok()
            else:
                clean = False
                r = chk.violation({'check': 'behaviour', 'reason': 'codec of a disabled expansion answered', 'config': oname,
                                   'family': v['family'], 'version': v['version']},
                                  {'kind': 'behaviour', 'vector': v, 'ref': {'name': rname, 'features': list(rfeats), 'event': a},
                                   'other': {'name': oname, 'features': list(ofeats), 'event': b},
                                   'rerun': 'python3 check.py C19 --replay <this file>'})
                chk.count('behaviour_' + r)
            continue
        if not present(v, rfeats):
            continue
        if 'timeout' in (a.get('result'), b.get('result')):
            n_skip += 1
            continue
        sa, sb = strip(a), strip(b)
        if a.get('result') == 'abort' and b.get('result') == 'abort':
            sa = sb = None
        n_cmp += 1
        if sa == sb:
            if a.get('result') == 'ok':
                n_okres += 1
            chk.ok(sample={'vector': v['id'], 'builds': [rname + ' = ' + ','.join(rfeats), oname + ' = ' + ','.join(ofeats)],
                           'identical_event': {k: str(x)[:80] for k, x in (sa or {'result': 'abort'}).items()}}
                   if n_okres == 1 and a.get('result') == 'ok' and oname != 'vanilla-noenc' else None)
        else:
            clean = False
            keys = sorted(k for k in set(sa) | set(sb) if sa.get(k) != sb.get(k))
            r = chk.violation({'check': 'behaviour', 'reason': 'events differ', 'config': oname, 'ref': rname, 'family': v['family'],
                               'version': v['version'], 'dir': v['dir'], 'object': v['object'], 'diff_keys': ','.join(keys)},
                              {'kind': 'behaviour', 'vector': v, 'diff_keys': keys,
                               'ref': {'name': rname, 'features': list(rfeats), 'event': a},
                               'other': {'name': oname, 'features': list(ofeats), 'event': b},
                               'rerun': 'python3 check.py C19 --replay <this file>'})
            chk.count('behaviour_' + r)
    stats['configs'].append({'config': oname, 'features': list(ofeats), 'reference': rname, 'event_lines_compared': n_cmp,
                             'of_which_result_ok': n_okres, 'noapi_for_disabled_expansion': n_noapi, 'skipped_timeouts': n_skip,
                             'identical': clean})
    stats['lines'] += n_cmp
    return clean


def malformed(vectors, rng):
    """'behaves identically' includes what a codec answers to malformed input: count / length leaves at boundary values, enum / bool / string
    leaves out of range and a few truncations of one small vector per (flavour, direction, object, kind of policy)"""
    from ref import faults
    out, seen = [], set()
    for v in vectors:
        if v.get('class') != 'canonical' or v.get('kind') not in ('policy1', 'policy3') or len(v['hex']) > 2 * 2048:
            continue
        cases = [(sfx, f) for sfx, f in faults.count_faults(v)] + [(sfx, f) for sfx, f in faults.domain_faults(v, rng) if sfx.startswith(('ones@', 'ff@'))]
        tr = list(faults.truncations(v))
        cases += tr[:1] + tr[len(tr) // 2:len(tr) // 2 + 1] + tr[-1:]
        for sfx, f in cases:
            fid = f"{v['id']}!{sfx}"
            if fid in seen:
                continue
            seen.add(fid)
            out.append({'id': fid, 'family': v['family'], 'version': v['version'], 'dir': v['dir'], 'object': v['object'], 'hex': f.hex(),
                        'class': 'malformed', 'kind': sfx.split('@')[0]})
    return out


def run_behaviour(chk, vectors, dtasks, only_ids=None):
    from monitors import vecs as V
    stats = {'configs': [], 'lines': 0}
    rows = [V.driver_row(v) for v in vectors]
    evs = {}
    for t in dtasks:
        if t.cls != 'ok':
            continue
        evs[t.name] = common.run_driver(t.binary, rows, 'c19-' + t.name, timeout=30)
    ref = next((t for t in dtasks if t.name == 'all'), None)
    if ref is None or ref.name not in evs:
        chk.inconclusive.append('reference build of codec_driver (default features) not available')
        return stats
    n_ok = sum(1 for e in evs['all'].values() if e.get('result') == 'ok')
    if n_ok < max(1, len(vectors) // 4):
        chk.inconclusive.append(f'reference driver decoded only {n_ok} of {len(vectors)} vectors')
    for t in dtasks:
        if t.name == 'all' or t.name not in evs:
            continue
        if compare(chk, vectors, ('all', ref.feats, evs['all']), (t.name, t.feats, evs[t.name]), stats):
            chk.distinct.add(('driver', t.feats))
    chk.distinct.add(('driver', ref.feats))
    if stats.get('missing'):
        chk.inconclusive.append(f'{stats["missing"]} vectors without an event in one of the builds')
    return stats


def judge_driver_builds(chk, dtasks):
    """A codec_driver variant that does not build: the libraries' fault if the diagnostics are in the
    repository, otherwise trouble with the harness."""
    for t in dtasks:
        if t.cls == 'ok':
            continue
        if t.cls == 'infra':
            chk.inconclusive.append(f'{t.label()} does not build: {str(t.sig)[:400]}')
            continue
        cls, sig = classify(t.rc, t.err)
        if cls == 'compile' and (sig['error_code'], sig['error_file'], sig['error_msg']) in getattr(chk, 'reported', ()):
            chk.count('driver_build_failed_for_a_reported_library_error')     # same defect, already a violation of the build half
        elif cls == 'compile':
            lib = sig['error_file'].split(os.sep)[0]
            obs = {'check': 'build', 'library': lib, 'error_code': sig['error_code'], 'error_file': sig['error_file'],
                   'error_msg': sig['error_msg'], 'condition': 'codec_driver ' + ','.join(t.feats)}
            r = chk.violation(obs, {'kind': 'driver-build', 'features': list(t.feats), 'command': ' '.join(t.cmd()),
                                    'diagnostics': '\n\n'.join(error_blocks(t.err))[:12000]})
            chk.count('build_' + r)
        else:
            chk.inconclusive.append(f'{t.label()} does not build (harness): {(t.err or "")[-600:]}')


# ------------------------------------------------------------------------------------------------

def replay_run(chk, rp):
    nw = 1
    if rp.get('kind') == 'build':
        lib = rp['library']
        feats_of = {lib: lib_features(lib)[0]}
        t = Task('check', lib, rp['features'], default=rp.get('default_configuration', False))
        t.eff = tuple(sorted(t.feats))
        t.documented_at = rp.get('documented_at')
        run_pool([t], nw)
        if t.cls == 'compile':
            common.log('\n\n'.join(error_blocks(t.err))[:4000])
        judge_builds(chk, [t], feats_of, condition=(rp.get('observation') or {}).get('condition'))
        chk.distinct.add(('replay',))
        return
    if rp.get('kind') == 'behaviour':
        v = rp['vector']
        ts = [Task('driver', None, rp['ref']['features'], name='all' if rp['ref']['name'] == 'all' else rp['ref']['name']),
              Task('driver', None, rp['other']['features'], name=rp['other']['name'])]
        run_pool(ts, 2)
        judge_driver_builds(chk, ts)
        ts[0].name = 'all'                      # reference role
        st = run_behaviour(chk, [v], ts)
        common.log(json.dumps(st['configs']))
        chk.distinct.add(('replay',))
        return
    raise common.Inconclusive('replay file of unknown kind (driver-build replays: run the recorded command)')


def run(tier, replay=None):
    chk = common.Check('C19', tier, 'exploration',
                       'build half: cargo check --offline --locked of each library from the current tree, once per feature set '
                       '(--no-default-features --features <set>, plus the plain default configuration), exit status judged; '
                       'behaviour half: codec_driver built against several feature sets, same canonical vectors through each build, '
                       'event logs (minus alloc_max/alloc_peak) of codecs present in both builds compared line by line with the '
                       'default build; distinct = feature sets actually built (library or driver, features)')
    _install_cleanup()
    os.makedirs(C19_DIR, exist_ok=True)
    _sweep_stale()
    setup_workspace()
    if replay:
        replay_run(chk, json.load(open(replay)))
        return chk.finish()

    rng = random.Random(common.seed() * 7919 + 19)
    tasks, feats_of, covered, documented = [], {}, {}, {}
    for lib in ORDER:
        feats, default = lib_features(lib)
        feats_of[lib] = feats
        configs, what = enumerate_configs(lib, feats, tier, rng)
        covered[lib] = what
        for c in configs:
            t = Task('check', lib, c)
            t.eff = tuple(sorted(c))
            tasks.append(t)
        t = Task('check', lib, default, default=True)
        t.eff = tuple(sorted(default))
        tasks.append(t)
        docs = documented_features(lib)
        documented[lib] = sorted(docs)
        for name, where in sorted(docs.items()):
            if name not in feats and name not in IGNORED.get(lib, ()):
                # documented, but not a feature of the manifest: let cargo say what happens when a user follows the documentation
                t = Task('check', lib, (name,))
                t.eff = (name,)
                t.documented_at = where
                tasks.append(t)
    dtasks = [Task('driver', None, f, name=n) for n, f in driver_configs(tier)]

    # the vectors first (multiprocessing must not fork while the worker threads run)
    from monitors import vecs as V
    corpus, sv, vectors, vstats = V.build(tier, k=2 if tier == 'quick' else 3)

    fp0 = tree_fingerprint()
    nworkers = max(2, min(16, common.NCPU))
    t0 = time.time()
    run_pool(dtasks + tasks, nworkers)
    # one retry, alone, for anything that looked like infrastructure trouble
    again = [t for t in tasks if t.cls == 'infra']
    if again and len(again) <= 20:
        for t in again:
            t.retried = True
        run_pool(again, 2)
    moved = tree_fingerprint() != fp0
    if moved:
        # somebody edited the libraries while they were being compiled: failures may be half-written states
        again = [t for t in tasks if t.cls == 'compile'][:40]
        for t in again:
            t.retried = True
        run_pool(again, min(nworkers, 8))
        chk.inconclusive.append('the sources of the libraries changed while the configurations were being built; '
                                'the builds refer to different states of the tree (behaviour comparison skipped). Run again on a quiet tree')
    build_wall = time.time() - t0
    judge_builds(chk, tasks, feats_of)
    if moved:
        bstats = {'configs': [], 'lines': 0, 'skipped': 'tree changed during the run'}
    else:
        judge_driver_builds(chk, dtasks)
        nmal = malformed(vectors, random.Random(common.seed() * 31 + 19))
        bstats = run_behaviour(chk, vectors + nmal, dtasks)
        bstats['malformed_inputs'] = len(nmal)
        if tree_fingerprint() != fp0:
            chk.inconclusive.append('the sources of the libraries changed during the run')

    per_lib = {}
    for lib in ORDER:
        mine = [t for t in tasks if t.lib == lib]
        per_lib[lib] = {'features': feats_of[lib], 'configurations_checked': len(mine),
                        'distinct_feature_sets': len({t.eff for t in mine}),
                        'built': sum(1 for t in mine if t.cls == 'ok'), 'compile_errors': sum(1 for t in mine if t.cls == 'compile'),
                        'undecided': sum(1 for t in mine if t.cls == 'infra'), 'documented_but_unknown_to_cargo': [','.join(t.feats) for t in mine if t.cls == 'nofeature'],
                        'cargo_seconds_total': round(sum(t.wall or 0 for t in mine), 1),
                        'cargo_seconds_max': round(max((t.wall or 0) for t in mine), 1),
                        'covered': covered[lib], 'features_named_in_documentation': documented[lib]}
    chk.extra['exhaustive'] = all('NOT exhaustive' not in covered[lib] and 'not crossed' not in covered[lib] for lib in ORDER)
    chk.extra['build_half'] = {
        'per_library': per_lib, 'workers': nworkers, 'wall_s': round(build_wall, 1), 'workspace': WS['mode'],
        'excluded_implicit_features': {k: sorted(v) for k, v in IGNORED.items()},
        'configurations': [{'library': t.lib, 'features': ','.join(t.feats) if not t.default else '(default) ' + ','.join(t.feats),
                            'result': t.cls, 'wall_s': round(t.wall or 0, 1), **({'retried': True} if t.retried else {})} for t in tasks]}
    chk.extra['behaviour_half'] = {
        'vectors': len(vectors), 'event_lines_compared': bstats['lines'], 'comparisons': bstats['configs'],
        'driver_builds': [{'config': t.name, 'features': list(t.feats), 'result': t.cls, 'build_s': round(t.wall or 0, 1)} for t in dtasks]}
    chk.assumptions += ['a feature set "builds" when cargo check (type checking and borrow checking of the library, no code generation) exits 0',
                        'the implicit feature wow_srp of wow_world_messages (optional dependency behind encryption/tbc/wrath) is not toggled on its own',
                        'codec_driver always enables the sync codecs (it calls only those); tokio/async-std are additional features of the libraries it is linked with',
                        'W.stream/W.build rows are not part of the differential input (they need the encryption API); only opcode-enum read/write round trips are compared']
    return chk.finish()
