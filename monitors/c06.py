"""C06: blocking, tokio and async-std variants agree under every stream chunking.

Workload: reference-model vectors (canonical + malformed/truncated variants) x delivery schedules (all 2^(n-1)
chunkings of short inputs, every single split point / byte-at-a-time for longer ones, seeded random chunkings
with random runs of Poll::Pending).  The async readers are polled against harness/async_driver's ScriptedReader by a
runtime-free executor; the oracle is the blocking reader of the same entry point on the whole buffer.
"""
import json, random, itertools
from lib import common
from monitors import vecs as V, seqs as S
from ref import faults

KEY = '00112233445566778899aabbccddeeff00112233445566778899aabbccddeeff0011223344556677'
LOGIN_ENVS = [f'login:{n}' for n in (2, 3, 5, 6, 7, 8)]
WORLD_ENVS = ['world:vanilla', 'world:tbc', 'world:wrath']
INITIAL = ('CMD_AUTH_LOGON_CHALLENGE_Client', 'CMD_AUTH_RECONNECT_CHALLENGE_Client')
EXHAUSTIVE_MAX = 12

# ------------------------------------------------------------------------------------------------
# schedules (text form of harness/async_driver/src/io.rs)

_comp_cache = {}


def compositions(n):
    """all 2^(n-1) ways to deliver n bytes in chunks"""
    if n in _comp_cache:
        return _comp_cache[n]
    out = []
    if n <= 0:
        out = ['w']
    else:
        for mask in range(1 << (n - 1)):
            parts, run = [], 1
            for i in range(n - 1):
                if mask >> i & 1:
                    parts.append(run)
                    run = 1
                else:
                    run += 1
            parts.append(run)
            out.append(','.join(map(str, parts)))
    _comp_cache[n] = out
    return out


def split_points(n, marks, cap):
    """split positions for a long input: everything when affordable, else field boundaries +-1, both ends and an even sample"""
    if n - 1 <= cap:
        return list(range(1, n))
    pts = set()
    for m in marks:
        for d in (-1, 0, 1):
            if 0 < m + d < n:
                pts.add(m + d)
    pts |= set(range(1, min(n, 17))) | set(range(max(1, n - 8), n))
    pts = sorted(pts)
    if len(pts) > cap:
        step = len(pts) / cap
        pts = sorted({pts[int(i * step)] for i in range(cap)})
    else:
        step = max(1, n // (cap - len(pts) + 1))
        pts = sorted(set(pts) | set(range(step, n, step)))
    return pts


def enumerated(n, marks, cap):
    """the seed-independent part of the schedule set for an n byte input"""
    if n <= EXHAUSTIVE_MAX:
        return list(compositions(n))
    out = ['w', f'1x{n}' if n <= 8192 else f'1x64,{n - 64 - 7},1x7']
    out += [str(k) for k in split_points(n, marks, cap)]
    out += [f'2x{n // 2 + 1}', f'1,3x{n // 3 + 1}']
    return out


def random_schedule(n, rng):
    """random chunking of n bytes with random Pending runs (also before the first byte and before EOF)"""
    items = []
    left = n
    style = rng.random()
    while left > 0:
        if rng.random() < 0.3:
            items.append('P' if rng.random() < 0.5 else f'P{rng.randint(2, 4)}')
        if style < 0.3:
            k = rng.randint(1, 3)
        elif style < 0.7:
            k = rng.choice([1, 1, 2, 3, 4, 5, 7, 8, 16, rng.randint(1, max(1, left))])
        else:
            k = rng.randint(1, max(1, left))
        k = min(k, left)
        items.append(str(k))
        left -= k
    if rng.random() < 0.3:
        items.append('P' if rng.random() < 0.6 else f'P{rng.randint(2, 3)}')   # Pending before the reader sees EOF / the end
    return ','.join(items) if items else 'P'


def sched_stats(s):
    p = 0
    for t in s.split(','):
        if t.startswith('P'):
            p += int(t[1:] or 1)
    return p


# ------------------------------------------------------------------------------------------------
# workload

def uniq(vectors):
    seen, out = set(), []
    for v in vectors:
        k = (v['family'], v['version'], v['dir'], v['object'], v['hex'])
        if k not in seen:
            seen.add(k)
            out.append(v)
    return out


def marks_of(v):
    return sorted({r[1] for r in v.get('fmap') or []} | {v.get('hdr', 0)})


def login_variants(v, rng, tier):
    """malformed / truncated variants of a canonical login vector -> (class, suffix, frame)"""
    frame = bytes.fromhex(v['hex'])
    n = len(frame)
    marks = marks_of(v)
    cuts = set(range(0, n)) if n <= (48 if tier == 'quick' else 160) else ({m + d for m in marks for d in (-1, 0, 1)} | set(range(0, 6)) | {n - 1, n - 2})
    for c in sorted(x for x in cuts if 0 <= x < n):
        yield 'eof', f'eof@{c}', frame[:c]
    for suffix, f in faults.count_faults(v):
        yield 'count', suffix, f
    for suffix, f in faults.domain_faults(v, rng):
        yield 'domain', suffix, f
    yield 'opcode', 'opcode^0x40', bytes([frame[0] ^ 0x40]) + frame[1:]
    yield 'opcode', 'opcode=0xff', b'\xff' + frame[1:]


def world_variants(v, rng, tier):
    frame = bytes.fromhex(v['hex'])
    n = len(frame)
    hdr = v['hdr']
    cuts = set(range(0, min(n, hdr + 3))) | {n - 1, n - 2, (hdr + n) // 2}
    for c in sorted(x for x in cuts if 0 <= x < n):
        yield 'eof', f'eof@{c}', frame[:c]
    for suffix, f in faults.header_faults(v):
        yield 'header', suffix, f
    for i, (suffix, f) in enumerate(faults.truncations(v)):
        if i < 3:
            yield 'trunc', suffix, f
    for i, (suffix, f) in enumerate(faults.domain_faults(v, rng)):
        if i < 4:
            yield 'domain', suffix, f


class Work:
    def __init__(s):
        s.rows = []
        s.meta = {}

    def add(s, rid, row, meta):
        s.rows.append([rid] + row)
        s.meta[rid] = meta


def build_login(work, vectors, tier, rng, n_random, cap):
    classes = {}
    for v in vectors:
        classes.setdefault((v['version'], v['dir'], v['object']), []).append(v)
    for (version, d, obj), vs in sorted(classes.items(), key=str):
        per_vec = -(-n_random // len(vs))
        for v in vs:
            frame = bytes.fromhex(v['hex'])
            n = len(frame)
            targets = ['enum', obj] + (['initial'] if obj in INITIAL else [])
            scheds = enumerated(n, marks_of(v), cap) + [random_schedule(n, rng) for _ in range(per_vec)]
            wscheds = write_schedules(n, rng, 6 if tier == 'quick' else 40)
            for t in targets:
                meta = {'family': 'login', 'version': version, 'dir': d, 'object': obj, 'target': t if t in ('enum', 'initial') else 'typed',
                        'crypt': 'plain', 'klass': 'canonical', 'base': v['id'], 'hex': v['hex'], 'n': n}
                work.add(f"{v['id']}|{t}|rd", ['L.rd', version, d, t, v['hex'], ';'.join(scheds), len(scheds) - 1], {**meta, 'op': 'read', 'nsched': len(scheds)})
                work.add(f"{v['id']}|{t}|wr", ['L.wr', version, d, t, v['hex'], ';'.join(wscheds), len(wscheds) - 1], {**meta, 'op': 'write', 'nsched': len(wscheds)})
            # malformed / truncated variants
            nv = 3 if tier == 'quick' else 32
            # long frames (255 / 256 element arrays) are delivered in pieces above; their malformed variants would be quadratic
            for klass, suffix, f in (login_variants(v, rng, tier) if n <= 2048 else ()):
                m = len(f)
                sc = (list(compositions(m)) if m <= 8 else ['w', f'1x{m}', str(m // 2), f'{m - 1}']) + [random_schedule(m, rng) for _ in range(nv)]
                for t in targets:
                    meta = {'family': 'login', 'version': version, 'dir': d, 'object': obj, 'target': t if t in ('enum', 'initial') else 'typed',
                            'crypt': 'plain', 'klass': klass, 'base': v['id'], 'variant': suffix, 'hex': f.hex(), 'n': m, 'op': 'read', 'nsched': len(sc)}
                    work.add(f"{v['id']}!{suffix}|{t}|rd", ['L.rd', version, d, t, f.hex(), ';'.join(sc), len(sc) - 1], meta)


def write_schedules(n, rng, k):
    if n <= 8:
        out = list(compositions(n))
    else:
        out = ['w', f'1x{n}' if n <= 8192 else f'1x64,{n - 64}', '1', str(n - 1), str(n // 2), f'P,{n}', f'1,P2,{n - 1}', f'7x{n // 7 + 1}']
    return out + [random_schedule(n, rng) for _ in range(k)]


def build_world(work, corpus, vectors, names, tier, rng, n_random, cap):
    n_extra = 40 if tier == 'quick' else 1500
    groups = {}
    for v in vectors:
        if len(v['hex']) // 2 <= 6000:
            groups.setdefault((v['version'], v['dir']), []).append(v)
    for (version, d), vs in sorted(groups.items()):
        typed = [v for v in vs if v['object'] in names[(version, d)]]
        others = [v for v in vs if v['object'] not in names[(version, d)]]
        rng.shuffle(others)
        others = others[:n_extra]
        sel = [(v, ['enum', v['object']]) for v in typed] + [(v, ['enum']) for v in others]
        # boundary frames: empty body, 1 byte, around the 15-bit size limit (Wrath's 5-byte server header), 64k
        lens = [0, 1, 300] + ([0x7FFC, 0x7FFD, 0x7FFE, 0x7FFF, 0x8000] if tier == 'quick' else [0x7FFB, 0x7FFC, 0x7FFD, 0x7FFE, 0x7FFF, 0x8000, 0x8001, 0xFFF0])
        for L in lens:
            if L <= S.max_body(version, d):
                sel.append((S.warden_vector(corpus, version, d, L), ['enum', S.WARDEN[d]]))
        counts = {}
        for v, targets in sel:
            for t in targets:
                for crypt in ('plain', 'enc'):
                    counts[(t == 'enum', crypt)] = counts.get((t == 'enum', crypt), 0) + 1
        for v, targets in sel:
            frame = bytes.fromhex(v['hex'])
            n = len(frame)
            big = n > 20000
            marks = marks_of(v) + [v['hdr'] - 1, v['hdr'], v['hdr'] + 1]
            base = enumerated(n, marks, 24 if big else cap)
            if big:
                base = [x for x in base if not x.startswith('2x') and not x.startswith('1,3x')]
            for t in targets:
                for crypt in ('plain', 'enc'):
                    per_vec = max(1, -(-n_random // counts[(t == 'enum', crypt)]))
                    if big:
                        per_vec = min(per_vec, 2)
                    scheds = base + [random_schedule(n, rng) for _ in range(per_vec)]
                    ccol = 'plain' if crypt == 'plain' else 'enc:' + KEY
                    meta = {'family': 'world', 'version': version, 'dir': d, 'object': v['object'], 'target': 'enum' if t == 'enum' else 'typed',
                            'crypt': crypt, 'klass': 'canonical', 'base': v['id'], 'hex': v['hex'] if n <= 4096 else None, 'n': n,
                            'large_header': version == 'wrath' and d == 'server' and v['hdr'] == 5}
                    work.add(f"{v['id']}|{t}|{crypt}|rd", ['W.rd', version, d, t, ccol, v['hdr'], v['hex'], ';'.join(scheds), len(scheds) - 1],
                             {**meta, 'op': 'read', 'nsched': len(scheds)})
                    ws = write_schedules(n, rng, 2 if tier == 'quick' else 10)
                    if big:
                        ws = ws[:8]
                    work.add(f"{v['id']}|{t}|{crypt}|wr", ['W.wr', version, d, t, ccol, v['hex'], ';'.join(ws), len(ws) - 1], {**meta, 'op': 'write', 'nsched': len(ws)})
            # malformed / truncated variants for the typed sample and the boundary frames
            if len(targets) > 1 and not big and n <= 2048:
                fm = v if v.get('fmap') else {**v, 'fmap': []}
                for klass, suffix, f in world_variants(fm, rng, tier):
                    m = len(f)
                    sc = (list(compositions(m)) if m <= 7 else ['w', f'1x{m}', str(v['hdr']), str(max(1, v['hdr'] - 1)), f'{m - 1}']) + \
                        [random_schedule(m, rng) for _ in range(2 if tier == 'quick' else 24)]
                    for t in targets:
                        for crypt in ('plain', 'enc'):
                            ccol = 'plain' if crypt == 'plain' else 'enc:' + KEY
                            meta = {'family': 'world', 'version': version, 'dir': d, 'object': v['object'], 'target': 'enum' if t == 'enum' else 'typed',
                                    'crypt': crypt, 'klass': klass, 'base': v['id'], 'variant': suffix, 'hex': f.hex() if m <= 4096 else None, 'n': m,
                                    'op': 'read', 'nsched': len(sc), 'large_header': False}
                            work.add(f"{v['id']}!{suffix}|{t}|{crypt}|rd", ['W.rd', version, d, t, ccol, v['hdr'], f.hex(), ';'.join(sc), len(sc) - 1], meta)


# ------------------------------------------------------------------------------------------------
# oracle

ERR_KEYS = ('err_kind', 'err_value', 'err_enum', 'io_kind', 'err_size')


def same_panic(a, b):
    """the variants are separate copies of the same code: the same assertion / unwrap sits on different lines of the same file"""
    fa, fb = str(a.get('panic_at')).rsplit(':', 1)[0], str(b.get('panic_at')).rsplit(':', 1)[0]
    return fa == fb and a.get('panic_msg') == b.get('panic_msg')


def compare_read(sync, out):
    """the blocking reader's observation vs one async observation -> None or (problem, detail)"""
    sr, r = sync.get('result'), out.get('result')
    if r in ('stalled', 'runaway'):
        return r, f'async future {r} after {out.get("consumed")} bytes'
    if sr == 'panic' or r == 'panic':
        if sr == r and same_panic(sync, out):
            return None
        return 'panic-differs', f'blocking: {sr} {sync.get("panic_at") or ""}; async: {r} {out.get("panic_at") or ""}'
    if sr != r:
        return 'result-differs', f'blocking: {sr} {sync.get("err_kind") or ""} {sync.get("io_kind") or ""}; async: {r} {out.get("err_kind") or ""} {out.get("io_kind") or ""}'
    if sr == 'ok':
        if 'encode' in sync or 'encode' in out:
            if ('encode' in sync) != ('encode' in out):
                return 'value-differs', 'only one of the decoded values can be re-encoded'
        elif sync.get('out') != out.get('out'):
            return 'value-differs', f'blocking value renders as {str(sync.get("out"))[:160]}, async value as {str(out.get("out"))[:160]}'
        if sync.get('eq_self') and out.get('eq') is not True:
            return 'value-differs', 'PartialEq says the async value differs from the blocking one'
        if sync.get('consumed') != out.get('consumed'):
            return 'consumed-differs', f'blocking consumed {sync.get("consumed")}, async {out.get("consumed")}'
        return None
    if sr == 'err':
        for k in ERR_KEYS:
            if sync.get(k) != out.get(k):
                return 'error-kind-differs', f'{k}: blocking {sync.get(k)!r}, async {out.get(k)!r} (blocking {sync.get("err_kind")}, async {out.get("err_kind")})'
        # how much a failed read_exact consumed is unspecified by its contract; everything else is compared
        if sync.get('io_kind') != 'UnexpectedEof' and sync.get('consumed') != out.get('consumed'):
            return 'consumed-differs', f'blocking consumed {sync.get("consumed")}, async {out.get("consumed")} before the error'
        return None
    return 'driver', f'unknown result {sr}'


def compare_write(sync, out):
    sr, r = sync.get('result'), out.get('result')
    if r in ('stalled', 'runaway'):
        return r, f'async write future {r} after {len(out.get("out") or "") // 2} bytes'
    if sr == 'panic' or r == 'panic':
        if sr == r and same_panic(sync, out):
            return None
        return 'panic-differs', f'blocking: {sr} {sync.get("panic_at") or ""}; async: {r} {out.get("panic_at") or ""}'
    if sr != r:
        return 'result-differs', f'blocking write: {sr}; async write: {r} {out.get("io_kind") or ""}'
    if sr == 'ok' and sync.get('out') != out.get('out'):
        a, b = sync.get('out') or '', out.get('out') or ''
        i = next((k for k in range(0, min(len(a), len(b)), 2) if a[k:k + 2] != b[k:k + 2]), min(len(a), len(b)))
        return 'bytes-differ', f'first difference at byte {i // 2}: blocking {a[max(0, i - 8):i + 16]} async {b[max(0, i - 8):i + 16]} (lengths {len(a) // 2}/{len(b) // 2})'
    return None


def judge(chk, rid, row, meta, e, totals):
    """-> number of violations"""
    op = meta['op']
    res = e.get('result')
    if res == 'noapi':
        chk.count('noapi')
        return 0
    if res in ('abort', 'timeout'):
        # resource trouble on malformed input is C03's business; nothing to compare
        chk.count(f'skipped:{res}')
        return 0
    if res == 'panic':
        chk.count('skipped:driver-panic')
        chk.inconclusive.append(f'{rid}: driver panicked outside a guarded call: {e.get("panic_at")}')
        return 0
    if res == 'undecodable':
        chk.count('write:undecodable-by-blocking-reader')
        return 0
    if res != 'done':
        chk.inconclusive.append(f'{rid}: unexpected driver result {res}')
        return 0
    sync = e.get('sync') or {}
    bad = 0
    scheds = str(row[-2]).split(';')
    nsched = len(scheds)
    for lib in ('tokio', 'astd'):
        a = e.get(lib) or {}
        if a.get('n') != nsched or sum(o.get('n', 0) for o in a.get('outs') or []) != nsched:
            chk.inconclusive.append(f'{rid}: {lib} ran {a.get("n")} of {nsched} schedules')
            continue
        totals['runs'] += nsched
        totals['polls'] += a.get('polls_sum', 0)
        totals['pendings'] += a.get('pendings', 0)
        totals['short'] += a.get('short', 0)
        totals['max_polls'] = max(totals['max_polls'], a.get('polls_max', 0))
        for o in a['outs']:
            why = compare_read(sync, o) if op == 'read' else compare_write(sync, o)
            kind = f"{op}:{sync.get('result')}" + (':' + str(sync.get('err_kind')) if sync.get('result') == 'err' else '')
            if why is None:
                chk.count(f'{kind}:agree', o['n'])
                continue
            bad += 1
            sched = scheds[o['first']]
            obs = {'check': op, 'family': meta['family'], 'version': meta['version'], 'dir': meta['dir'], 'object': meta['object'],
                   'target': meta['target'], 'crypt': meta['crypt'], 'input': meta['klass'], 'lib': lib, 'problem': why[0],
                   'blocking': str(sync.get('result')) + (':' + str(sync.get('err_kind')) if sync.get('err_kind') else ''),
                   'async': str(o.get('result')) + (':' + str(o.get('err_kind')) if o.get('err_kind') else ''),
                   'only_when_chunked': meta.get('_only_when_chunked', o['n'] < nsched)}
            rrow = list(row)
            rrow[-2] = sched
            rrow[-1] = 0
            r = chk.violation(obs, {'row': rrow, 'meta': meta, 'schedule': sched,
                                    'schedules_with_this_outcome': o['n'], 'schedules_run': nsched, 'detail': why[1],
                                    'blocking': sync, 'async': o,
                                    'how': 'python3 check.py C06 --replay <this file>  (re-runs row through harness/async_driver with the poll trace on)'})
            chk.count(r)
    return bad


def key_of(meta):
    return (meta['family'], meta['version'], meta['dir'], meta['object'], meta['target'], meta['crypt'], meta['klass'], meta['op'], meta.get('variant') or meta['base'])


def run(tier, replay=None):
    chk = common.Check('C06', tier, 'exploration',
                       'reference-model vectors (canonical, truncated, count/domain/opcode/header faults) x delivery schedules (all 2^(n-1) chunkings for n<=12, '
                       'every split point + byte-at-a-time + seeded random chunkings with Pending runs otherwise) through the tokio and async-std copies of every login '
                       'reader/writer (opcode enums, typed expect helpers, read_initial_message) and the world header/body readers/writers (opcode enums for sampled messages, '
                       'typed expect helpers/trait writers for a fixed sample, plain and header-encrypted, Wrath 5-byte headers) against a scripted transport; oracle = the '
                       'blocking variant on the whole buffer; distinct = (entry point, message, input variant) judged under chunked delivery')
    rng = random.Random(common.seed() * 104729 + 6)
    binary = common.cargo_build('async_driver')
    totals = {'runs': 0, 'polls': 0, 'pendings': 0, 'short': 0, 'max_polls': 0}
    if replay:
        rp = json.load(open(replay))
        row, meta = rp['row'], dict(rp['meta'])
        meta['_only_when_chunked'] = rp['observation'].get('only_when_chunked')
        ev = common.run_driver(binary, [['replay'] + row[1:]], 'c06r', workers=1)
        e = ev.get('replay')
        if e is None:
            raise common.Inconclusive('replay produced no event')
        common.log(json.dumps(e)[:3000])
        bad = judge(chk, 'replay', ['replay'] + row[1:], meta, e, totals)
        if not bad:
            chk.ok(('replay', 1))
            chk.ok(('replay', 2))
        return chk.finish()

    n_random = 200 if tier == 'quick' else 5000
    corpus, sv, lvec, lstats = V.build(tier, k=3 if tier == 'quick' else 12, envs=LOGIN_ENVS)
    _c, _sv, wvec, wstats = V.build(tier, k=1 if tier == 'quick' else 3, envs=WORLD_ENVS)
    lvec, wvec = uniq(lvec), uniq(wvec)
    # which world messages have typed entry points in this build of the driver
    nrows = [[f'names.{x}.{d}', 'W.names', x, d] for x in ('vanilla', 'tbc', 'wrath') for d in ('client', 'server')]
    nev = common.run_driver(binary, nrows, 'c06n', workers=1)
    names = {}
    for r in nrows:
        e = nev.get(r[0]) or {}
        if e.get('result') != 'ok':
            raise common.Inconclusive(f'driver has no typed table for {r[2]} {r[3]}')
        names[(r[2], r[3])] = set(e['names'])
    work = Work()
    build_login(work, lvec, tier, rng, n_random, 96 if tier == 'quick' else 400)
    build_world(work, corpus, wvec, names, tier, rng, n_random, 48 if tier == 'quick' else 160)
    rng.shuffle(work.rows)
    common.log(f'[c06] {len(work.rows)} driver operations, {sum(m["nsched"] for m in work.meta.values())} (input, schedule) pairs x 2 async libraries')
    ev = common.run_driver(binary, work.rows, 'c06', timeout=120, budget=1 << 30)
    missing = 0
    distinct_scheds = set()
    sample_budget = {('login', True): 2, ('world', True): 1, ('login', False): 1, ('world', False): 1}
    for row in work.rows:
        rid = row[0]
        meta = work.meta[rid]
        e = ev.get(rid)
        if e is None:
            missing += 1
            continue
        bad = judge(chk, rid, row, meta, e, totals)
        if e.get('result') != 'done':
            continue
        scheds = str(row[-2]).split(';')
        for s in scheds:
            distinct_scheds.add(hash((meta['n'], s)))
        if not bad:
            chunked = any(s != 'w' for s in scheds)
            sample = None
            skind = (meta['family'], meta['klass'] == 'canonical')
            if chunked and sample_budget.get(skind, 0) > 0 and meta['n'] > 8 and (meta['crypt'] == 'enc' or meta['family'] == 'login') and meta['op'] == 'read':
                sample_budget[skind] -= 1
                t = e.get('tokio') or {}
                sample = {'id': rid, 'api': row[1], 'bytes': meta['n'], 'schedules': len(scheds), 'last_schedule': scheds[-1][:80],
                          'tokio_poll_trace_of_last_schedule(requested,delivered|P)': (t.get('trace') or [])[:32],
                          'blocking': {k: str(x)[:60] for k, x in (e.get('sync') or {}).items()},
                          'distinct_tokio_outcomes': len(t.get('outs') or []), 'distinct_astd_outcomes': len((e.get('astd') or {}).get('outs') or []),
                          'tokio_polls_max': t.get('polls_max'), 'pendings_injected': t.get('pendings')}
            chk.ok(key_of(meta) if chunked else None, sample=sample)
    if missing:
        chk.inconclusive.append(f'{missing} operations have no event (BEGIN/END conservation broken)')
    chk.extra['schedules'] = {'distinct_(length,schedule)_pairs': len(distinct_scheds), 'async_reads_and_writes_run': totals['runs'], 'polls': totals['polls'],
                              'pending_events_injected': totals['pendings'], 'short_reads_or_writes': totals['short'], 'max_polls_in_one_call': totals['max_polls'],
                              'exhaustive_up_to_bytes': EXHAUSTIVE_MAX, 'random_per_vector_class': n_random}
    chk.extra['operations'] = len(work.rows)
    chk.extra['login_vectors'] = len(lvec)
    chk.extra['world_vectors_available'] = len(wvec)
    chk.extra['world_typed_sample'] = {f'{k[0]}.{k[1]}': len(v) for k, v in names.items()}
    chk.extra['large_header_frames'] = sum(1 for m in work.meta.values() if m.get('large_header'))
    chk.assumptions += ['a transport may deliver any positive number of bytes per poll and may return Pending any number of times as long as it wakes the task; '
                        'EOF is a read of 0 bytes; writers may accept any positive prefix of what they are offered',
                        'the number of bytes a failed read_exact consumed before UnexpectedEof is left unspecified by its contract and is not compared',
                        'equal panics (same file and message; the variants are separate copies of the code) in all variants on malformed input count as agreement here; they are C03\'s subject',
                        'header encryption halves come from wow_srp through its public constructors (fixed key); the driver encrypts the header bytes of the reference frame']
    # the protocol-parameterised read/write functions (collective API) are async/blocking triples too
    try:
        from monitors import c14
        pe = common.run_driver(binary, [['pairs', 'P.pairs']], 'c06p', workers=1).get('pairs') or {}
        fams = {(n, v) for n, d, v in (pe.get('pairs') or [])}
        prow, pmeta = c14.protocol_rows(tier, random.Random(common.seed() * 7 + 6), 2 if tier == 'quick' else 12)
        prow = [r for r in prow if (r[2], r[3]) in fams]
        pev = common.run_driver(binary, prow, 'c06proto', timeout=60)
        for r in prow:
            e = pev.get(r[0])
            if e is None or e.get('result') != 'done':
                continue
            v = pmeta[r[0]][0]
            probs = c14.async_agreement(e)
            chk.count('protocol-api:' + ('ok' if not probs else 'bad'))
            if not probs:
                chk.ok(('protocol-api', v['object'], v['version'], tuple(v['sig'])))
            for prob, detail in probs:
                chk.violation({'check': 'protocol-api', 'object': v['object'], 'version': v['version'], 'problem': prob},
                              {'row': r, 'detail': detail, 'event': e})
    except ImportError:
        pass
    return chk.finish()
