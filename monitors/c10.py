"""C10: the intermediate representation is schema-valid and faithful to the wowm."""
import json, os
from lib import common, gen
from monitors import genrun
from ref import model, neutral, jtd, codec


def count_leaves(x):
    if isinstance(x, dict):
        return sum(count_leaves(v) for v in x.values())
    if isinstance(x, (list, tuple)):
        return sum(count_leaves(v) for v in x)
    return 1


def path_class(d):
    head = d.split(':')[0]
    return ''.join(ch for ch in head if not ch.isdigit())


def run(tier, replay=None):
    chk = common.Check('C10', tier, 'exploration',
                       'the real generator is run on a pristine copy of the tree; the emitted IR is validated against the published JSON Typedef '
                       'schema (all forms, strict additional properties) and every IR object and every wowm object (independent parser) is lowered '
                       'to one neutral record (name, kind, opcode, base type, enumerators+values in order, members in order with type/upcast/array '
                       'kind/length source/constant/compression, semantic conditional structure, optional blocks, tags, versions incl. paste expansion, '
                       'test vectors); bijection of objects and equality of records required; distinct = objects compared')
    binary, tree, res = genrun.pristine_run()
    try:
        if res['exit'] != 0:
            chk.violation({'check': 'generator-exit', 'exit': res['exit']}, {'stderr': res['stderr'][-3000:]})
            return chk.finish()
        ir = genrun.load_ir(tree)
    finally:
        gen.drop(tree)
    schema = json.load(open(os.path.join(common.REPO, 'intermediate_representation_schema.json')))
    errs = jtd.validate(schema, ir, max_errors=200)
    chk.count('schema_errors', len(errs))
    chk.extra['schema_instances_checked'] = count_leaves(ir)
    for ip, sp, msg in errs[:200]:
        chk.violation({'check': 'schema', 'schema_path': sp, 'instance_class': path_class(ip.replace('/', '.'))}, {'instance_path': ip, 'schema_path': sp, 'message': msg})
    if not errs:
        chk.ok(('schema', 'valid'), sample={'schema': 'valid', 'leaves': chk.extra['schema_instances_checked']})
    corpus = model.Corpus(model.default_root())
    A = neutral.from_wowm(corpus)
    B = neutral.from_ir(ir)
    # documented exclusions: helper structs tagged used_in_update_mask are left out of the IR by design
    for key in sorted(set(A) - set(B)):
        o = [x for x in corpus.objs if x.name == key[0] and neutral.vkey(x.family, x.versions) == key[1]]
        tags = o[0].tags if o else {}
        if 'true' in tags.get('used_in_update_mask', []) or 'true' in tags.get('skip_codegen', []):
            chk.count('excluded_by_design')
            continue
        chk.violation({'check': 'missing-in-ir', 'kind': A[key]['kind']}, {'object': key, 'record': A[key]})
    for key in sorted(set(B) - set(A)):
        chk.violation({'check': 'invented-in-ir', 'kind': B[key]['kind']}, {'object': key, 'record': {k: v for k, v in B[key].items() if k != 'members'}})
    fields = 0
    for key in sorted(set(A) & set(B)):
        a = dict(A[key])
        b = {k: v for k, v in B[key].items() if k not in ('tests', 'sizes', 'file')}
        d = neutral.first_diff(a, b)
        fields += count_leaves(a)
        if d is None:
            chk.ok(('object',) + key, sample={'object': key, 'kind': a['kind'], 'record_head': str(a)[:300]})
        else:
            chk.violation({'check': 'record', 'kind': a['kind'], 'path_class': path_class(d)}, {'object': key, 'first_difference': d, 'wowm_record': a, 'ir_record': b})
    chk.extra['record_leaves_compared'] = fields
    # test vectors: every test block x container version must appear with the same raw bytes
    wtests = {}
    for t in corpus.raw_tests:
        wtests.setdefault(t['name'], []).append(tuple(t['bytes']))
    itests = {}
    for key, rec in B.items():
        for tb in rec.get('tests', []):
            itests.setdefault(key[0], []).append(tb)
    ntests = 0
    for name in sorted(set(wtests) | set(itests)):
        w = sorted(set(wtests.get(name, [])))
        i = sorted(set(itests.get(name, [])))
        ntests += len(w)
        if w == i:
            chk.ok(('tests', name), sample={'tests_of': name, 'vectors': len(w)})
        else:
            chk.violation({'check': 'tests', 'object': name}, {'only_in_wowm': [bytes(x).hex() for x in w if x not in i][:3],
                                                            'only_in_ir': [bytes(x).hex() for x in i if x not in w][:3]})
    chk.extra['test_vectors_compared'] = ntests
    # login opcode table
    lop = {}
    for o in corpus.objs:
        if o.family == 'login' and o.kind in ('clogin', 'slogin'):
            base = o.name.rsplit('_', 1)[0] if o.name.endswith(('_Client', '_Server')) else o.name
            lop[base] = o.raw['opcode']
    if lop != ir.get('login_version_opcodes'):
        chk.violation({'check': 'login-opcode-table'}, {'wowm': lop, 'ir': ir.get('login_version_opcodes')})
    else:
        chk.ok(('login-opcodes',))
    chk.extra['objects'] = {'wowm': len(A), 'ir': len(B)}
    chk.assumptions += ['comment/display text is compared with whitespace runs collapsed (the grammar skips whitespace inside tag text)',
                        'structs tagged used_in_update_mask are left out of the IR by design',
                        "'!=' and else branches are compared in semantic normal form (the set of enumerators selecting each branch)"]
    return chk.finish()
