"""C03: decoding is total and memory-bounded: any bytes give a message or an error."""
import json, random, os, subprocess, struct
from lib import common
from monitors import vecs as V
from ref import model, codec, faults
from ref.canon import strip_idx

BUDGET = 1 << 30


def row(v, fid, frame):
    if v['family'] == 'world':
        return [fid, 'W.dec', v['version'], v['dir'], frame.hex()]
    return [fid, 'L.dec', v['version'], v['dir'], frame.hex()]


def gen_cases(corpus, vectors, tier, rng):
    """Yield (fid, meta, frame)"""
    cap = 1 if tier == 'quick' else 20
    persite = {}

    def site_ok(site):
        n = persite.get(site, 0)
        if n >= cap:
            return False
        persite[site] = n + 1
        return True

    # (a) random frames for every opcode
    for key, env in corpus.envs.items():
        cdc = codec.Codec(env)
        for d in ('client', 'server'):
            ops = sorted({c.raw['opcode'] for c in env.messages() if d in cdc.directions(c)})
            extra = [0xFFFF, 0x7FFF] if env.family == 'world' else [0xFF, 0x7F]
            for op in ops + extra:
                lens = [0, 1, 2, 3, 4, 8, 16, 64] if tier == 'quick' else list(range(0, 65)) + [200, 1000, 5000]
                for L in lens:
                    for rep in range(1 if tier == 'quick' else 5):
                        kind = rng.choice(['rand', 'zeros', 'ones', 'small'])
                        if kind == 'rand':
                            body = bytes(rng.getrandbits(8) for _ in range(L))
                        elif kind == 'zeros':
                            body = b'\0' * L
                        elif kind == 'ones':
                            body = b'\xff' * L
                        else:
                            body = bytes(rng.choice([0, 1, 2, 3, 255]) for _ in range(L))
                        pv = {'family': env.family, 'version': env.version, 'dir': d, 'opcode': op}
                        yield (f'{key}.{d[0]}.rf.{op:#x}.{L}.{rep}', {'klass': 'random_frame', 'family': env.family, 'version': env.version,
                               'dir': d, 'object': f'opcode {op:#x}', 'site': f'len{L}'}, faults.reframe(pv, body))
    # (a2) raw header forms: size fields smaller than the opcode that has to follow (0, 1, 2, 3), the exact minimum, the Wrath 3-byte
    # form with small / boundary / maximal sizes, each with nothing, the opcode only, and some bytes behind it
    for key, env in corpus.envs.items():
        if env.family != 'world':
            continue
        cdc = codec.Codec(env)
        for d in ('client', 'server'):
            ops = sorted({c.raw['opcode'] for c in env.messages() if d in cdc.directions(c)})
            sample_ops = [ops[0], ops[len(ops) // 2], ops[-1], 0xFFFF] if tier == 'quick' else ops[::25] + [0xFFFF, 0]
            oplen = 4 if d == 'client' else 2
            heads = [struct.pack('>H', n) for n in (0, 1, 2, 3, 4, 5, 6, 0x7FFF, 0x8000, 0xFFFF)]
            if env.version == 'wrath' and d == 'server':
                heads += [bytes([0x80 | (n >> 16), (n >> 8) & 0xFF, n & 0xFF]) for n in (0, 1, 2, 3, 4, 0x7FFF, 0x8000, 0xFFFF, 0x10000, 0x7FFFFF)]
                heads += [b'\x80', b'\x80\x00', b'\xff', b'\xff\xff', b'\xff\xff\xff']
            for op in sample_ops:
                opb = op.to_bytes(oplen, 'little', signed=False) if op < (1 << 8 * oplen) else b'\xff' * oplen
                for h in heads:
                    for tail_name, tail in (('none', b''), ('op', opb), ('op+4', opb + b'\0\1\2\3'), ('op+64', opb + bytes(range(64)))):
                        pv = {'family': 'world', 'version': env.version, 'dir': d, 'object': f'opcode {op:#x}'}
                        yield (f'{key}.{d[0]}.hdr.{h.hex()}.{op:#x}.{tail_name}', {'klass': 'raw_header', **pv, 'site': f'{h.hex()}+{tail_name}'}, h + tail)
    # (b)(c)(d) structured corruptions of canonical vectors
    for v in vectors:
        if v['class'] != 'canonical':
            continue
        base = (v['family'], v['version'], v['dir'], v['object'])
        meta0 = {'family': v['family'], 'version': v['version'], 'dir': v['dir'], 'object': v['object'], 'base': v['id']}
        big = len(v['hex']) > 2 * 4096   # long frames (255 / 256 element arrays): a sample of the cut positions, or the workload is quadratic
        truncs = list(faults.truncations(v))
        if big and len(truncs) > 48:
            truncs = truncs[:16] + rng.sample(truncs[16:-16], 16) + truncs[-16:]
        for suffix, frame in truncs:
            cut = suffix.split('@')[1]
            if site_ok(base + ('trunc', cut)):
                yield f"{v['id']}!{suffix}", {**meta0, 'klass': 'truncation', 'site': suffix}, frame
        for suffix, frame in faults.count_faults(v):
            f = strip_idx(suffix.split('@')[1])
            if site_ok(base + ('count', f)):
                yield f"{v['id']}!{suffix}", {**meta0, 'klass': 'count', 'site': f}, frame
        for suffix, frame in faults.domain_faults(v, rng):
            f = strip_idx(suffix)
            if site_ok(base + ('domain', f)):
                yield f"{v['id']}!{suffix}", {**meta0, 'klass': 'domain', 'site': f}, frame
        for suffix, frame in faults.string_faults(v):
            f = strip_idx(suffix.split('@')[1].split('=')[0]) + suffix.split('=')[1]
            if site_ok(base + ('string', f)):
                yield f"{v['id']}!{suffix}", {**meta0, 'klass': 'string', 'site': f}, frame
        for suffix, frame in faults.header_faults(v):
            if site_ok(base + ('hdr', suffix)):
                yield f"{v['id']}!{suffix}", {**meta0, 'klass': 'header', 'site': suffix}, frame
        for suffix, frame in faults.compressed_faults(v, rng):
            if site_ok(base + ('z', suffix)):
                yield f"{v['id']}!{suffix}", {**meta0, 'klass': 'compressed', 'site': suffix}, frame
        if (v['family'] == 'login' or v['kind'] in ('policy1', 'policy2')) and not big:
            for suffix, frame in faults.stream_truncations(v, every=1 if v['family'] == 'login' else (7 if tier == 'quick' else 2)):
                if site_ok(base + ('eof', suffix)):
                    yield f"{v['id']}!{suffix}", {**meta0, 'klass': 'eof', 'site': suffix}, frame


def run(tier, replay=None):
    chk = common.Check('C03', tier, 'fault_enumeration',
                       'random frames for every opcode plus structured corruptions of canonical vectors derived from their field maps '
                       '(truncation at every field boundary +-1, count/length/size leaves at boundary values, enum/bool/flag/mask/string leaves '
                       'out of range, header size larger/smaller than the body, corrupt compressed payloads, EOF at every byte); every decode runs '
                       'under panic capture, a counting allocator with a fixed 1 GiB budget and a watchdog; '
                       'distinct = (flavour, direction, object, fault class, site) executed with an END event')
    rng = random.Random(common.seed())
    metas, rows = {}, []
    if replay:
        rp = json.load(open(replay))
        metas[rp['row'][0]] = rp['meta']
        rows.append(rp['row'])
    else:
        corpus, sv, vectors, stats = V.build(tier, k=0 if tier == 'quick' else 8)
        for fid, meta, frame in gen_cases(corpus, vectors, tier, rng):
            if fid in metas:
                continue
            metas[fid] = meta
            rows.append(row(meta, fid, frame))
    binary = common.cargo_build('codec_driver')
    ev = common.run_driver(binary, rows, 'c03', budget=BUDGET, timeout=20)
    rowmap = {r[0]: r for r in rows}
    maxalloc, maxpeak = 0, 0
    missing = 0
    retry = []
    for fid, meta in metas.items():
        e = ev.get(fid)
        if e is None:
            missing += 1
            continue
        res = e.get('result')
        chk.count(f"{meta['klass']}:{res}")
        maxalloc = max(maxalloc, int(e.get('alloc_max') or 0))
        maxpeak = max(maxpeak, int(e.get('alloc_peak') or 0))
        site = (meta['family'], meta['version'], meta['dir'], meta['object'], meta['klass'], meta['site'])
        if res in ('ok', 'err'):
            chk.ok(site, sample={'id': fid, 'class': meta['klass'], 'hex': rowmap[fid][-1][:100], 'event': {k: str(x)[:100] for k, x in e.items()}})
            continue
        if res == 'timeout':
            retry.append(fid)
            continue
        why = res
        loc = e.get('panic_at') or ''
        obs = {'check': 'total', 'family': meta['family'], 'version': meta['version'], 'dir': meta['dir'], 'object': meta['object'],
               'klass': meta['klass'], 'outcome': why, 'panic_at': loc.replace(common.REPO, ''),
               'panic_class': panic_class(e.get('panic_msg') or ''), 'alloc_refused': bool(e.get('alloc_refused')),
               'site_kind': site_kind(meta)}
        chk.violation(obs, {'meta': meta, 'row': rowmap[fid], 'event': e})
    # timeouts: a hang only if it reproduces three times alone
    for fid in retry[:20]:
        hangs = 0
        for _ in range(3):
            ev1 = common.run_driver(binary, [rowmap[fid]], 'c03r', workers=1, budget=BUDGET, timeout=20)
            if ev1.get(fid, {}).get('result') == 'timeout':
                hangs += 1
        meta = metas[fid]
        if hangs == 3:
            chk.violation({'check': 'total', 'family': meta['family'], 'version': meta['version'], 'dir': meta['dir'], 'object': meta['object'],
                           'klass': meta['klass'], 'outcome': 'hang'}, {'meta': meta, 'row': rowmap[fid]})
        else:
            chk.inconclusive.append(f'{fid}: watchdog fired {hangs}/3 times when re-run alone')
    if missing:
        chk.inconclusive.append(f'{missing} cases have no event')
    chk.extra['max_single_allocation_seen'] = maxalloc
    chk.extra['max_peak_live_bytes_seen'] = maxpeak
    chk.extra['budget_bytes'] = BUDGET
    chk.assumptions += ['memory budget: 1 GiB of heap requested by one decode (largest request or peak live delta), DESIGN.md 3.C03']
    if tier == 'thorough' and not replay:
        sanitizers(chk, rows, metas)
    return chk.finish()


def site_kind(meta):
    s = meta['site']
    return s.split('@')[0].split(':')[-1] if meta['klass'] in ('compressed',) else meta['klass']


def panic_class(msg):
    for k in ('attempt to subtract with overflow', 'attempt to add with overflow', 'attempt to multiply with overflow',
              'attempt to shift left with overflow', 'called `Result::unwrap()`', 'called `Option::unwrap()`', 'capacity overflow',
              'index out of bounds', 'slice index', 'range end index', 'not implemented', 'internal error: entered unreachable',
              'assertion'):
        if k in msg:
            return k
    import re
    return re.sub(r'\d+', 'N', msg[:40])


def sanitizers(chk, rows, metas):
    """thorough: memcheck on the compressed classes + a sample (release driver, allocator monitor off)."""
    try:
        rel = common.cargo_build('codec_driver', release=True, no_default=True, features=['vanilla', 'tbc', 'wrath', 'encryption'])
    except common.Inconclusive as e:
        chk.extra['valgrind'] = f'release driver did not build: {str(e)[:200]}'
        return
    rng = random.Random(common.seed() + 7)
    sel = [r for r in rows if metas[r[0]]['klass'] == 'compressed']
    rest = [r for r in rows if metas[r[0]]['klass'] != 'compressed']
    sel = sel[:400] + rng.sample(rest, min(600, len(rest)))
    d = os.path.join(common.BUILD, 'run')
    tsv, out = os.path.join(d, 'c03vg.tsv'), os.path.join(d, 'c03vg.out')
    with open(tsv, 'w') as f:
        for r in sel:
            f.write('\t'.join(str(x) for x in r) + '\n')
    if os.path.exists(out):
        os.remove(out)
    p = subprocess.run(['valgrind', '--error-exitcode=99', '--quiet', '--leak-check=no', rel, 'worker', tsv, out, str(1 << 62), '600'],
                       stdout=subprocess.PIPE, stderr=subprocess.PIPE, text=True)
    n = sum(1 for l in open(out) if l.startswith('{')) if os.path.exists(out) else 0
    chk.extra['valgrind_memcheck'] = {'frames': len(sel), 'events': n, 'exit': p.returncode, 'stderr_head': p.stderr[:600]}
    if p.returncode == 99:
        chk.violation({'check': 'memcheck', 'outcome': 'memcheck error'}, {'stderr': p.stderr[:4000], 'cmd': 'valgrind ... codec_driver worker'})
    elif p.returncode != 0 and n < len(sel):
        chk.extra['valgrind_memcheck']['note'] = 'worker stopped early (a panic-abort of a known finding under the release profile stops the single worker); counted as observed-so-far'
    for pth in (tsv, out):
        if os.path.exists(pth):
            os.remove(pth)
