"""C05: header encryption is transparent for whole message sequences."""
import json, random
from lib import common, judge
from monitors import vecs as V, seqs as S


def run(tier, replay=None):
    chk = common.Check('C05', tier, 'exploration',
                       'random session keys x random message histories (tiny, empty, compressed, boundary-size and Wrath 2/3-byte-header frames) '
                       'written with write_encrypted_* through one encrypter, compared byte for byte with the unencrypted stream (only header bytes may '
                       'differ), then read by the peer decrypter through read_encrypted and expect_*_message_encryption; '
                       'distinct = (expansion, direction, reader, key, sequence shape)')
    rng = random.Random(common.seed() * 7919 + 5)
    binary = common.cargo_build('codec_driver')
    corpus, sv, vectors, stats = V.build(tier, k=1 if tier == 'quick' else 4, envs=['world:vanilla', 'world:tbc', 'world:wrath'])
    cand = [v for v in vectors if len(v['hex']) < 4000]
    pool = S.good_pool(binary, cand)
    n_keys, per_key, max_len = (50, 4, 12) if tier == 'quick' else (4000, 2, 40)
    rows, seqs = [], {}
    mism = {}
    pool_names = {k: sorted({(v['object'], v['opcode']) for v in vs}) for k, vs in pool.items()}
    if replay:
        rp = json.load(open(replay))
    for k in range(n_keys):
        key = bytes(rng.getrandbits(8) for _ in range(40)).hex() if k > 1 else ('00' * 40 if k == 0 else 'ff' * 40)
        for s in S.make_sequences(corpus, pool, per_key, max_len, rng):
            s['id'] = f'k{k}.' + s['id']
            s['key'] = key
            stream = ''.join(v['hex'] for v in s['frames'])
            names = ','.join(v['object'] for v in s['frames'])
            for reader in ('enum', 'expect'):
                rid = f"{s['id']}.{reader}"
                seqs[rid] = (s, reader)
                rows.append([rid, 'W.stream', s['version'], s['dir'], reader, 'enc:' + key, names if reader == 'expect' else '-', stream])
            # the same history over a transport that delivers short reads, and typed readers asked for a different message
            # (Opcode error; the rejected frame is consumed and both cipher states stay in step)
            sr = rng.choice(('enum', 'expect'))
            rid = f"{s['id']}.{sr}-short"
            seqs[rid] = (s, sr + '-short')
            rows.append([rid, 'W.stream', s['version'], s['dir'], sr, 'enc:' + key + ';chunk=' + S.chunk_pattern(rng), names if sr == 'expect' else '-', stream])
            mnames, mis = S.mismatch_names(s, pool_names[(s['version'], s['dir'])], rng)
            if mis:
                rid = f"{s['id']}.expect-mismatch"
                seqs[rid] = (s, 'expect-mismatch')
                mism[rid] = mis
                rows.append([rid, 'W.stream', s['version'], s['dir'], 'expect', 'enc:' + key, mnames, stream])
    # deterministic boundary sweep: [small, WARDEN_DATA(L), small] for every body length around the Wrath 2/3-byte header
    # switch and the top of the 2-byte form, one key, both readers
    key = bytes(rng.getrandbits(8) for _ in range(40)).hex()
    for (version, d), vs in sorted(pool.items()):
        small = sorted((v for v in vs if 8 < len(v['hex']) // 2 < 40 and not v.get('payloads')), key=lambda v: v['id'])[:1]
        if not small:
            continue
        lim = S.max_body(version, d)
        lens = [L for L in list(range(0x7FF6, 0x800A)) + list(range(0xFFEE, 0xFFFC)) if L <= lim - 2]
        if tier == 'quick':
            lens = [L for L in lens if 0x7FF9 <= L <= 0x8004 or L >= lim - 6]
        for L in lens:
            s = {'id': f'sweep.{version}.{d[0]}.{L}', 'version': version, 'dir': d, 'key': key,
                 'frames': [small[0], S.warden_vector(corpus, version, d, L), small[0]]}
            stream = ''.join(v['hex'] for v in s['frames'])
            names = ','.join(v['object'] for v in s['frames'])
            for reader in ('enum', 'expect'):
                rid = f"{s['id']}.{reader}"
                seqs[rid] = (s, reader)
                rows.append([rid, 'W.stream', version, d, reader, 'enc:' + key, names if reader == 'expect' else '-', stream])
    # bodies beyond 64 KiB (only the Wrath server header can say so): [small, elastic message of n elements, small]
    for c in S.elastic_messages(corpus, 'wrath', 'server'):
        small = sorted((v for v in pool.get(('wrath', 'server'), []) if 8 < len(v['hex']) // 2 < 40 and not v.get('payloads')), key=lambda v: v['id'])[:1]
        w = S.ELEM_WIDTH[c.raw['members'][1]['ty']]
        ns = sorted({(0x10000 - 4) // w - 1, (0x10000 - 4) // w, (0x10000 - 4) // w + 1, 80000 // w, (0x20000 - 4) // w + 1} | ({(0x7FFF00 - 4) // w} if tier == 'thorough' else set()))
        for n in ns if small else []:
            s = {'id': f'big.{c.name}.{n}', 'version': 'wrath', 'dir': 'server', 'key': key, 'frames': [small[0], S.elastic_vector(corpus, 'wrath', 'server', c, n), small[0]]}
            stream = ''.join(v['hex'] for v in s['frames'])
            names = ','.join(v['object'] for v in s['frames'])
            for reader in ('enum', 'expect'):
                rid = f"{s['id']}.{reader}"
                seqs[rid] = (s, reader)
                rows.append([rid, 'W.stream', 'wrath', 'server', reader, 'enc:' + key, names if reader == 'expect' else '-', stream])
    ev = common.run_driver(binary, rows, 'c05', timeout=60)
    encrypted_equal_headers = 0
    for rid, (s, reader) in seqs.items():
        e = ev.get(rid)
        if e is None:
            chk.inconclusive.append(f'{rid}: no event')
            continue
        why = None
        flens = None
        enc = lib_plain = None
        plain = b''.join(bytes.fromhex(v['hex']) for v in s['frames'])
        if e.get('result') != 'done':
            why = {'reason': str(e.get('result')), 'detail': str(e.get('panic_at') or '')}
        elif 'prep_err' in e:
            why = {'reason': 'plain-read-failed', 'detail': str(e['prep_err'])[:200]}
        else:
            enc = judge.out_bytes(e, 'enc')
            lib_plain = judge.out_bytes(e, 'plain2')   # the library's own unencrypted rendering of the same values
            if enc is None or lib_plain is None:
                if e.get('enc_len') != e.get('plain2_len'):
                    why = {'reason': 'enc-length', 'detail': f'{e.get("enc_len")} vs {e.get("plain2_len")}'}
            elif len(enc) != len(lib_plain):
                why = {'reason': 'enc-length', 'detail': f'{len(enc)} vs {len(lib_plain)}'}
            else:
                pos = 0
                i = 0
                flens = []
                while pos < len(lib_plain):
                    h = judge.parse_header('world', s['version'], s['dir'], lib_plain[pos:])
                    if h is None:
                        why = {'reason': 'plain-unparsable', 'at': i, 'detail': 'library plain stream has a bad header'}
                        break
                    hl, size, op = h
                    flen = size + (hl - (4 if s['dir'] == 'client' else 2))
                    if enc[pos + hl:pos + flen] != lib_plain[pos + hl:pos + flen]:
                        why = {'reason': 'body-differs', 'at': i, 'detail': 'body bytes of the encrypted frame differ from the unencrypted frame'}
                        break
                    if enc[pos:pos + hl] == lib_plain[pos:pos + hl] and s['key'] not in ('00' * 40,):
                        encrypted_equal_headers += 1
                    pos += flen
                    flens.append(flen)
                    i += 1
            if why is None and flens is None and any(v.get('payloads') for v in s['frames']):
                chk.count('skipped:stream-too-large-to-log-with-compressed-frames')
                continue
            if why is None:
                why = S.judge_stream(s, e.get('msgs') or [], frame_lens=flens, mismatched=mism.get(rid, ()))
        chk.count(f'{reader}:' + ('ok' if why is None else 'bad'))
        shape = (len(s['frames']), sum(1 for v in s['frames'] if len(v['hex']) // 2 > 0x7FFF), sum(1 for v in s['frames'] if len(v['hex']) // 2 > 0xFFFF), sum(1 for v in s['frames'] if v.get('payloads')))
        if rid.startswith('big.'):
            shape = shape + (s['frames'][1]['object'], len(s['frames'][1]['hex']) // 2)
        if why is None:
            chk.ok((s['version'], s['dir'], reader, s['key'][:8], shape),
                   sample={'id': rid, 'key': s['key'][:16] + '..', 'objects': [v['object'] for v in s['frames']][:8], 'enc_head': str(e.get('enc') or e.get('enc_head'))[:24]})
        else:
            at = why.get('at')
            obj = s['frames'][at]['object'] if isinstance(at, int) and 0 <= at < len(s['frames']) else None
            chk.violation({'check': 'crypto-history', 'version': s['version'], 'dir': s['dir'], 'reader': reader, 'reason': why['reason'], 'object_at': obj},
                          {'sequence': [(v['object'], len(v['hex']) // 2) for v in s['frames']], 'key': s['key'], 'why': why,
                           'row': [r for r in rows if r[0] == rid][0][:7]})
    chk.extra['keys'] = n_keys
    chk.extra['frames_whose_encrypted_header_equals_plain'] = encrypted_equal_headers
    chk.assumptions += ['crypto halves come from wow_srp through its public ProofSeed constructors; wow_srp itself is trusted',
                        'sequences are composed of frames that round-trip unencrypted on their own in the same run']
    return chk.finish()
