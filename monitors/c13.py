"""C13: UpdateMask accessors, dirty tracking and wire form agree with the published field table.

History + executable model.  The driver (harness/umask_driver) executes operation sequences on the
real update-mask types and logs what happened.  This module holds the model: three maps (present,
dirty, values as u32 words) driven by the same sequence, where offset / size / type of every field
come from the published table wowm_language/src/types/update-mask.md (never from the generated
indices) and struct layouts (VisibleItem, SkillInfo) from the reference reading of the wowm files.
"""
import collections, json, multiprocessing, os, random, re, struct
from lib import common
from ref import model as rmodel, codec as rcodec

EXPS = {'vanilla': '1.12', 'tbc': '2.4.3', 'wrath': '3.3.5'}
# object hierarchy of the game: which "Fields that all <x> have" tables apply to a mask kind
SECTIONS = {'UpdateItem': ['objects', 'items'], 'UpdateContainer': ['objects', 'items', 'containers'],
            'UpdateUnit': ['objects', 'units'], 'UpdatePlayer': ['objects', 'units', 'players'],
            'UpdateGameObject': ['objects', 'gameobjects'], 'UpdateDynamicObject': ['objects', 'dynamicobjects'],
            'UpdateCorpse': ['objects', 'corpses']}
SECTION_TYPE = {'objects': 'OBJECT', 'items': 'ITEM', 'containers': 'CONTAINER', 'units': 'UNIT', 'players': 'PLAYER',
                'gameobjects': 'GAME_OBJECT', 'dynamicobjects': 'DYNAMIC_OBJECT', 'corpses': 'CORPSE'}
TYPE_FIELD = 2          # OBJECT_TYPE, documented in update-mask.md (needed by every reader)
M32 = 0xFFFFFFFF


# ------------------------------------------------------------------------------------------------
# published table

def parse_table(path):
    """-> {version: {section: [(NAME, offset, size, TYPE)]}}"""
    ver = sect = None
    out = {}
    with open(path) as f:
        for line in f:
            m = re.match(r'###\s+Version\s+(\S+)', line)
            if m:
                ver, sect = m.group(1), None
                continue
            m = re.match(r'Fields that all (\w+) have', line)
            if m:
                sect = m.group(1)
                continue
            m = re.match(r'\|`(\w+)`\|\s*(0x[0-9a-fA-F]+|\d+)\s*\|\s*(\d+)\s*\|\s*(\w+)\s*\|', line)
            if m and ver and sect:
                out.setdefault(ver, {}).setdefault(sect, []).append((m.group(1), int(m.group(2), 0), int(m.group(3)), m.group(4)))
    return out


# ------------------------------------------------------------------------------------------------
# static context: table x API surface x wowm structs

def bare(t):
    return t.split('::')[-1].strip()


def swap16(w):
    return ((w >> 16) | (w << 16)) & M32


class StructLayout:
    """Word layout of a wowm struct used inside the update mask, by constructor parameter."""

    def __init__(s, cdc, obj, ctor):
        s.name = obj.name
        s.params = []        # (name, kind, count, byte offset, width) in constructor order
        s.const_bytes = {}
        members = {}
        off = 0
        for m in obj.raw['members']:
            if m['m'] != 'def':
                raise rcodec.RefError(f'{obj.name}: conditional member')
            ty = rmodel.ALIASES.get(m['ty'], m['ty'])
            w = cdc.wire_int(m)[0]
            cnt = int(m['array']) if m['array'] else 1
            if m['value'] is not None:
                v = int(m['value'], 0)
                for k in range(cnt):
                    s.const_bytes[off + k * w] = (w, v)
            else:
                members[m['name']] = (off, w, cnt, bool(m['array']), m['ty'])
            off += w * cnt
        s.size = off
        if off % 4:
            raise rcodec.RefError(f'{obj.name}: size {off} is not a whole number of words')
        s.words = off // 4
        for (n, t) in ctor:
            if n not in members:
                raise rcodec.RefError(f'{obj.name}: constructor parameter {n} is not a member')
            o, w, cnt, arr, ty = members.pop(n)
            s.params.append((n, t, cnt, o, w, arr))
        if members:
            raise rcodec.RefError(f'{obj.name}: members without constructor parameter: {sorted(members)}')
        # words that carry at least one non-constant byte
        s.value_words = sorted({(o + k * w + b) // 4 for (_, _, cnt, o, w, _) in s.params for k in range(cnt) for b in range(w)})

    def flat_len(s):
        return sum(cnt for (_, _, cnt, _, _, _) in s.params)

    def encode(s, flat):
        """flat ints in constructor order (Guid = one u64) -> {word: u32} for the value words"""
        b = bytearray(s.size)
        for o, (w, v) in s.const_bytes.items():
            b[o:o + w] = v.to_bytes(w, 'little')
        i = 0
        for (_, _, cnt, o, w, _) in s.params:
            for k in range(cnt):
                b[o + k * w:o + (k + 1) * w] = (flat[i] & ((1 << (8 * w)) - 1)).to_bytes(w, 'little')
                i += 1
        return {k: struct.unpack_from('<I', b, 4 * k)[0] for k in s.value_words}

    def decode_show(s, words):
        """{word: u32} -> list as the driver shows it (Guid = two halves)"""
        b = bytearray(s.size)
        for k, v in words.items():
            struct.pack_into('<I', b, 4 * k, v)
        out = []
        for (_, t, cnt, o, w, _) in s.params:
            for k in range(cnt):
                v = int.from_bytes(b[o + k * w:o + (k + 1) * w], 'little')
                if w == 8:
                    out += [v & M32, v >> 32]
                else:
                    out.append(v)
        return out


class Field:
    """One generated accessor family (builder setter, &mut setter, getter) tied to a table row."""
    __slots__ = ('name', 'row', 'acc', 'vparams', 'iparams', 'shape', 'layout', 'elem_words', 'index_values',
                 'stride', 'problems', 'enum_values')


def classify_shape(vtypes, ctx):
    """shape of the value parameters of a setter, from the Rust parameter types only"""
    b = [bare(t) for t in vtypes]
    if b == ['Guid']:
        return 'GUID'
    if b == ['i32']:
        return 'INT'
    if b == ['f32']:
        return 'FLOAT'
    if len(b) == 2 and all(x == 'u16' for x in b):
        return 'TWO_SHORT'
    if len(b) == 4 and all(x == 'u8' or ctx.enum_width(x) == 1 for x in b):
        return 'BYTES'
    if len(b) == 1 and b[0] in ctx.layouts:
        return 'STRUCT'
    return None


SHAPE_WORDS = {'GUID': 2, 'INT': 1, 'FLOAT': 1, 'TWO_SHORT': 1, 'BYTES': 1}
COMPAT = {'GUID': ('GUID', 'CUSTOM'), 'INT': ('INT',), 'FLOAT': ('FLOAT',), 'TWO_SHORT': ('TWO_SHORT',), 'BYTES': ('BYTES',),
          'STRUCT': ('CUSTOM',)}


class ExpCtx:
    def __init__(s, exp, api, table, corpus, index_counts):
        s.exp = exp
        s.env = corpus.env('world', exp)
        s.cdc = rcodec.Codec(s.env)
        s.msg = s.env.containers['SMSG_UPDATE_OBJECT']
        s.api = api
        s.table = table
        s.index_counts = index_counts
        s.problems = []
        s._enum = {}
        for n in api['enums']:
            o = s.env.definers.get(n)
            if o is not None and o.kind == 'enum':
                s._enum[n] = (rcodec.definer_base(o)[0], sorted({uv for (_, uv, _) in rcodec.definer_values(o)}))
        s.layouts = {}
        for n, ctor in api['structs'].items():
            o = s.env.containers.get(n)
            if o is None:
                s.problems.append(f'struct {n} has no wowm definition')
                continue
            try:
                s.layouts[n] = StructLayout(s.cdc, o, [(a, b) for a, b in ctor])
            except rcodec.RefError as e:
                s.problems.append(str(e))
        ot = {n: uv for (n, uv, _) in rcodec.definer_values(s.env.definers['ObjectType'])}
        s.kinds = {}
        for kind, funcs in api['kinds'].items():
            if kind not in SECTIONS:
                s.problems.append(f'mask kind {kind} is unknown to the checker')
                continue
            s.kinds[kind] = KindCtx(s, kind, funcs, ot)

    def enum_width(s, name):
        return s._enum[name][0] if name in s._enum else None

    def enum_values(s, name):
        if name in s._enum:
            return s._enum[name][1]
        if name in s.index_counts:
            return list(range(s.index_counts[name]))
        return None


class KindCtx:
    def __init__(s, ectx, kind, funcs, objtypes):
        s.e, s.exp, s.kind = ectx, ectx.exp, kind
        s.rows = [r for sec in SECTIONS[kind] for r in ectx.table.get(sec, [])]
        s.typemask = 0
        for sec in SECTIONS[kind]:
            s.typemask |= 1 << objtypes[SECTION_TYPE[sec]]
        byname = {}
        for r in s.rows:
            byname.setdefault(r[0].lower(), []).append(r)
        fam = collections.OrderedDict()
        for f in funcs:
            n = f['n'][4:] if f['form'] in ('set', 'bset') and f['n'].startswith('set_') else f['n']
            fam.setdefault(n, {})[f['form']] = f
        s.fields = collections.OrderedDict()
        s.unmatched = []            # accessors that cannot be exercised, with the reason
        for n, acc in fam.items():
            why = s._make_field(n, acc, byname)
            if why:
                s.unmatched.append((n, sorted(acc), why))
        s.rows_without_accessor = sorted(r[0] for r in s.rows if r[0].lower() not in fam)
        s.word_owner = {}
        for f in s.fields.values():
            for w in range(f.row[1], f.row[1] + f.row[2]):
                s.word_owner.setdefault(w, f)

    def _make_field(s, n, acc, byname):
        rows = byname.get(n)
        if not rows:
            return 'no table row with this name'
        if len(rows) > 1:
            return 'several table rows with this name'
        setter = acc.get('set') or acc.get('bset')
        if setter is None:
            return 'getter without setter'
        f = Field()
        f.name, f.row, f.acc, f.problems = n, rows[0], acc, []
        g = acc.get('get')
        inames = [p[0] for p in g['p']] if g else []
        f.iparams = [tuple(p) for p in setter['p'] if p[0] in inames]
        f.vparams = [tuple(p) for p in setter['p'] if p[0] not in inames]
        for form in ('set', 'bset'):
            if form in acc and [tuple(p) for p in acc[form]['p']] != [tuple(p) for p in setter['p']]:
                return 'builder and &mut setter take different parameters'
        if len(f.iparams) > 1:
            return 'more than one index parameter'
        f.shape = classify_shape([t for _, t in f.vparams], s.e)
        if f.shape is None:
            return 'parameter types not understood: ' + ', '.join(t for _, t in f.vparams)
        f.layout = s.e.layouts[bare(f.vparams[0][1])] if f.shape == 'STRUCT' else None
        f.elem_words = f.layout.words if f.layout else SHAPE_WORDS[f.shape]
        f.enum_values = [s.e.enum_values(bare(t)) if bare(t) not in ('u8',) else None for _, t in f.vparams] if f.shape == 'BYTES' else None
        if f.shape == 'BYTES' and any(v is None and bare(t) != 'u8' for v, (_, t) in zip(f.enum_values, f.vparams)):
            return 'enum parameter without wowm definition'
        f.index_values, f.stride = None, 0
        if f.iparams:
            vals = s.e.enum_values(bare(f.iparams[0][1]))
            if not vals:
                return 'index type without known values'
            f.index_values = vals
            if bare(f.iparams[0][1]) in s.e._enum:
                f.stride = f.elem_words                       # indexed by a wowm enum: consecutive elements
            else:
                f.stride = f.row[2] // len(vals) if f.row[2] % len(vals) == 0 else f.elem_words
        s.fields[n] = f
        return None

    # -- value <-> words ---------------------------------------------------------------------
    def parse_args(s, f, text, with_value=True):
        """argument text of an op -> (index value or None, list of python values)"""
        parts = text.split(',') if text else []
        params = (f.vparams if with_value else []) + f.iparams
        # the setter's parameter order is the API's; index parameters may come first or last
        order = [tuple(p) for p in (f.acc.get('set') or f.acc.get('bset'))['p']] if with_value else f.iparams
        vals, idx = [], None
        for (pn, pt), tx in zip(order, parts):
            if (pn, pt) in f.iparams:
                idx = int(tx)
            elif f.shape == 'STRUCT':
                vals = [int(x) for x in tx.split('/')]
            elif bare(pt) == 'f32':
                vals.append(int(tx, 16))
            else:
                vals.append(int(tx))
        return idx, vals

    def fmt_args(s, f, idx, vals, with_value=True):
        order = [tuple(p) for p in (f.acc.get('set') or f.acc.get('bset'))['p']] if with_value else f.iparams
        out, vi = [], 0
        for (pn, pt) in order:
            if (pn, pt) in f.iparams:
                out.append(str(idx))
            elif f.shape == 'STRUCT':
                out.append('/'.join(str(x) for x in vals))
            elif bare(pt) == 'f32':
                out.append('0x%08x' % vals[vi]); vi += 1
            else:
                out.append(str(vals[vi])); vi += 1
        return ','.join(out)

    def base(s, f, idx):
        return f.row[1] + (idx * f.stride if f.iparams else 0)

    def words(s, f, idx, vals):
        """-> {absolute word index: u32} the model stores for this setter call"""
        b = s.base(f, idx)
        sh = f.shape
        if sh == 'GUID':
            return {b: vals[0] & M32, b + 1: (vals[0] >> 32) & M32}
        if sh in ('INT', 'FLOAT'):
            return {b: vals[0] & M32}
        if sh == 'BYTES':
            return {b: vals[0] | vals[1] << 8 | vals[2] << 16 | vals[3] << 24}
        if sh == 'TWO_SHORT':
            return {b: vals[0] | vals[1] << 16}       # first argument = lower half (little endian, like BYTES)
        return {b + k: v for k, v in f.layout.encode(vals).items()}

    def field_words(s, f, idx):
        b = s.base(f, idx)
        if f.shape == 'STRUCT':
            return [b + k for k in f.layout.value_words]
        return list(range(b, b + f.elem_words))

    def show(s, f, idx, vals_by_word):
        """expected getter result (as the driver shows it) from the model's words"""
        b = s.base(f, idx)
        w = [vals_by_word[i] for i in s.field_words(f, idx)]
        sh = f.shape
        if sh == 'GUID':
            return [w[0], w[1]]
        if sh in ('INT', 'FLOAT'):
            return [w[0]]
        if sh == 'BYTES':
            return [w[0] & 255, (w[0] >> 8) & 255, (w[0] >> 16) & 255, w[0] >> 24]
        if sh == 'TWO_SHORT':
            return [w[0] & 0xFFFF, w[0] >> 16]
        return f.layout.decode_show({k: vals_by_word[b + k] for k in f.layout.value_words})

    # -- values ------------------------------------------------------------------------------
    def gen_vals(s, f, rng, tagged=False):
        sh = f.shape
        if sh == 'GUID':
            return [0x0807060504030201 if tagged else rng.choice([0, 1, rng.getrandbits(64), rng.getrandbits(64) | (1 << 63) | 1, rng.getrandbits(32), rng.getrandbits(32) << 32])]
        if sh == 'INT':
            v = 0x51A2B3C4 if tagged else rng.choice([0, 1, -1, 0x7FFFFFFF, -0x80000000, rng.randrange(-2 ** 31, 2 ** 31), rng.randrange(-2 ** 31, 2 ** 31)])
            return [v]
        if sh == 'FLOAT':
            if tagged:
                return [0x40490FDB]
            r = rng.getrandbits(32)
            if (r >> 23) & 0xFF == 0xFF:
                r &= ~(1 << 30) & M32            # keep random values finite
            return [rng.choice([0, 0x3F800000, 0xBF800000, 0x7F800000, 0x80000000, 0x7FC00000, r, r])]
        if sh == 'TWO_SHORT':
            return [0x1234, 0xABCD] if tagged else [rng.choice([0, 1, 0xFFFF, rng.getrandbits(16)]), rng.choice([0, 2, 0xFFFE, rng.getrandbits(16)])]
        if sh == 'BYTES':
            out = []
            for k, ev in enumerate(f.enum_values):
                if ev is None:
                    out.append([0xA1, 0xB2, 0xC3, 0xD4][k] if tagged else rng.choice([0, 255, rng.getrandbits(8), rng.getrandbits(8)]))
                else:
                    out.append(ev[(k + 1) % len(ev)] if tagged else rng.choice(ev))
            return out
        out = []
        k = 0
        for (_, t, cnt, _, w, _) in f.layout.params:
            ev = s.e.enum_values(bare(t))
            for _ in range(cnt):
                k += 1
                if ev is not None:
                    out.append(ev[k % len(ev)] if tagged else rng.choice(ev))
                elif tagged:
                    out.append(int.from_bytes(bytes(((0x10 * k + j + 1) & 255) for j in range(w)), 'little'))
                else:
                    out.append(rng.choice([0, (1 << (8 * w)) - 1, rng.getrandbits(8 * w), rng.getrandbits(8 * w)]))
        return out

    def gen_index(s, f, rng, edge=False):
        if not f.iparams:
            return None
        if edge:
            return rng.choice([f.index_values[0], f.index_values[-1]])
        return rng.choice(f.index_values)


# ------------------------------------------------------------------------------------------------
# the model

class Model:
    def __init__(s, k, start):
        s.k = k
        s.present, s.dirty, s.vals = set(), set(), {}
        s.nblocks = 0
        s.builder = start == 'builder'
        s.wire_quirk, s.get_quirk = set(), set()
        if start in ('new', 'builder'):
            s.put({TYPE_FIELD: k.typemask})

    def put(s, words):
        for i, v in words.items():
            s.vals[i] = v
            s.present.add(i)
            s.nblocks = max(s.nblocks, i // 32 + 1)
            if not s.builder:
                s.dirty.add(i)

    def finalize(s):
        if s.builder:
            s.builder = False
            s.dirty = set(s.present)

    def written(s):
        return {i: s.vals[i] for i in s.present & s.dirty}

    def adopt(s, written):
        s.present = set(written)
        s.dirty = set(written)
        s.vals = dict(written)


def parse_op(op):
    p = op.split(':', 2)
    return p[0], (p[1] if len(p) > 1 else ''), (p[2] if len(p) > 2 else '')


def norm_msg(m):
    return re.sub(r'\d+', 'N', (m or '').split(' @ ')[0])[:80]


def panic_at(m):
    """file (without line) where a logged panic was raised, relative to the crate"""
    loc = (m or '').split(' @ ')[1] if ' @ ' in (m or '') else ''
    loc = loc.rsplit(':', 1)[0]
    i = loc.find('wow_world_messages/')
    return loc[i:] if i >= 0 else loc


def judge(k, seq, ev):
    """-> (list of (obs, detail), stats dict).  Stops at the first discrepancy that desynchronises the model."""
    out = []
    st = collections.Counter()
    base = {'exp': k.exp, 'kind': k.kind, 'group': seq['group']}

    def bad(obs, detail):
        o = dict(base)
        o.update(obs)
        out.append((o, detail))

    if ev is None:
        return None, st
    res = ev.get('result')
    if res == 'harness_error':
        return 'harness_error: ' + str(ev.get('why')), st
    if res != 'ok':
        bad({'check': 'driver', 'reason': str(res), 'panic_at': ev.get('panic_at', ''), 'alloc_refused': 'alloc_refused' in ev}, {'event': {a: str(b)[:300] for a, b in ev.items()}})
        return out, st
    log = ev['log']
    m = Model(k, seq['start'])
    for i, op in enumerate(seq['ops']):
        if i >= len(log):
            break
        e = log[i]
        code, name, argt = parse_op(op)
        st['steps'] += 1
        st['op_' + code] += 1
        if code != 'b':
            m.finalize()
        f = k.fields.get(name[4:] if code in ('s', 'b') else name) if code in ('s', 'b', 'g') else None
        if 'panic' in e:
            msg = norm_msg(e['panic'])
            at = panic_at(e['panic'])
            if code == 'D':
                bit = int(name)
                bad({'check': 'is_bit_dirty', 'reason': 'panic', 'beyond_blocks': bit // 32 >= m.nblocks, 'msg': msg, 'panic_at': at}, {'step': i, 'op': op, 'blocks': m.nblocks})
            elif code == 'g' and f is not None:
                idx, _ = k.parse_args(f, argt, with_value=False)
                fw = k.field_words(f, idx)
                npres = sum(1 for w in fw if w in m.present)
                bad({'check': 'get', 'reason': 'panic', 'field': f.name, 'shape': f.shape, 'partial': 0 < npres < len(fw), 'msg': msg, 'panic_at': at},
                    {'step': i, 'op': op, 'present_words': [w for w in fw if w in m.present], 'field_words': fw, 'panic': e['panic']})
            else:
                bad({'check': 'panic', 'op': code, 'field': f.name if f else '', 'msg': msg, 'panic_at': at}, {'step': i, 'op': op, 'panic': e['panic']})
            break
        if code in ('s', 'b'):
            idx, vals = k.parse_args(f, argt)
            m.put(k.words(f, idx, vals))
        elif code == 'g':
            idx, _ = k.parse_args(f, argt, with_value=False)
            fw = k.field_words(f, idx)
            npres = sum(1 for w in fw if w in m.present)
            obs = e.get('r')
            if 0 < npres < len(fw):
                st['get_partial_not_judged'] += 1
                continue
            exp = k.show(f, idx, m.vals) if npres else None
            qk = (f.name, idx)
            if exp is not None and qk in m.get_quirk:
                exp = exp[::-1]
            if obs != exp:
                rel = 'other'
                if exp is None or obs is None:
                    rel = 'presence'
                elif f.shape == 'TWO_SHORT' and obs == exp[::-1]:
                    rel = 'halves_swapped'
                    m.get_quirk ^= {qk}
                bad({'check': 'get', 'reason': 'value', 'ftype': f.row[3], 'shape': f.shape, 'field': f.name, 'relation': rel},
                    {'step': i, 'op': op, 'expected': exp, 'observed': obs})
                if rel != 'halves_swapped':
                    break
            else:
                st['get_some' if exp is not None else 'get_none'] += 1
        elif code == 'R':
            m.dirty = set()
        elif code == 'F':
            m.dirty = set(m.present)
        elif code == 'A':
            exp = bool(m.dirty)
            if e.get('r') != exp:
                bad({'check': 'has_any_dirty', 'reason': 'value', 'expected': exp}, {'step': i, 'op': op, 'observed': e.get('r')})
                break
            st['any_' + str(exp).lower()] += 1
        elif code == 'D':
            bit = int(name)
            if bit in m.present:
                exp = bit in m.dirty
                if e.get('r') != exp:
                    bad({'check': 'is_bit_dirty', 'reason': 'value', 'expected': exp}, {'step': i, 'op': op, 'observed': e.get('r')})
                    break
                st['bit_' + str(exp).lower()] += 1
            elif bit // 32 >= m.nblocks:
                if e.get('r') is not False:
                    bad({'check': 'is_bit_dirty', 'reason': 'value', 'expected': False, 'beyond_blocks': True}, {'step': i, 'op': op, 'observed': e.get('r')})
                    break
                st['bit_beyond_blocks_false'] += 1
            else:
                st['bit_absent_field_not_judged'] += 1
        elif code in ('W', 'X'):
            stop = judge_write(k, m, seq, i, op, code, name, e, bad, st)
            if stop:
                break
        else:
            return f'unknown op {op}', st
    st['sequences'] += 1
    return out, st


def judge_write(k, m, seq, i, op, code, ut, e, bad, st):
    """-> True if the model cannot be continued"""
    det = {'step': i, 'op': op}
    if 'write_err' in e or 'frame' not in e:
        bad({'check': 'write', 'reason': 'error'}, dict(det, event=e))
        return True
    frame = bytes.fromhex(e['frame'])
    exp_written = m.written()
    cdc = k.e.cdc
    if len(frame) < 4:
        bad({'check': 'write', 'reason': 'short_frame'}, dict(det, frame=e['frame']))
        return True
    try:
        hl = cdc.header_len('server', len(frame) - 4)
        body = frame[hl:]
        vals, _ = cdc.decode(k.e.msg, body)
    except (rcodec.DecodeError, rcodec.RefError, IndexError, struct.error) as x:
        bad({'check': 'wire', 'reason': 'reference_decode', 'why': norm_msg(str(x))}, dict(det, frame=e['frame'], expected_fields={str(a): b for a, b in exp_written.items()}))
        return True
    # reported size: the header the real writer put in front (computed from size()) against the bytes it wrote
    if cdc.frame(k.e.msg, body, 'server') != frame:
        bad({'check': 'size', 'reason': 'header'}, dict(det, frame_head=frame[:8].hex(), body_len=len(body)))
        return True
    objs = vals.get('objects') or []
    want_ut = 0 if ut == 'v' else 3
    if len(objs) != 1 or objs[0].get('update_type') != want_ut:
        bad({'check': 'wire', 'reason': 'envelope'}, dict(det, decoded=str(vals)[:300]))
        return True
    nb, obs_written = objs[0]['mask1' if ut == 'v' else 'mask2']
    if nb != m.nblocks:
        bad({'check': 'wire', 'reason': 'block_count', 'delta': nb - m.nblocks}, dict(det, expected=m.nblocks, observed=nb))
        return True
    extra = sorted(set(obs_written) - set(exp_written))
    missing = sorted(set(exp_written) - set(obs_written))
    if extra or missing:
        owner = k.word_owner.get((missing or extra)[0])
        cls = 'shifted' if extra and missing and len(extra) == len(missing) else 'missing' if missing and not extra else 'extra' if extra else 'both'
        bad({'check': 'wire', 'reason': 'mask_bits', 'class': cls, 'field': owner.name if owner else '', 'ftype': owner.row[3] if owner else '',
             'n_extra': len(extra), 'n_missing': len(missing)},
            dict(det, extra=extra[:40], missing=missing[:40], frame=e['frame'][:400]))
        return True
    stop = False
    for idx in sorted(exp_written):
        ex = exp_written[idx]
        if idx in m.wire_quirk:
            ex = swap16(ex)
        ob = obs_written[idx]
        if ob != ex:
            owner = k.word_owner.get(idx)
            rel = 'halves_swapped' if ob == swap16(ex) else 'other'
            bad({'check': 'wire_value', 'reason': 'value', 'ftype': owner.row[3] if owner else '', 'shape': owner.shape if owner else '',
                 'field': owner.name if owner else '', 'relation': rel},
                dict(det, index=idx, expected='%08x' % ex, observed='%08x' % ob))
            if rel == 'halves_swapped':
                m.wire_quirk ^= {idx}
            else:
                stop = True
    if stop:
        return True
    st['writes'] += 1
    st['written_fields'] += len(exp_written)
    st['writes_empty' if not exp_written else 'writes_nonempty'] += 1
    # ascending order and "values follow the mask" are implied by the reference decode consuming the body exactly
    has_type = TYPE_FIELD in exp_written
    if 'dpanic' in e:
        bad({'check': 'decode', 'reason': 'panic', 'has_type': has_type, 'msg': norm_msg(e['dpanic'])}, dict(det, frame=e['frame'][:400]))
        return True
    if not has_type:
        st['decode_without_type_field_not_judged'] += 1
        if e.get('adopted'):
            bad({'check': 'decode', 'reason': 'adopted_without_type'}, det)
            return True
        return False
    if 'derr' in e or 'dother' in e:
        bad({'check': 'decode', 'reason': 'rejected', 'why': norm_msg(e.get('derr', 'other message'))}, dict(det, frame=e['frame'][:400]))
        return True
    if e.get('consumed') != len(frame):
        bad({'check': 'decode', 'reason': 'consumed'}, dict(det, consumed=e.get('consumed'), length=len(frame)))
        return True
    if e.get('dkind') != k.kind:
        bad({'check': 'decode', 'reason': 'kind', 'observed': e.get('dkind')}, det)
        return True
    if e.get('reframe') != e['frame']:
        bad({'check': 'decode', 'reason': 'reencode', 'why': 'repanic' if 'repanic' in e else 'bytes'},
            dict(det, frame=e['frame'][:400], reframe=str(e.get('reframe'))[:400], repanic=e.get('repanic')))
        return True
    st['decodes'] += 1
    if code == 'X':
        if not e.get('adopted'):
            bad({'check': 'decode', 'reason': 'not_adopted'}, det)
            return True
        # the decoded object holds exactly the written fields; the model keeps its own (documented) word values
        m.adopt(exp_written)
        st['adopted'] += 1
    return False


# ------------------------------------------------------------------------------------------------
# sequence generation

def seq_id(group, k, n):
    return f'{group}.{k.exp}.{k.kind}.{n}'


def set_op(k, f, idx, vals, builder=False):
    return f"{'b' if builder else 's'}:set_{f.name}:{k.fmt_args(f, idx, vals)}"


def get_op(k, f, idx):
    a = k.fmt_args(f, idx, None, with_value=False)
    return f'g:{f.name}' + (':' + a if a else '')


def table_sequences(k):
    """every accessor once with a tagged value, in &mut and in builder form"""
    rng = random.Random(7)
    out = []
    n = 0
    for f in k.fields.values():
        idxs = [None]
        if f.iparams:
            iv = f.index_values
            idxs = sorted({iv[0], iv[1 % len(iv)], iv[len(iv) // 2], iv[-1]})
        for idx in idxs:
            vals = k.gen_vals(f, rng, tagged=True)
            g = [get_op(k, f, idx)] if 'get' in f.acc else []
            bits = [f'D:{w}' for w in k.field_words(f, idx)[:3]]
            if 'set' in f.acc:
                ops = ['R', set_op(k, f, idx, vals)] + g + bits + ['A', 'W:v', 'F', 'X:c'] + g
                out.append({'id': seq_id('table', k, n), 'group': 'table', 'start': 'new', 'ops': ops, 'field': f.name, 'index': idx, 'form': 'set'})
                n += 1
            if 'bset' in f.acc:
                ops = [set_op(k, f, idx, vals, builder=True)] + g + ['W:c', 'R', 'W:v']
                out.append({'id': seq_id('table', k, n), 'group': 'table', 'start': 'builder', 'ops': ops, 'field': f.name, 'index': idx, 'form': 'bset'})
                n += 1
    return out


def representative(k):
    """a GUID pair, the fields around bit 31/32, the highest field, a BYTES, a TWO_SHORT and a multi-word field"""
    fs = [f for f in k.fields.values() if 'set' in f.acc and 'get' in f.acc]
    pick = collections.OrderedDict()

    def add(tag, f, idx=None):
        if f is not None and all(x[0] is not f for x in pick.values()):
            pick[tag] = (f, idx)

    add('guid', next((f for f in fs if f.shape == 'GUID' and not f.iparams), None))
    plain = [f for f in fs if not f.iparams]
    below = [f for f in plain if f.row[1] <= 31]
    above = [f for f in plain if f.row[1] >= 32]
    add('bit31', max(below, key=lambda f: f.row[1]) if below else None)
    add('bit32', min(above, key=lambda f: f.row[1]) if above else None)
    add('highest', max(plain, key=lambda f: f.row[1]) if plain else None)
    add('bytes', next((f for f in plain if f.shape == 'BYTES'), None))
    add('two_short', next((f for f in plain if f.shape == 'TWO_SHORT'), None))
    st = next((f for f in fs if f.shape == 'STRUCT'), None)
    if st is not None:
        add('multi', st, st.index_values[-1])
    else:
        gs = [f for f in plain if f.shape == 'GUID']
        add('multi', gs[-1] if gs else None)
    return pick


def exhaustive_alphabet(k):
    rng = random.Random(11)
    rep = representative(k)
    alpha = []
    for tag, (f, idx) in rep.items():
        alpha.append(('s', f, idx, k.gen_vals(f, rng, tagged=True)))
    if rep:
        f, idx = next(iter(rep.values()))
        alpha.append(('s', f, idx, k.gen_vals(f, rng)))
    alpha += [('R',), ('F',), ('X:v',)]
    suffix = ['A'] + [get_op(k, f, idx) for (f, idx) in rep.values()]
    suffix += ['W:v', 'X:c'] + [get_op(k, f, idx) for (f, idx) in list(rep.values())[:3]]
    bits = sorted({w for (f, idx) in rep.values() for w in k.field_words(f, idx)[:1]} | {TYPE_FIELD})
    suffix += [f'D:{b}' for b in bits[:6]]          # ascending, last: a query beyond the allocated blocks ends the sequence
    return rep, alpha, suffix


def exhaustive_sequences(k, start, depth, first):
    """all sequences of `depth` letters whose first letter is alphabet[first]"""
    rep, alpha, suffix = exhaustive_alphabet(k)
    if first >= len(alpha):
        return []
    out = []
    names = ['s%d' % i if a[0] == 's' else a[0] for i, a in enumerate(alpha)]

    def rec(prefix, d):
        if d == 0:
            ops = []
            in_builder = start == 'builder'
            for j in prefix:
                a = alpha[j]
                if a[0] == 's':
                    ops.append(set_op(k, a[1], a[2], a[3], builder=in_builder))
                else:
                    in_builder = False
                    ops.append(a[0])
            shape = tuple(names[j] for j in prefix)
            out.append({'id': seq_id('exh' + start[0], k, '-'.join(shape)), 'group': 'exhaustive', 'start': start, 'ops': ops + suffix,
                        'shape': (start,) + shape})
            return
        for j in range(len(alpha)):
            rec(prefix + [j], d - 1)

    rec([first], depth - 1)
    return out


def random_sequences(k, lo, hi_n, seed, maxlen=200):
    fs = list(k.fields.values())
    setf = [f for f in fs if 'set' in f.acc]
    bsetf = [f for f in fs if 'bset' in f.acc]
    getf = [f for f in fs if 'get' in f.acc]
    out = []
    for n in range(lo, hi_n):
        rng = random.Random(f'{seed}.{k.exp}.{k.kind}.{n}')
        length = rng.choice([rng.randint(1, 12), rng.randint(10, 60), rng.randint(40, maxlen)])
        start = rng.choice(['new', 'new', 'builder', 'builder', 'default'])
        ops = []
        touched = []
        hi = 2
        if start == 'builder' and bsetf:
            for _ in range(rng.randint(0, min(20, length))):
                f = rng.choice(bsetf)
                idx = k.gen_index(f, rng)
                ops.append(set_op(k, f, idx, k.gen_vals(f, rng), builder=True))
                touched.append((f, idx))
                hi = max(hi, k.base(f, idx) + f.elem_words)
        while len(ops) < length:
            r = rng.random()
            if r < 0.42 and setf:
                f = rng.choice(touched)[0] if touched and rng.random() < 0.25 else rng.choice(setf)
                if 'set' not in f.acc:
                    continue
                idx = k.gen_index(f, rng)
                ops.append(set_op(k, f, idx, k.gen_vals(f, rng)))
                touched.append((f, idx))
                hi = max(hi, k.base(f, idx) + f.elem_words)
            elif r < 0.67 and getf:
                if touched and rng.random() < 0.7:
                    f, idx = rng.choice(touched)
                    if 'get' not in f.acc:
                        continue
                else:
                    f = rng.choice(getf)
                    idx = k.gen_index(f, rng)
                ops.append(get_op(k, f, idx))
            elif r < 0.72:
                ops.append('R')
            elif r < 0.75:
                ops.append('F')
            elif r < 0.80:
                ops.append('A')
            elif r < 0.86:
                if touched and rng.random() < 0.7:
                    f, idx = rng.choice(touched)
                    ops.append(f'D:{rng.choice(k.field_words(f, idx))}')
                elif start != 'default' or touched:
                    ops.append(f'D:{rng.randrange(0, ((hi - 1) // 32 + 1) * 32)}')
            elif r < 0.94:
                ops.append('W:' + rng.choice('vc'))
            else:
                ops.append('X:' + rng.choice('vc'))
        out.append({'id': seq_id('rnd', k, n), 'group': 'random', 'start': start, 'ops': ops})
    return out


def edge_sequences(k):
    """dirty queries outside the allocated blocks, empty masks, the default-constructed mask"""
    out = []
    top = max((r[1] + r[2] for r in k.rows), default=8)
    cases = [('new', ['D:2', 'D:0', 'D:31', 'A', 'W:v', 'W:c']),
             ('new', ['D:32']),
             ('new', [f'D:{top - 1}']),
             ('new', ['R', 'A', 'D:2', 'W:v', 'F', 'A', 'D:2', 'D:3', 'W:v', 'X:c', 'A', 'D:2']),
             ('builder', ['A', 'D:2', 'W:c']),
             ('default', ['A', 'W:v', 'F', 'A', 'R', 'A', 'W:c']),
             ('default', ['D:0']),
             ('new', ['D:65535'])]
    for n, (start, ops) in enumerate(cases):
        out.append({'id': seq_id('edge', k, n), 'group': 'edge', 'start': start, 'ops': ops})
    return out


def overlapping_rows(k):
    """pairs of rows of the published table (of this mask kind) that claim the same word"""
    rows = sorted(k.rows, key=lambda r: r[1])
    return [(a, b) for i, a in enumerate(rows) for b in rows[i + 1:] if b[1] < a[1] + a[2]]


def alias_sequences(k):
    """fields whose table rows overlap share storage: set A, set B, read both, write; and reading A when only B was set"""
    rng = random.Random(13)
    fs = list(k.fields.values())
    out = []
    n = 0
    for i, a in enumerate(fs):
        for b in fs[i + 1:]:
            if a.row[1] + a.row[2] <= b.row[1] or b.row[1] + b.row[2] <= a.row[1]:
                continue
            if 'set' not in a.acc or 'set' not in b.acc:
                continue
            pair = None
            for ia in (a.index_values or [None]):
                wa = set(k.field_words(a, ia))
                for ib in (b.index_values or [None]):
                    if wa & set(k.field_words(b, ib)):
                        pair = (ia, ib)
                        break
                if pair:
                    break
            if not pair:
                continue
            for (x, ix, y, iy) in ((a, pair[0], b, pair[1]), (b, pair[1], a, pair[0])):
                if 'get' not in x.acc:
                    continue
                gy = [get_op(k, y, iy)] if 'get' in y.acc else []
                out.append({'id': seq_id('alias', k, n), 'group': 'alias', 'start': 'new',
                            'ops': [set_op(k, x, ix, k.gen_vals(x, rng, tagged=True)), get_op(k, x, ix), set_op(k, y, iy, k.gen_vals(y, rng)),
                                    get_op(k, x, ix)] + gy + ['W:v', 'X:c', get_op(k, x, ix)] + gy,
                            'pair': (x.name, y.name)})
                n += 1
                out.append({'id': seq_id('alias', k, n), 'group': 'alias', 'start': 'new',
                            'ops': [set_op(k, y, iy, k.gen_vals(y, rng)), get_op(k, x, ix)] + gy + ['W:v'], 'pair': (x.name, y.name)})
                n += 1
    return out


def static_table_checks(k):
    """accessor shape against the row's type and width (no execution needed).
    -> (violations, array rows reachable only at element 0)"""
    out, first_only = [], []
    for f in k.fields.values():
        name, off, size, ty = f.row
        if ty not in COMPAT[f.shape]:
            out.append(({'exp': k.exp, 'kind': k.kind, 'group': 'static', 'check': 'table_type', 'field': f.name, 'ftype': ty, 'shape': f.shape},
                        {'row': list(f.row), 'params': f.vparams}))
        if f.iparams:
            n = len(f.index_values)
            if size % n or f.stride < f.elem_words or max(f.index_values) * f.stride + f.elem_words > size:
                out.append(({'exp': k.exp, 'kind': k.kind, 'group': 'static', 'check': 'table_width', 'reason': 'index_range', 'field': f.name, 'ftype': ty},
                            {'row': list(f.row), 'index_values': n, 'element_words': f.elem_words, 'stride': f.stride}))
        elif size == f.elem_words:
            pass
        elif size % f.elem_words == 0 and size > f.elem_words:
            # element 0 of an array row, addressed at the row's offset with the element's width: consistent with the table
            first_only.append(f'{name} ({size // f.elem_words} x {ty})')
        else:
            out.append(({'exp': k.exp, 'kind': k.kind, 'group': 'static', 'check': 'table_width', 'reason': 'width', 'field': f.name, 'ftype': ty},
                        {'row': list(f.row), 'accessor_words': f.elem_words, 'params': f.vparams}))
    return out, first_only


# ------------------------------------------------------------------------------------------------
# execution

_G = {}


def driver_rows(k, seqs):
    for s in seqs:
        yield [s['id'], 'seq', k.exp, k.kind, s['start']] + s['ops']


def shape_key(seq):
    if 'shape' in seq:
        return seq['shape']
    codes = [parse_op(o)[0] for o in seq['ops']]
    if seq['group'] == 'random':
        return (seq['start'], len(codes) // 25, tuple(codes[:6]))
    if seq['group'] == 'table':
        return (seq['field'], seq['index'], seq['form'])
    if seq['group'] == 'alias':
        return tuple(seq['pair']) + (len(seq['ops']),)
    return (seq['id'].rsplit('.', 1)[-1],)


def run_batch(task):
    """worker: run one batch of sequences of one (exp, kind) and judge it"""
    exp, kind, what, tag = task
    k = _G['ctx'][exp].kinds[kind]
    if what[0] == 'seqs':
        seqs = what[1]
    elif what[0] == 'fixed':
        seqs = table_sequences(k) + edge_sequences(k) + alias_sequences(k)
    elif what[0] == 'exh':
        firsts = [what[3]] if what[3] is not None else range(len(exhaustive_alphabet(k)[1]))
        seqs = [q for first in firsts for q in exhaustive_sequences(k, what[1], what[2], first)]
    else:
        seqs = random_sequences(k, what[1], what[2], _G['seed'])
    if not seqs:
        return {'ok': [], 'viol': [], 'stats': collections.Counter(), 'infra': [], 'samples': []}
    ev = common.run_driver(_G['binary'], driver_rows(k, seqs), f'c13.{tag}', workers=_G.get('workers', 2), timeout=60)
    res = {'ok': [], 'viol': [], 'stats': collections.Counter(), 'infra': [], 'samples': []}
    for s in seqs:
        e = ev.get(s['id'])
        r, st = judge(k, s, e)
        if r is None:
            res['infra'].append(f"{s['id']}: no event")
            continue
        if isinstance(r, str):
            res['infra'].append(f"{s['id']}: {r}")
            continue
        res['stats'].update(st)
        res['stats']['seq_' + s['group']] += 1
        if not r:
            res['ok'].append((exp, kind, s['group'], shape_key(s)))
            if len(res['samples']) < 1 and e is not None and s['group'] in ('random', 'exhaustive'):
                res['samples'].append({'id': s['id'], 'start': s['start'], 'ops': s['ops'][:8], 'log': [json.dumps(x)[:100] for x in e['log'][:8]]})
        seen = set()
        for obs, det in r:
            key = json.dumps(obs, sort_keys=True)
            res['stats']['discrepancies'] += 1
            if key in seen:
                continue
            seen.add(key)
            sq = {a: b for a, b in s.items() if a != 'shape'}
            res['viol'].append((obs, {'seq': sq, 'detail': det, 'event': e if len(json.dumps(e)) < 20000 else {'truncated': True}}))
    return res


def describe(binary):
    ev = common.run_driver(binary, [[f'd.{e}', 'describe', e] for e in EXPS], 'c13.describe', workers=3)
    api = {}
    for e in EXPS:
        r = ev.get(f'd.{e}')
        if not r or r.get('result') != 'ok':
            raise common.Inconclusive(f'driver cannot describe the {e} API: {r}')
        api[e] = r['api']
    return api


def probe_index_counts(binary, api, corpus):
    """cardinality of the generated *Index enums (API surface), by asking the real TryFrom"""
    rows, want = [], {}
    for e in EXPS:
        env = corpus.env('world', e)
        for kind, funcs in api[e]['kinds'].items():
            for f in funcs:
                if f['form'] == 'get' and len(f['p']) == 1 and bare(f['p'][0][1]) not in env.definers:
                    t = bare(f['p'][0][1])
                    if (e, t) in want:
                        continue
                    want[(e, t)] = (kind, f['n'])
                    for v in range(0, 600):
                        rows.append([f'p.{e}.{t}.{v}', 'seq', e, kind, 'new', f"g:{f['n']}:{v}"])
    ev = common.run_driver(binary, rows, 'c13.probe') if rows else {}
    out = {e: {} for e in EXPS}
    for (e, t) in want:
        ok = [v for v in range(600) if (ev.get(f'p.{e}.{t}.{v}') or {}).get('result') == 'ok']
        if not ok or ok != list(range(len(ok))):
            raise common.Inconclusive(f'index type {t} ({e}) does not accept a contiguous range from 0: {ok[:10]}')
        out[e][t] = len(ok)
    return out


def build_context(binary):
    corpus = rmodel.Corpus(rmodel.default_root())
    table = parse_table(os.path.join(common.REPO, 'wowm_language', 'src', 'types', 'update-mask.md'))
    for e, v in EXPS.items():
        if v not in table or not table[v].get('objects'):
            raise common.Inconclusive(f'published table for version {v} not found in update-mask.md')
    api = describe(binary)
    counts = probe_index_counts(binary, api, corpus)
    return {e: ExpCtx(e, api[e], table[v], corpus, counts[e]) for e, v in EXPS.items()}


def run(tier, replay=None):
    chk = common.Check('C13', tier, 'exploration',
                       'operation sequences (typed setters in builder and &mut form, getters, dirty_reset, mark_fully_dirty, '
                       'has_any_dirty_fields, is_bit_dirty, write through SMSG_UPDATE_OBJECT + read back) executed on the real masks and '
                       'on a three-map model fed from the published table: every accessor once with tagged values (field table), '
                       'exhaustive sequences over a representative field set, seeded random sequences over all fields, pairs of fields whose table rows overlap, '
                       'edge cases; distinct = (expansion, kind, group, op-sequence shape) judged without discrepancy')
    binary = common.cargo_build('umask_driver')
    ctx = build_context(binary)
    _G['ctx'], _G['binary'] = ctx, binary
    tasks = []
    static = []
    first_only, overlaps = {}, {}
    if replay:
        rp = json.load(open(replay))
        s = rp['seq']
        exp, kind = s['id'].split('.')[1:3]
        if rp.get('observation', {}).get('group') == 'static':
            static = [x for x in static_table_checks(ctx[exp].kinds[kind])[0] if x[0].get('field') == rp['observation'].get('field')]
        else:
            tasks.append((exp, kind, ('seqs', [s]), 'replay'))
        _G['workers'] = 1
    else:
        quick = tier == 'quick'
        n_random = 300 if quick else 20000
        depth, bdepth = (3, 2) if quick else (4, 4)
        combos = [(e, kd) for e in ctx for kd in ctx[e].kinds]
        per = max(1, -(-n_random // max(1, len(combos))))
        reps = {}
        _G['seed'] = common.seed()
        big = []
        for (e, kd) in combos:
            k = ctx[e].kinds[kd]
            sv, fo = static_table_checks(k)
            static += sv
            if fo:
                first_only[f'{e}.{kd}'] = fo
            ov = overlapping_rows(k)
            if ov:
                overlaps[f'{e}.{kd}'] = [f'{a[0]} [{a[1]}, {a[1] + a[2]}) / {b[0]} [{b[1]}, {b[1] + b[2]})' for a, b in ov]
            tasks.append((e, kd, ('fixed',), f'{e}.{kd}.fixed'))
            rep, alpha, _ = exhaustive_alphabet(k)
            reps[f'{e}.{kd}'] = {tag: f.name + ('' if idx is None else f'[{idx}]') + f'@{k.base(f, idx)}' for tag, (f, idx) in rep.items()}
            for start, dmax in (('new', depth), ('builder', bdepth)):
                for d in range(1, dmax + 1):
                    if d == dmax and d >= 3:
                        for first in range(len(alpha)):
                            big.append((e, kd, ('exh', start, d, first), f'{e}.{kd}.x{start[0]}{d}.{first}'))
                    else:
                        tasks.append((e, kd, ('exh', start, d, None), f'{e}.{kd}.x{start[0]}{d}'))
            step = 25 if quick else 120
            for lo in range(0, per, step):
                tasks.append((e, kd, ('rnd', lo, min(per, lo + step)), f'{e}.{kd}.r{lo}'))
        tasks = big + tasks          # longest tasks first
        chk.extra['representative_fields'] = reps
        chk.extra['array_rows_reachable_only_at_element_0'] = {
            'note': 'API limitation, not judged: the accessor addresses element 0 at the row offset with the element width and type',
            'count': sum(len(v) for v in first_only.values()), 'per_kind': first_only}
        chk.extra['rows_that_overlap_in_the_published_table'] = {
            'note': 'observation about update-mask.md, not a finding: the accessors agree with the table; overlapping fields share storage in the '
                    'word-based model (set A, set B, read A is judged against the shared words)',
            'per_kind': overlaps}
        chk.extra['exhaustive_depth'] = {'new': depth, 'builder': bdepth}
        chk.extra['random_sequences_per_kind'] = per
    stats = collections.Counter()
    infra = []
    results = []
    if len(tasks) > 1:
        with multiprocessing.get_context('fork').Pool(min(common.NCPU, 16)) as pool:
            for r in pool.imap_unordered(run_batch, tasks, chunksize=1):
                results.append(r)
    else:
        results = [run_batch(t) for t in tasks]
    for r in results:
        stats.update(r['stats'])
        infra += r['infra']
        for key in r['ok']:
            chk.ok(key)
        for smp in r['samples']:
            if len(chk.samples) < 5:
                chk.samples.append(smp)
        for obs, rep in r['viol']:
            chk.count(chk.violation(obs, dict(rep, driver_cmd='python3 check.py C13 --replay <this file>')))
    for obs, det in static:
        chk.count('static_checks_failed')
        exp, kind = obs['exp'], obs['kind']
        chk.count(chk.violation(obs, {'seq': {'id': f'static.{exp}.{kind}.0'}, 'detail': det,
                                      'driver_cmd': 'python3 check.py C13 --replay <this file>'}))
    if replay and not chk.violations:
        # a single re-judged case: the verdict needs the sequence and its step count as the two distinct facts
        chk.ok(('replay', rp['seq']['id']))
        chk.ok(('replay-steps', stats.get('steps', 0)))
    for key, v in sorted(stats.items()):
        chk.counts[key] = v
    if infra:
        chk.inconclusive.append(f'{len(infra)} sequences without a usable event, e.g. {infra[:3]}')
    # accessor coverage
    cov = {}
    tot_ex = tot_not = 0
    for e, ec in ctx.items():
        for kd, k in ec.kinds.items():
            n_ex = sum(len(f.acc) for f in k.fields.values())
            n_not = sum(len(forms) for (_, forms, _) in k.unmatched)
            tot_ex += n_ex
            tot_not += n_not
            cov[f'{e}.{kd}'] = {'fields': len(k.fields), 'accessors_exercised': n_ex, 'accessors_not_exercised': n_not,
                                'not_exercised': [{'accessor': n, 'forms': fo, 'why': w} for (n, fo, w) in k.unmatched][:20],
                                'table_rows': len(k.rows), 'rows_without_accessor': k.rows_without_accessor[:20]}
        if ec.problems:
            chk.inconclusive.append(f'{e}: {ec.problems[:3]}')
    chk.extra['accessors'] = {'exercised': tot_ex, 'not_exercised': tot_not, 'per_kind': cov}
    chk.extra['struct_layouts'] = {f'{e}.{n}': {'words': l.words, 'value_words': l.value_words}
                                   for e, ec in ctx.items() for n, l in ec.layouts.items()}
    chk.extra['index_types'] = {e: ec.index_counts for e, ec in ctx.items()}
    chk.assumptions += [
        'object hierarchy: container masks carry object+item+container rows, player masks object+unit+player rows; the type word of a '
        'new mask is the OR of 1 << ObjectType over that chain (update-mask.md example: 16|8|1 for a player)',
        'argument order of multi-part setters is little endian like the wowm struct layouts: first u8/u16 = lowest byte/half of the word',
        'constant (padding) members of update-mask structs are not transmitted; a struct getter is only judged when all or none of its words are present',
        'is_bit_dirty of a field that is not present is judged only beyond the allocated blocks (false) and otherwise only not to panic; '
        'a written form without the type field need not decode',
        'the model is word based: fields whose published rows overlap share storage, a getter is judged against the words the model holds; '
        'an array row (size = n x element width) is addressed by its accessor at element 0 only',
        'element stride of struct arrays = published size / number of index values the API accepts']
    return chk.finish()
