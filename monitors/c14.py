"""C14: login protocol-version views of a message are lossless and codec-equivalent.

For every (message family, protocol version N) pair of the collective layer and every reference-model vector of *version N's*
message: decode with version N's own codec (`expect_*_message::<version_N::M>`), lift into the collective type
(`from_version_N`), lower again (`to_version_N`), and read / write the same bytes through the protocol-parameterised entry
points (`expect_*_message_protocol`, `version_8::opcodes::*OpcodeMessage::read_protocol`, `write_protocol`, and their tokio /
async-std copies under delivery schedules).  All of it has to give the value and the bytes of version N's own codec, which in
turn are compared with the reference encoding.
"""
import json, random
from lib import common
from monitors import vecs as V
from monitors import c06 as SCH
from ref import faults

LOGIN_ENVS = [f'login:{n}' for n in (2, 3, 5, 6, 7, 8)]
ERR_KEYS = ('err_kind', 'err_value', 'err_enum', 'io_kind')


def kind_of(o):
    return str(o.get('result')) + ''.join(':' + str(o.get(k)) for k in ERR_KEYS if o.get(k) is not None)


def judge_one(v, e, nr, nw):
    """-> (list of (problem, detail), notes)"""
    probs, notes = [], []
    ref = v['hex']
    own = e.get('own') or {}
    if e.get('same_type') is not True:
        probs.append(('version-type', 'the collective layer\'s VersionN type is not the type version_N exports'))
    malformed = v.get('klass', 'canonical') != 'canonical'
    if own.get('result') != 'ok':
        if not malformed:
            notes.append('own-codec-rejects-canonical')   # C01's subject
        # the protocol entry points must fail the same way
        for name in ('via', 'proto', 'enum'):
            o = e.get(name) or {}
            if kind_of(o) != kind_of(own):
                probs.append((f'{name}-error', f'version codec: {kind_of(own)}; {name}: {kind_of(o)}'))
        for lib in ('tokio', 'astd', 'tokio_enum', 'astd_enum'):
            a = e.get(lib)
            if a is None:
                continue
            for o in a.get('outs') or []:
                if kind_of(o) != kind_of(own):
                    probs.append((f'{lib}-error', f'version codec: {kind_of(own)}; {lib}: {kind_of(o)} (schedule #{o.get("first")})'))
        return probs, notes
    if malformed:
        # accepted although not canonical (undeclared flag bits, changed counts ...): outside the property's quantifier
        notes.append('noncanonical-accepted-not-judged')
        return probs, notes
    exp = own.get('out')
    if exp is None:
        notes.append('own-codec-cannot-write')
        return probs, notes
    if exp != ref and not malformed:
        notes.append('own-codec-differs-from-reference')   # C01's subject; the version's own codec stays the oracle
    cons = own.get('consumed')

    def need(name, o, eq_key='eq', out_key='out'):
        if o.get('result') != 'ok':
            probs.append((f'{name}-result', f'{name}: {kind_of(o)} {o.get("panic_at") or ""} where the version codec decodes'))
            return False
        if eq_key and o.get(eq_key) is not True:
            probs.append((f'{name}-value', f'{name}: PartialEq with the lifted value is {o.get(eq_key)}'))
        if o.get(out_key) != exp:
            probs.append((f'{name}-bytes', f'{name} writes {str(o.get(out_key))[:120]}, version codec writes {exp[:120]}' +
                          (f' ({o.get(out_key + "_write") or o.get("write")})' if o.get(out_key) is None else '')))
        if 'consumed' in o and o.get('consumed') != cons:
            probs.append((f'{name}-consumed', f'{name} consumed {o.get("consumed")}, version codec {cons}'))
        return True

    via = e.get('via') or {}
    if need('via', via, eq_key=None):
        lift = via.get('lift') or {}
        if lift.get('result') != 'ok':
            probs.append(('lift-result', f'from/to_version: {kind_of(lift)} {lift.get("panic_at") or ""}'))
        else:
            if lift.get('lower_eq') is not True:
                probs.append(('roundtrip-value', 'to_version_N(from_version_N(v)) != v'))
            if lift.get('out') != exp:
                probs.append(('roundtrip-bytes', f'lowered value writes {str(lift.get("out"))[:120]}, original {exp[:120]}'))
            if lift.get('lifted_out') != exp:
                probs.append(('write_protocol-bytes', f'lifted.write_protocol(N) writes {str(lift.get("lifted_out"))[:120]} {lift.get("lifted_out_write") or ""}, version codec writes {exp[:120]}'))
    need('proto', e.get('proto') or {})
    need('enum', e.get('enum') or {})
    for lib in ('tokio', 'astd', 'tokio_enum', 'astd_enum'):
        a = e.get(lib)
        if a is None:
            if nr:
                probs.append((f'{lib}-missing', 'no async observations'))
            continue
        if a.get('n') != nr:
            notes.append(f'conservation:{lib}')
            continue
        for o in a.get('outs') or []:
            need(lib, o)
    for lib in ('wtokio', 'wastd'):
        a = e.get(lib)
        if a is None:
            if nw and (via.get('lift') or {}).get('result') == 'ok':
                probs.append((f'{lib}-missing', 'no async write observations'))
            continue
        if a.get('n') != nw:
            notes.append(f'conservation:{lib}')
            continue
        for o in a.get('outs') or []:
            if o.get('result') != 'ok' or o.get('out') != exp:
                probs.append((f'{lib}-bytes', f'{lib}: {kind_of(o)} writes {str(o.get("out"))[:120]}, version codec writes {exp[:120]}'))
    # one entry per problem kind
    seen, out = set(), []
    for p in probs:
        if p[0] not in seen:
            seen.add(p[0])
            out.append(p)
    return out, notes


def async_agreement(e):
    """C06's view of the same observations: the tokio / async-std protocol functions must agree with the BLOCKING protocol
    function on the same input (whatever that one does) - values via re-encoded bytes, error kinds, bytes consumed, write bytes."""
    probs = []
    pairs = (('tokio', 'proto'), ('astd', 'proto'), ('tokio_enum', 'enum'), ('astd_enum', 'enum'))
    for lib, sync in pairs:
        a, b = e.get(lib), e.get(sync) or {}
        if a is None or not b:
            continue
        for o in a.get('outs') or []:
            if kind_of(o) != kind_of(b):
                probs.append((f'{lib}-vs-blocking-result', f'blocking {sync}: {kind_of(b)}; {lib}: {kind_of(o)} (schedule #{o.get("first")})'))
            elif b.get('result') == 'ok' and (o.get('out') != b.get('out') or ('consumed' in o and 'consumed' in b and o.get('consumed') != b.get('consumed'))):
                probs.append((f'{lib}-vs-blocking-value', f'blocking {sync} re-encodes to {str(b.get("out"))[:80]} (consumed {b.get("consumed")}); {lib}: {str(o.get("out"))[:80]} (consumed {o.get("consumed")}, schedule #{o.get("first")})'))
    lift = ((e.get('via') or {}).get('lift') or {})
    if lift.get('result') == 'ok' and lift.get('lifted_out') is not None:
        for lib in ('wtokio', 'wastd'):
            a = e.get(lib)
            if a is None:
                continue
            for o in a.get('outs') or []:
                if o.get('result') != 'ok' or o.get('out') != lift.get('lifted_out'):
                    probs.append((f'{lib}-vs-blocking-bytes', f'blocking write_protocol: {str(lift.get("lifted_out"))[:80]}; {lib}: {kind_of(o)} {str(o.get("out"))[:80]}'))
    seen, out = set(), []
    for p in probs:
        if p[0] not in seen:
            seen.add(p[0])
            out.append(p)
    return out


def protocol_rows(tier, rng, k):
    """rows + metadata for the protocol-parameterised API over canonical login vectors (shared with C06)"""
    corpus, sv, vectors, stats = V.build(tier, k=k, envs=LOGIN_ENVS)
    vectors = SCH.uniq(vectors)
    rows, meta = [], {}
    for v in vectors:
        frame = bytes.fromhex(v['hex'])
        rs, ws = schedules(len(frame), rng, tier, SCH.marks_of(v))
        rows.append([v['id'], 'P.rt', v['object'], v['version'], frame.hex(), ';'.join(rs), ';'.join(ws), len(rs) - 1])
        meta[v['id']] = (v, len(rs), len(ws))
    return rows, meta


def schedules(n, rng, tier, marks):
    if n == 0:
        return ['w'], ['w']
    if tier == 'quick':
        rs = ['w', f'1x{n}', str(max(1, n // 2))] + [SCH.random_schedule(n, rng) for _ in range(3)]
        ws = ['w', f'1x{n}', SCH.random_schedule(n, rng)]
    else:
        rs = SCH.enumerated(n, marks, 64) if n > 8 else list(SCH.compositions(n))
        rs = rs + [SCH.random_schedule(n, rng) for _ in range(24)]
        ws = ['w', f'1x{n}', '1', str(max(1, n - 1))] + [SCH.random_schedule(n, rng) for _ in range(6)]
    return rs, ws


def run(tier, replay=None):
    chk = common.Check('C14', tier, 'exploration',
                       'reference-model vectors of each protocol version\'s own message (policy variants, each-choice branch plans, seeded random; plus truncated / '
                       'out-of-domain variants for error equivalence) for every (collective family, version) pair scraped from wow_login_messages/src/collective: '
                       'version codec vs from_version_N/to_version_N vs expect_*_message_protocol vs opcodes::read_protocol vs write_protocol and their tokio/async-std '
                       'copies under delivery schedules; distinct = (family, version, branch signature / variant)')
    rng = random.Random(common.seed() * 15485863 + 14)
    binary = common.cargo_build('async_driver')
    if replay:
        rp = json.load(open(replay))
        row = rp['row']
        ev = common.run_driver(binary, [['replay'] + row[1:]], 'c14r', workers=1)
        e = ev.get('replay')
        if e is None or e.get('result') != 'done':
            raise common.Inconclusive(f'replay produced {e}')
        common.log(json.dumps(e)[:3000])
        probs, notes = judge_one(rp['vector'], e, len(row[5].split(';')) if row[5] != '-' else 0, len(row[6].split(';')) if row[6] != '-' else 0)
        for p in probs:
            chk.violation({**rp['observation'], 'problem': p[0]}, {'row': row, 'vector': rp['vector'], 'detail': p[1], 'event': e})
        if not probs:
            chk.ok(('replay', 1))
            chk.ok(('replay', 2))
        return chk.finish()

    pe = common.run_driver(binary, [['pairs', 'P.pairs']], 'c14p', workers=1).get('pairs') or {}
    if pe.get('result') != 'ok' or not pe.get('pairs'):
        raise common.Inconclusive('driver has no collective table')
    pairs = {(n, v): d for n, d, v in pe['pairs']}
    families = sorted({n for n, _ in pairs})
    corpus, sv, vectors, stats = V.build(tier, k=16 if tier == 'quick' else 64, envs=LOGIN_ENVS)
    vectors = SCH.uniq(vectors)
    from monitors.c04 import declared_tables
    tables = declared_tables(corpus)
    # the reference model's view of which version has which message must match the API surface
    model_pairs = {(v['object'], v['version']) for v in vectors if v['object'] in families}
    for p in sorted(set(pairs) - model_pairs):
        chk.inconclusive.append(f'no reference vectors for {p[0]} in protocol version {p[1]}')
    rows, meta = [], {}
    nvar = 0
    for v in vectors:
        if v['object'] not in families:
            chk.count('skipped:not-a-collective-family:' + v['object'])
            continue
        if (v['object'], v['version']) not in pairs:
            r = chk.violation({'check': 'surface', 'object': v['object'], 'version': v['version'], 'problem': 'version-missing'},
                              {'detail': 'the wowm sources define this message for the version but the crate does not export it there', 'vector': v})
            chk.count(r)
            continue
        frame = bytes.fromhex(v['hex'])
        cases = [('canonical', None, frame)]
        if (v['kind'].startswith('policy') or tier == 'thorough') and len(frame) <= 4096:
            n = len(frame)
            cuts = range(0, n) if n <= 40 else sorted({m + d for m in SCH.marks_of(v) for d in (-1, 0, 1) if 0 <= m + d < n})
            cases += [('eof', f'eof@{c}', frame[:c]) for c in cuts]
            cases += [('domain', s, f) for s, f in faults.domain_faults(v, rng)]
            cases += [('count', s, f) for s, f in faults.count_faults(v)]
            # undeclared enum values next to the declared range: the version views of an enum differ exactly there
            cases += [('enum', s, f) for s, f, _, _, _ in faults.enum_faults(v, tables[f"{v['family']}:{v['version']}"])]
        for klass, suffix, f in cases:
            rs, ws = schedules(len(f), rng, tier, SCH.marks_of(v)) if klass == 'canonical' else (['w', f'1x{max(1, len(f))}'], ['w'])
            rid = v['id'] + ('' if suffix is None else '!' + suffix)
            rows.append([rid, 'P.rt', v['object'], v['version'], f.hex(), ';'.join(rs), ';'.join(ws), len(rs) - 1])
            meta[rid] = ({**v, 'hex': f.hex(), 'klass': klass, 'variant': suffix}, len(rs), len(ws))
            nvar += klass != 'canonical'
    common.log(f'[c14] {len(rows)} operations ({nvar} malformed variants) over {len(pairs)} (family, version) pairs')
    ev = common.run_driver(binary, rows, 'c14', timeout=60)
    covered = set()
    totals = {'async_reads': 0, 'async_writes': 0, 'polls': 0, 'pendings': 0}
    for row in rows:
        rid = row[0]
        v, nr, nw = meta[rid]
        e = ev.get(rid)
        if e is None:
            chk.inconclusive.append(f'{rid}: no event')
            continue
        if e.get('result') != 'done':
            if e.get('result') in ('abort', 'timeout'):
                chk.count('skipped:' + e['result'])
            else:
                chk.inconclusive.append(f'{rid}: driver result {e.get("result")} {e.get("panic_at") or ""}')
            continue
        probs, notes = judge_one(v, e, nr, nw)
        for nt in notes:
            if nt.startswith('conservation'):
                chk.inconclusive.append(f'{rid}: {nt}')
            chk.count('note:' + nt)
        for lib in ('tokio', 'astd', 'tokio_enum', 'astd_enum', 'wtokio', 'wastd'):
            a = e.get(lib) or {}
            totals['async_writes' if lib.startswith('w') else 'async_reads'] += a.get('n', 0)
            totals['polls'] += a.get('polls_sum', 0)
            totals['pendings'] += a.get('pendings', 0)
        own = e.get('own') or {}
        if 'noncanonical-accepted-not-judged' in notes and not probs:
            continue
        chk.count(f"{v['klass']}:{'ok' if not probs else 'bad'}")
        key = (v['object'], v['version'], v['klass'], tuple(v['sig']) if v['klass'] == 'canonical' else v['variant'])
        if not probs:
            if v['klass'] == 'canonical' and own.get('result') == 'ok':
                covered.add((v['object'], v['version']))
            sample = None
            if v['klass'] == 'canonical' and v['version'] != 8 and len(v['hex']) > 40 and (v['object'], v['version']) in (
                    ('CMD_AUTH_LOGON_PROOF_Server', 5), ('CMD_REALM_LIST_Server', 6), ('CMD_AUTH_LOGON_CHALLENGE_Server', 3), ('CMD_AUTH_LOGON_PROOF_Client', 2), ('CMD_REALM_LIST_Server', 2)):
                sample = {'id': rid, 'version_codec': {k: str(x)[:80] for k, x in own.items()}, 'lift': {k: str(x)[:80] for k, x in ((e.get('via') or {}).get('lift') or {}).items()},
                          'expect_protocol': {k: str(x)[:80] for k, x in (e.get('proto') or {}).items()}, 'async_read_schedules': nr,
                          'tokio_trace_of_last_schedule': ((e.get('tokio') or {}).get('trace') or [])[:16]}
            chk.ok(key, sample=sample)
            continue
        for prob, detail in probs:
            obs = {'check': 'protocol-view', 'object': v['object'], 'version': v['version'], 'dir': v['dir'], 'input': v['klass'], 'problem': prob,
                   'own_result': kind_of(own)}
            r = chk.violation(obs, {'row': row, 'vector': {k: x for k, x in v.items() if k not in ('fmap', 'payloads')}, 'detail': detail, 'event': e,
                                    'how': 'python3 check.py C14 --replay <this file>'})
            chk.count(r)
    for p in sorted(set(pairs) - covered):
        chk.inconclusive.append(f'no canonical vector of {p[0]} v{p[1]} was decoded by the version\'s own codec and judged clean')
    chk.extra['pairs'] = {'scraped_from_collective': len(pairs), 'with_a_clean_canonical_vector': len(covered & set(pairs)), 'families': len(families)}
    chk.extra['async'] = totals
    chk.extra['operations'] = len(rows)
    chk.assumptions += ['the oracle for values and bytes is the protocol version\'s own codec on the same input; the reference encoding is compared in addition (a difference '
                        'between the two is C01\'s subject and only noted here)',
                        'bytes consumed are compared with what the version\'s own reader consumed, not with the reference length',
                        'protocol version 8 is included with the identity as lift/lower (it checks the Eight arm of the dispatch)']
    return chk.finish()
