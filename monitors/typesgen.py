"""typesgen: generator of the `types_driver` tables (shared by C11 and C12).

Three steps, run by every check that uses the driver (`prepare()`):

1. `scrape(repo)`: reads only the *API surface* of the generated Rust under the repository's current
   tree -- which types exist and through which public paths (mod.rs `pub mod` / `pub use` lines),
   the integer type in `from_int(value: T)` / `new(inner: T)`, which `pub fn` / `pub const` names and
   which `From<..>` / `TryFrom<..>` impls exist, the order of variant identifiers.  No value is read.
2. `bind(surface, corpus)`: attaches to every scraped type the wowm definition(s) (ref.model) it is
   generated from, per expansion / login version in which it is public.  Everything that cannot be
   matched is recorded in `not_exercised` with the reason -- nothing is dropped silently.
3. `emit(surface, dir)`: writes `harness/types_driver/src/gen/*.rs` (only files whose content changed,
   so an unchanged tree is a cargo no-op).  The emitted code calls the real functions and returns
   what they returned; it contains no expected value.
"""
import fcntl, json, os, re, time
from lib import common
from ref import model, codec

SRC_TYPES = ['u8', 'u16', 'u32', 'u64', 'i8', 'i16', 'i32', 'i64', 'usize']
INT_BITS = {'u8': 8, 'u16': 16, 'u32': 32, 'u64': 64, 'i8': 8, 'i16': 16, 'i32': 32, 'i64': 64, 'usize': 64}
EXPS = ['vanilla', 'tbc', 'wrath']
LOGIN_MODS = ['version_2', 'version_3', 'version_5', 'version_6', 'version_7', 'version_8', 'all']


def int_range(ty):
    b = INT_BITS[ty]
    return (-(1 << (b - 1)), (1 << (b - 1)) - 1) if ty[0] == 'i' else (0, (1 << b) - 1)


# ------------------------------------------------------------------------------------------------
# naming rules (API surface, documented rules of the `heck` crate the generator uses)

def heck_words(s):
    """Word splitting of heck 0.5 (`transform`): split at non-alphanumerics, at lower->Upper and
    before the last capital of an UPPER run that is followed by a lower-case letter.  Digits keep
    the current mode and never introduce a boundary."""
    out = []
    for word in re.split(r'[^0-9A-Za-z]+', s):
        if not word:
            continue
        init, mode = 0, 'b'
        n = len(word)
        for i, c in enumerate(word):
            if i + 1 < n:
                nxt = word[i + 1]
                next_mode = 'l' if c.islower() else ('u' if c.isupper() else mode)
                if next_mode == 'l' and nxt.isupper():
                    out.append(word[init:i + 1])
                    init, mode = i + 1, 'b'
                elif mode == 'u' and c.isupper() and nxt.islower():
                    out.append(word[init:i])
                    init, mode = i, 'b'
                else:
                    mode = next_mode
            else:
                out.append(word[init:])
    return [w for w in out if w]


def pascal(s):
    """heck ToPascalCase + the generator's two keyword escapes (rust_printer/mod.rs: Self, Error)."""
    r = ''.join(w[0].upper() + w[1:].lower() for w in heck_words(s))
    return {'Self': 'SelfX', 'Error': 'ErrorX'}.get(r, r)


# ------------------------------------------------------------------------------------------------
# scraping

_HDR = re.compile(r'^(pub |pub\(crate\) )?(enum|struct|impl)\b(.*)\{\s*$')
_FN = re.compile(r'^\s{4}(pub |pub\(crate\) )?(const )?fn (\w+)\((.*)\)( -> (.*?))? \{\s*$')
_CONST = re.compile(r'^\s{4}pub const (\w+): (\w+) = ')


def items(text):
    """top-level items of a generated file: dicts(vis, kind, rest, attrs, body)"""
    out, lines, i = [], text.split('\n'), 0
    attrs = []
    while i < len(lines):
        ln = lines[i]
        if ln.startswith('#['):
            attrs.append(ln)
            i += 1
            continue
        m = _HDR.match(ln)
        if m and not ln.startswith(' '):
            body = []
            i += 1
            while i < len(lines) and lines[i] != '}':
                body.append(lines[i])
                i += 1
            out.append({'vis': (m.group(1) or '').strip(), 'kind': m.group(2), 'rest': m.group(3).strip(), 'attrs': attrs, 'body': body})
            attrs = []
        elif ln.strip() and not ln.startswith('//'):
            attrs = []
        i += 1
    return out


def fns_of(body):
    out = {}
    for ln in body:
        m = _FN.match(ln)
        if m:
            out[m.group(3)] = {'vis': (m.group(1) or '').strip(), 'args': m.group(4), 'ret': m.group(6) or ''}
    return out


def parse_file(text):
    """-> dict name -> record of what the file declares for that type name"""
    types = {}

    def T(name):
        return types.setdefault(name, {'name': name, 'decl': None, 'vis': '', 'derives': [], 'variants': [], 'fields': [],
                                       'fns': {}, 'consts': [], 'traits': []})

    for it in items(text):
        rest = it['rest']
        if it['kind'] in ('enum', 'struct'):
            name = rest.split()[0] if rest else ''
            t = T(name)
            t['decl'], t['vis'] = it['kind'], it['vis']
            for a in it['attrs']:
                m = re.match(r'#\[derive\((.*)\)\]', a)
                if m:
                    t['derives'] += [x.strip() for x in m.group(1).split(',')]
            if it['kind'] == 'enum':
                cur = None
                for ln in it['body']:
                    s = ln.strip()
                    if not s or s.startswith('//') or s.startswith('#'):
                        continue
                    if ln.startswith('    ') and not ln.startswith('     '):
                        m = re.match(r'^(\w+)(,| \{|\()', s)
                        if m:
                            cur = {'name': m.group(1), 'fields': [], 'tuple': m.group(2) == '(', 'unit': m.group(2) == ','}
                            t['variants'].append(cur)
                    elif cur is not None:
                        m = re.match(r'^(\w+): (.*),$', s)
                        if m:
                            cur['fields'].append((m.group(1), m.group(2)))
            else:
                for ln in it['body']:
                    m = re.match(r'^\s{4}(pub )?(\w+): (.*),$', ln)
                    if m:
                        t['fields'].append((m.group(2), m.group(3), bool(m.group(1))))
        else:
            m = re.match(r'^(\w+)$', rest)
            if m:
                t = T(m.group(1))
                t['fns'].update(fns_of(it['body']))
                for ln in it['body']:
                    c = _CONST.match(ln)
                    if c:
                        t['consts'].append((c.group(1), c.group(2)))
                continue
            m = re.match(r'^(.+) for (\w+)$', rest)
            if m:
                T(m.group(2))['traits'].append(m.group(1).strip())
    return types


def _read(p):
    try:
        with open(p) as f:
            return f.read()
    except OSError:
        return None


def _mod_lines(p):
    txt = _read(p) or ''
    return [l.strip() for l in txt.split('\n')]


def scrape(repo):
    """-> list of type records with public paths; see module docstring."""
    notes = []
    found = []      # records

    # ---- wow_world_base ---------------------------------------------------------------------
    base_src = os.path.join(repo, 'wow_world_base', 'src')
    lib = _read(os.path.join(base_src, 'lib.rs')) or ''
    inner_mod = _read(os.path.join(base_src, 'inner', 'mod.rs')) or ''
    if 'pub use inner::*;' not in lib:
        notes.append('wow_world_base/src/lib.rs does not `pub use inner::*` -- base paths not established')
    base_public = {m: bool(re.search(r'^pub mod %s;' % m, inner_mod, re.M)) for m in EXPS + ['shared']}
    shared_pub = set()
    for l in _mod_lines(os.path.join(base_src, 'inner', 'shared', 'mod.rs')):
        m = re.match(r'^pub mod (\w+);$', l)
        if m:
            shared_pub.add(m.group(1))
    exp_local, exp_shared = {}, {}
    for e in EXPS:
        ls = _mod_lines(os.path.join(base_src, 'inner', e, 'mod.rs'))
        mods = {m.group(1) for l in ls for m in [re.match(r'^pub(?:\(crate\))? mod (\w+);$', l)] if m}
        globbed = {m.group(1) for l in ls for m in [re.match(r'^pub use (\w+)::\*;$', l)] if m}
        exp_local[e] = mods & globbed
        exp_shared[e] = {m.group(1) for l in ls for m in [re.match(r'^pub use crate::shared::(\w+)::\*;$', l)] if m}
    # does wow_world_messages re-export the base expansion module wholesale?
    wm_src = os.path.join(repo, 'wow_world_messages', 'src')
    wm_lib = _read(os.path.join(wm_src, 'lib.rs')) or ''
    wm_world_pub = 'pub use world::*;' in wm_lib
    wm_exp_reexp = {}
    for e in EXPS:
        ls = _mod_lines(os.path.join(wm_src, 'world', e, 'mod.rs'))
        wm_exp_reexp[e] = wm_world_pub and ('pub use wow_world_base::%s::*;' % e) in ls

    def add_base(dirname, fname):
        p = os.path.join(base_src, 'inner', dirname, fname)
        modname = fname[:-3]
        rel = os.path.relpath(p, repo)
        types = parse_file(_read(p) or '')
        for t in types.values():
            if t['decl'] is None:
                continue
            rec = {'crate': 'base', 'file': rel, 'name': t['name'], 'parsed': t, 'paths': [], 'envs': []}
            if t['vis'] != 'pub':
                rec['private'] = f'declared `{t["vis"] or "private"}`'
            if dirname == 'shared':
                if modname in shared_pub and base_public['shared']:
                    rec['paths'].append(f'wow_world_base::shared::{modname}::{t["name"]}')
                for e in EXPS:
                    if modname in exp_shared[e] and base_public[e]:
                        rec['paths'].append(f'wow_world_base::{e}::{t["name"]}')
                        rec['envs'].append(f'world:{e}')
                        if wm_exp_reexp[e]:
                            rec['paths'].append(f'wow_world_messages::{e}::{t["name"]}')
            else:
                if modname in exp_local[dirname] and base_public[dirname]:
                    rec['paths'].append(f'wow_world_base::{dirname}::{t["name"]}')
                    rec['envs'].append(f'world:{dirname}')
                    if wm_exp_reexp[dirname]:
                        rec['paths'].append(f'wow_world_messages::{dirname}::{t["name"]}')
            found.append(rec)

    for d in ['shared'] + EXPS:
        dd = os.path.join(base_src, 'inner', d)
        if not os.path.isdir(dd):
            notes.append(f'{dd} missing')
            continue
        for f in sorted(os.listdir(dd)):
            if f.endswith('.rs') and f != 'mod.rs':
                add_base(d, f)

    # ---- wow_login_messages -----------------------------------------------------------------
    lg_src = os.path.join(repo, 'wow_login_messages', 'src')
    lg_lib = _read(os.path.join(lg_src, 'lib.rs')) or ''
    lg_pub = 'pub use logon::*;' in lg_lib
    logon_mod = _read(os.path.join(lg_src, 'logon', 'mod.rs')) or ''
    lg_local, lg_reexp = {}, {}
    for v in LOGIN_MODS:
        ls = _mod_lines(os.path.join(lg_src, 'logon', v, 'mod.rs'))
        mods = {m.group(1) for l in ls for m in [re.match(r'^pub(?:\(crate\))? mod (\w+);$', l)] if m}
        globbed = {m.group(1) for l in ls for m in [re.match(r'^pub use (\w+)::\*;$', l)] if m}
        lg_local[v] = mods & globbed
        lg_reexp[v] = {(m.group(1), m.group(2)) for l in ls for m in [re.match(r'^pub use crate::logon::(\w+)::(\w+)::\*;$', l)] if m}
    lg_mod_public = {v: lg_pub and bool(re.search(r'^pub mod %s;' % v, logon_mod, re.M)) for v in LOGIN_MODS}

    def env_of_login(v):
        return [f'login:{n}' for n in model.LOGIN_VERSIONS] if v == 'all' else [f'login:{v.split("_")[1]}']

    for v in LOGIN_MODS:
        dd = os.path.join(lg_src, 'logon', v)
        if not os.path.isdir(dd):
            continue
        for f in sorted(os.listdir(dd)):
            if not f.endswith('.rs') or f in ('mod.rs', 'opcodes.rs'):
                continue
            modname = f[:-3]
            p = os.path.join(dd, f)
            types = parse_file(_read(p) or '')
            for t in types.values():
                if t['decl'] is None:
                    continue
                rec = {'crate': 'login', 'file': os.path.relpath(p, repo), 'name': t['name'], 'parsed': t, 'paths': [], 'envs': []}
                if t['vis'] != 'pub':
                    rec['private'] = f'declared `{t["vis"] or "private"}`'
                if modname in lg_local[v] and lg_mod_public[v]:
                    rec['paths'].append(f'wow_login_messages::{v}::{t["name"]}')
                    rec['envs'] += env_of_login(v)
                for v2 in LOGIN_MODS:
                    if (v, modname) in lg_reexp[v2] and lg_mod_public[v2]:
                        rec['paths'].append(f'wow_login_messages::{v2}::{t["name"]}')
                        rec['envs'] += env_of_login(v2)
                found.append(rec)

    # ---- wow_world_messages (message-local synthesised flag structs) -------------------------
    wm_shared_pub = set()
    for l in _mod_lines(os.path.join(wm_src, 'world', 'shared', 'mod.rs')):
        m = re.match(r'^pub mod (\w+);$', l)
        if m:
            wm_shared_pub.add(m.group(1))
    world_mod = _read(os.path.join(wm_src, 'world', 'mod.rs')) or ''
    for d in ['shared'] + EXPS:
        dd = os.path.join(wm_src, 'world', d)
        if not os.path.isdir(dd):
            continue
        ls = _mod_lines(os.path.join(dd, 'mod.rs'))
        mods = {m.group(1) for l in ls for m in [re.match(r'^pub(?:\(crate\))? mod (\w+);$', l)] if m}
        globbed = {m.group(1) for l in ls for m in [re.match(r'^pub use (\w+)::\*;$', l)] if m}
        mod_pub = wm_world_pub and bool(re.search(r'^pub mod %s;' % d, world_mod, re.M))
        for f in sorted(os.listdir(dd)):
            if not f.endswith('.rs') or f in ('mod.rs', 'opcodes.rs'):
                continue
            p = os.path.join(dd, f)
            txt = _read(p) or ''
            if '    inner: ' not in txt:
                continue
            modname = f[:-3]
            types = parse_file(txt)
            for t in types.values():
                if t['decl'] != 'struct' or not t['fields'] or t['fields'][0][0] != 'inner':
                    continue
                rec = {'crate': 'world', 'file': os.path.relpath(p, repo), 'name': t['name'], 'parsed': t, 'paths': [], 'envs': [],
                       'siblings': types}
                if t['vis'] != 'pub':
                    rec['private'] = f'declared `{t["vis"] or "private"}`'
                if d == 'shared':
                    if modname in wm_shared_pub and mod_pub:
                        rec['paths'].append(f'wow_world_messages::shared::{modname}::{t["name"]}')
                    for e in EXPS:
                        els = _mod_lines(os.path.join(wm_src, 'world', e, 'mod.rs'))
                        if f'pub use crate::shared::{modname}::*;' in els:
                            rec['paths'].append(f'wow_world_messages::{e}::{t["name"]}')
                            rec['envs'].append(f'world:{e}')
                elif modname in (mods & globbed) and mod_pub:
                    rec['paths'].append(f'wow_world_messages::{d}::{t["name"]}')
                    rec['envs'].append(f'world:{d}')
                found.append(rec)
    return found, notes


# ------------------------------------------------------------------------------------------------
# classification + binding

def classify(rec):
    """-> 'enum' | 'flag' | 'synth' | None (not a definer type)"""
    t = rec['parsed']
    if t['decl'] == 'enum' and 'from_int' in t['fns']:
        return 'enum'
    if t['decl'] == 'struct' and t['fields'] and t['fields'][0][0] == 'inner':
        if len(t['fields']) == 1 and rec['crate'] in ('base', 'login'):
            return 'flag'
        if rec['crate'] == 'world':
            return 'synth'
    return None


class _Notes(list):
    kind = '?'

    def append(s, d):
        d.setdefault('kind', s.kind)
        list.append(s, d)


def build_model(repo=None, corpus=None):
    """-> dict(enums=[...], flags=[...], not_exercised=[...], notes=[...])"""
    repo = repo or common.REPO
    corpus = corpus or model.Corpus(os.path.join(repo, 'wow_message_parser', 'wowm'))
    found, notes = scrape(repo)
    enums, flags = [], []
    notx = _Notes()
    bound = set()     # (envkey, definer name)

    for rec in found:
        kind = classify(rec)
        if kind is None:
            continue
        t = rec['parsed']
        rec['kind'] = kind
        notx.kind = 'enum' if kind == 'enum' else 'flag'
        rec['envs'] = sorted(set(rec['envs']))
        who = f'{rec["file"]}::{rec["name"]}'
        if rec.get('private'):
            notx.append({'item': who, 'why': 'crate-private type (' + rec['private'] + '); only reachable inside messages (C01/C04)'})
            continue
        if not rec['paths']:
            notx.append({'item': who, 'why': 'no public path found in the mod.rs files'})
            continue
        rec['id'] = rec['paths'][0]
        defs = {}
        if kind in ('enum', 'flag'):
            for ek in rec['envs']:
                o = corpus.envs[ek].definers.get(rec['name'])
                if o is None or o.kind != kind:
                    notx.append({'item': who, 'why': f'no wowm {kind} named {rec["name"]} visible in {ek}'})
                    continue
                defs[ek] = o
                bound.add((ek, rec['name']))
        else:
            for ek in rec['envs']:
                env = corpus.envs[ek]
                cands = [(c, f) for f in env.definers.values() if f.kind == 'flag' and rec['name'].endswith('_' + f.name)
                         for c in [env.containers.get(rec['name'][:-len(f.name) - 1])] if c is not None]
                if len(cands) != 1:
                    notx.append({'item': who, 'why': f'cannot name the (container, flag) pair of this synthesised struct in {ek} ({len(cands)} candidates)'})
                    continue
                defs[ek] = cands[0][1]
                rec['container'] = cands[0][0].name
        if not defs:
            continue
        rec['defs'] = defs
        if kind == 'enum':
            _surface_enum(rec, notx)
            enums.append(rec)
        elif kind == 'flag':
            _surface_flag(rec, notx)
            flags.append(rec)
        else:
            _surface_synth(rec, notx)
            flags.append(rec)

    for ek, env in corpus.envs.items():
        for o in env.definers.values():
            if (ek, o.name) not in bound:
                notx.kind = o.kind
                notx.append({'item': f'wowm {o.kind} {o.name} ({ek})', 'why': 'no public generated Rust type with this name found for this version'})
    return {'enums': enums, 'flags': flags, 'not_exercised': list(notx), 'notes': notes, 'corpus': corpus}


def _surface_enum(rec, notx):
    t = rec['parsed']
    who = rec['id']
    fi = t['fns'].get('from_int')
    m = re.match(r'^value: (\w+)$', fi['args'])
    rec['base'] = m.group(1) if m else None
    rec['as_int_pub'] = t['fns'].get('as_int', {}).get('vis') == 'pub'
    rec['has_variants'] = t['fns'].get('variants', {}).get('vis') == 'pub'
    rec['variant_idents'] = [v['name'] for v in t['variants']]
    rec['srcs'] = []
    for s in SRC_TYPES:
        if f'TryFrom<{s}>' in t['traits']:
            rec['srcs'].append(s)
        else:
            notx.append({'item': f'{who}: TryFrom<{s}>', 'why': 'no such impl in the generated source'})
    if not rec['as_int_pub']:
        notx.append({'item': f'{who}::as_int', 'why': 'not public (`pub(crate)`); the returned variant is identified by its position in variants() and its Debug name'})
    if fi['vis'] != 'pub' or rec['base'] not in INT_BITS or not rec['has_variants']:
        rec['skip'] = 'from_int / variants() surface not understood'
        notx.append({'item': who, 'why': rec['skip']})


_OPS = [('bitor', 'BitOr', '|'), ('bitand', 'BitAnd', '&'), ('bitxor', 'BitXor', '^')]


def _surface_flag(rec, notx):
    t = rec['parsed']
    who = rec['id']
    new = t['fns'].get('new')
    m = re.match(r'^inner: (\w+)$', new['args']) if new else None
    rec['carrier'] = m.group(1) if m else None
    rec['obs'] = 'pubint' if t['fns'].get('as_int', {}).get('vis') == 'pub' else ('hexfmt' if 'std::fmt::LowerHex' in t['traits'] else None)
    if not rec['obs'] or rec['carrier'] not in INT_BITS or new['vis'] != 'pub':
        rec['skip'] = 'new(inner) / observation surface not understood'
        notx.append({'item': who, 'why': rec['skip']})
        return
    if rec['obs'] != 'pubint':
        notx.append({'item': f'{who}::as_int', 'why': 'not public (`pub(crate)`); the value is observed through the public LowerHex impl'})
    rec['consts'] = [c for c, ty in t['consts']]
    pub = {n for n, f in t['fns'].items() if f['vis'] == 'pub'}
    rec['globals'] = {g: g in pub for g in ('empty', 'is_empty', 'all')}
    rec['derives_default'] = 'Default' in t['derives']
    accs = []
    for c in rec['consts']:
        fn = c.lower()
        a = {'fname': fn, 'const': c, 'label': '', 'is': f'is_{fn}' in pub and fn != 'empty', 'new': f'new_{fn}' in pub, 'set': f'set_{fn}' in pub, 'clear': f'clear_{fn}' in pub}
        if any(a[k] for k in ('is', 'new', 'set', 'clear')):
            accs.append(a)
            for k in ('is', 'new', 'set', 'clear'):
                if not a[k]:
                    notx.append({'item': f'{who}::{k}_{fn}', 'why': 'no such public fn'})
        else:
            accs.append({'fname': fn, 'const': c, 'label': '', 'is': False, 'new': False, 'set': False, 'clear': False})
    rec['accs'] = accs
    rec['ops'] = []
    for fn, tr, sym in _OPS:
        if f'std::ops::{tr}' in t['traits']:
            rec['ops'].append((fn, sym))
        else:
            notx.append({'item': f'{who}: {tr}', 'why': 'no such impl'})
        if f'std::ops::{tr}Assign' in t['traits']:
            rec['ops'].append((fn + '_assign', sym + '='))
        else:
            notx.append({'item': f'{who}: {tr}Assign', 'why': 'no such impl'})
    rec['conv'] = []
    for s in SRC_TYPES:
        if f'From<{s}>' in t['traits']:
            rec['conv'].append((s, 'from'))
        elif f'TryFrom<{s}>' in t['traits']:
            rec['conv'].append((s, 'try_from'))
        else:
            notx.append({'item': f'{who}: From/TryFrom<{s}>', 'why': 'no such impl'})


def _surface_synth(rec, notx):
    t = rec['parsed']
    who = rec['id']
    new = t['fns'].get('new')
    m = re.match(r'^inner: (\w+), ?(.*)$', new['args']) if new else None
    if not m or m.group(1) not in INT_BITS or new['vis'] != 'pub' or 'Debug' not in t['derives']:
        rec['skip'] = 'new(inner, ..) / Debug surface not understood'
        notx.append({'item': who, 'why': rec['skip']})
        return
    rec['carrier'] = m.group(1)
    opts = [x for x in m.group(2).split(',') if x.strip()]
    if any('Option<' not in x for x in opts):
        rec['skip'] = 'new() takes something other than Option members'
        notx.append({'item': who, 'why': rec['skip']})
        return
    rec['n_opts'] = len(opts)
    rec['obs'] = 'dbg'
    notx.append({'item': f'{who}::as_int', 'why': 'not public (`pub(crate)`); the value is observed through the derived Debug impl (`inner: N`)'})
    pub = {n: f for n, f in t['fns'].items() if f['vis'] == 'pub'}
    rec['globals'] = {'empty': 'empty' in pub, 'is_empty': 'is_empty' in pub, 'all': False}
    rec['derives_default'] = 'Default' in t['derives']
    rec['consts'] = []
    rec['ops'], rec['conv'] = [], []
    sib = rec['siblings']
    accs = []
    names = []
    for n in pub:
        m = re.match(r'^(new|set|get|clear)_(\w+)$', n)
        if m and m.group(2) not in names:
            names.append(m.group(2))
    for fn in names:
        g, s_, n_, c_ = pub.get(f'get_{fn}'), pub.get(f'set_{fn}'), pub.get(f'new_{fn}'), pub.get(f'clear_{fn}')
        argty = None
        for f in (n_, s_):
            if f:
                am = re.match(r'^(?:mut self|&self|&mut self)?(?:, ?)?(?:\w+: (\w+))?$', f['args'].strip())
                if am is None:
                    argty = '?'
                elif am.group(1):
                    argty = am.group(1)
        base = {'fname': fn, 'const': fn.upper(), 'is': bool(g), 'new': bool(n_), 'set': bool(s_), 'clear': bool(c_),
                'option': bool(g) and g['ret'].startswith('Option<')}
        if argty is None:
            accs.append(dict(base, label='', arg=None))
            continue
        st = sib.get(argty)
        if argty == '?' or st is None or st['decl'] is None or st['vis'] != 'pub':
            notx.append({'item': f'{who}::*_{fn}', 'why': f'argument type {argty} not understood'})
            continue
        if st['decl'] == 'struct':
            if 'Default' in st['derives']:
                accs.append(dict(base, label='', arg=f'<{{M}}::{argty} as Default>::default()'))
            else:
                notx.append({'item': f'{who}::*_{fn}', 'why': f'argument type {argty} has no Default; no value to pass'})
        else:
            # else-if chain: one data-carrying variant per enumerator of the chain
            for v in st['variants']:
                if v['tuple']:
                    notx.append({'item': f'{who}::*_{fn}({v["name"]})', 'why': 'tuple variant'})
                    continue
                flds = ', '.join(f'{fname}: Default::default()' for fname, _ in v['fields'])
                expr = f'{{M}}::{argty}::{v["name"]}' + (f' {{ {flds} }}' if not v['unit'] else '')
                accs.append(dict(base, label=v['name'], arg=expr, const=None))
    rec['accs'] = accs


# ------------------------------------------------------------------------------------------------
# emission

_ENUM_MACROS = '''
macro_rules! en {
    ($id:literal, $t:ty, $base:ident, $asint:expr, [$($src:ident),*]) => {
        crate::EnumDesc {
            id: $id,
            base: stringify!($base),
            variants: || <$t>::variants().iter().map(|v| (format!("{:?}", v), ($asint)(v))).collect(),
            conv: &[
                ("from_int", |x| <$base>::try_from(x).ok().map(|v| crate::erase(<$t>::from_int(v), <$t>::variants, $asint))),
                $( (stringify!($src), |x| <$src>::try_from(x).ok().map(|v| crate::erase(<$t as TryFrom<$src>>::try_from(v), <$t>::variants, $asint))), )*
            ],
        }
    };
}
'''


def _emit_enum(rec):
    t = rec['id']
    asint = f'(|v: &{t}| v.as_int() as i128) as fn(&{t}) -> i128' if rec['as_int_pub'] else f'crate::no_int::<{t}> as fn(&{t}) -> i128'
    return f'    en!("{rec["id"]}", {t}, {rec["base"]}, ({asint}), [{", ".join(rec["srcs"])}]),\n'


def _obs(rec, x):
    if rec['obs'] == 'pubint':
        return f'(({x}).as_int() as u128)'
    if rec['obs'] == 'hexfmt':
        return f'crate::hex_inner(&({x}))'
    return f'crate::dbg_inner(&({x}))'


def _emit_flag(rec):
    T, B = rec['id'], rec['carrier']
    M = T.rsplit('::', 1)[0]
    synth = rec['kind'] == 'synth'
    nones = ''.join(', None' for _ in range(rec.get('n_opts', 0)))

    def mk(r):
        return f'{T}::new(({r}) as {B}{nones})'
    o = lambda x: _obs(rec, x)
    q = 'get' if synth else 'is'
    s = [f'    crate::FlagDesc {{\n        id: "{T}", carrier: "{B}", bits: {INT_BITS[B]},\n']
    s.append(f'        new_get: |r| {o(mk("r"))},\n')
    s.append(f'        empty: {"Some(|| " + o(T + "::empty()") + ")" if rec["globals"]["empty"] else "None"},\n')
    s.append(f'        is_empty: {"Some(|r| " + mk("r") + ".is_empty())" if rec["globals"]["is_empty"] else "None"},\n')
    s.append(f'        all: {"Some(|| " + o(T + "::all()") + ")" if rec["globals"]["all"] else "None"},\n')
    s.append(f'        default: {"Some(|| " + o("<" + T + " as Default>::default()") + ")" if rec["derives_default"] else "None"},\n')
    s.append('        consts: &[' + ', '.join(f'("{c}", {T}::{c} as u128)' for c in rec['consts']) + '],\n')
    s.append('        acc: &[\n')
    for a in rec['accs']:
        fn = a['fname']
        arg = (a.get('arg') or '').replace('{M}', M)
        cval = f'Some({T}::{a["const"]} as u128)' if (not synth and a['const']) else 'None'
        if a.get('option'):
            qexp = lambda x: f'(2 + ({x}).{q}_{fn}().is_some() as u8)'
        elif a['is']:
            qexp = lambda x: f'(({x}).{q}_{fn}() as u8)'
        else:
            qexp = lambda x: '255u8'
        s.append(f'            crate::Acc {{ fname: "{fn}", label: "{a["label"]}", cval: {cval},\n')
        s.append(f'                is: {"Some(|r| " + qexp(mk("r")) + ")" if a["is"] else "None"},\n')
        if a['new']:
            s.append(f'                new: Some(|| {{ let x = {T}::new_{fn}({arg}); ({o("x")}, {qexp("x")}) }}),\n')
        else:
            s.append('                new: None,\n')
        for meth in ('set', 'clear'):
            if not a[meth]:
                s.append(f'                {meth}: None,\n')
                continue
            marg = arg if meth == 'set' else ''
            if synth:
                s.append(f'                {meth}: Some(|r| {{ let y = {mk("r")}.{meth}_{fn}({marg}); let v = {o("y")}; (v, v, {qexp("y")}) }}),\n')
            else:
                s.append(f'                {meth}: Some(|r| {{ let mut x = {mk("r")}; let y = x.{meth}_{fn}({marg}); ({o("y")}, {o("x")}, {qexp("y")}) }}),\n')
        s.append('            },\n')
    s.append('        ],\n        ops: &[\n')
    for fn, sym in rec['ops']:
        if fn.endswith('_assign'):
            s.append(f'            ("{fn}", |a, b| {{ let mut x = {mk("a")}; x {sym} {mk("b")}; {o("x")} }}),\n')
        else:
            s.append(f'            ("{fn}", |a, b| {o(mk("a") + " " + sym + " " + mk("b"))}),\n')
    s.append('        ],\n        conv: &[\n')
    for src, k in rec['conv']:
        if k == 'from':
            s.append(f'            ("{src}", "from", |v| <{src}>::try_from(v).ok().map(|v| crate::CRes::Ok({o("<" + T + " as From<" + src + ">>::from(v)")}))),\n')
        else:
            s.append(f'            ("{src}", "try_from", |v| <{src}>::try_from(v).ok().map(|v| match <{T} as TryFrom<{src}>>::try_from(v) {{ '
                     f'Ok(x) => crate::CRes::Ok({o("x")}), Err(e) => crate::CRes::Err(e as i128) }})),\n')
    s.append('        ],\n    },\n')
    return ''.join(s)


HEADER = '// GENERATED by /verif/monitors/typesgen.py from the API surface of the repository -- do not edit.\n'


def emit(mdl, outdir, enum_shard=48, flag_shard=12):
    files = {}
    en = [r for r in mdl['enums'] if not r.get('skip')]
    fl = [r for r in mdl['flags'] if not r.get('skip')]
    mods = []
    for k in range(0, len(en), enum_shard):
        name = f'enums_{k // enum_shard}'
        mods.append(('enum', name))
        files[name + '.rs'] = HEADER + _ENUM_MACROS + '\npub static TABLE: &[crate::EnumDesc] = &[\n' + ''.join(_emit_enum(r) for r in en[k:k + enum_shard]) + '];\n'
    for k in range(0, len(fl), flag_shard):
        name = f'flags_{k // flag_shard}'
        mods.append(('flag', name))
        files[name + '.rs'] = HEADER + '\npub static TABLE: &[crate::FlagDesc] = &[\n' + ''.join(_emit_flag(r) for r in fl[k:k + flag_shard]) + '];\n'
    # every further public path must name the same type
    al = [HEADER, '// compile-time proof that each re-export names the same type as the path the driver uses\n', '#[allow(dead_code)]\nfn _aliases() {\n']
    for r in en + fl:
        for p in r['paths'][1:]:
            al.append(f'    let _: fn({r["id"]}) -> {p} = |x| x;\n')
    al.append('}\n')
    files['aliases.rs'] = ''.join(al)
    m = [HEADER, '#![allow(clippy::all, unused_mut, unused_variables, unused_parens)]\n']
    for _, name in mods:
        m.append(f'mod {name};\n')
    m.append('mod aliases;\n\n')
    m.append('pub fn enums() -> Vec<&\'static [crate::EnumDesc]> {\n    vec![' + ', '.join(f'{n}::TABLE' for k, n in mods if k == 'enum') + ']\n}\n')
    m.append('pub fn flags() -> Vec<&\'static [crate::FlagDesc]> {\n    vec![' + ', '.join(f'{n}::TABLE' for k, n in mods if k == 'flag') + ']\n}\n')
    files['mod.rs'] = ''.join(m)

    os.makedirs(outdir, exist_ok=True)
    changed = 0
    for f in os.listdir(outdir):
        if f not in files:
            os.remove(os.path.join(outdir, f))
            changed += 1
    for f, txt in files.items():
        p = os.path.join(outdir, f)
        if _read(p) != txt:
            with open(p + '.tmp', 'w') as fh:
                fh.write(txt)
            os.replace(p + '.tmp', p)
            changed += 1
    return changed, len(files)


def prepare():
    """Regenerate the driver tables from the repository's *current* tree, build, -> (binary, model)."""
    crate = os.path.join(common.HARNESS, 'types_driver')
    os.makedirs(os.path.join(common.BUILD, 'run'), exist_ok=True)
    lock = open(os.path.join(common.BUILD, 'run', 'types_driver.lock'), 'w')
    fcntl.flock(lock, fcntl.LOCK_EX)
    try:
        t0 = time.time()
        mdl = build_model()
        changed, n = emit(mdl, os.path.join(crate, 'src', 'gen'))
        common.log(f'[typesgen] {len(mdl["enums"])} enum types, {len(mdl["flags"])} flag types, {len(mdl["not_exercised"])} items not exercised; '
                   f'{changed}/{n} generated files rewritten in {time.time() - t0:.1f}s')
        t1 = time.time()
        binary = common.cargo_build('types_driver')
        mdl['build_s'] = round(time.time() - t1, 1)
        mdl['files_rewritten'] = changed
    finally:
        fcntl.flock(lock, fcntl.LOCK_UN)
        lock.close()
    return binary, mdl


# ------------------------------------------------------------------------------------------------
# wowm side helpers shared by the two checks

def distinct_defs(rec):
    """Group the environments of a type by identical definition -> [(envkeys, obj)]."""
    groups = []
    for ek in sorted(rec['defs']):
        o = rec['defs'][ek]
        sig = (o.raw['ty'], tuple((n, u, s) for n, u, s in codec.definer_values(o)), tuple(sorted((k, tuple(v)) for k, v in o.tags.items() if k == 'zero_is_always_valid')))
        for g in groups:
            if g[2] == sig:
                g[0].append(ek)
                break
        else:
            groups.append(([ek], o, sig))
    return [(g[0], g[1]) for g in groups]


def summarize_not_exercised(notx):
    by = {}
    for n in notx:
        key = re.sub(r'\(.*?\)', '(..)', n['why'])[:110]
        by.setdefault(key, []).append(n['item'])
    return [{'why': k, 'count': len(v), 'examples': v[:4]} for k, v in sorted(by.items(), key=lambda kv: -len(kv[1]))]


if __name__ == '__main__':
    import sys
    mdl = build_model()
    print(len(mdl['enums']), 'enums', len(mdl['flags']), 'flags')
    for x in summarize_not_exercised(mdl['not_exercised']):
        print(x)
    print(mdl['notes'])
    if len(sys.argv) > 1:
        print(emit(mdl, sys.argv[1]))
