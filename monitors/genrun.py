"""Shared: one real generator run on a pristine scratch copy of /repo's working tree."""
import json, os
from lib import common, gen


def pristine_run(strace=False, keep_tree=True):
    """-> (binary, tree, run result).  Raises Inconclusive if the generator cannot be built."""
    gen.sweep_stale()
    binary = gen.build_generator()
    tree = gen.scratch_tree()
    res = gen.run_generator(binary, tree, strace=strace)
    return binary, tree, res


def load_ir(tree):
    with open(os.path.join(tree, 'intermediate_representation.json')) as f:
        return json.load(f)
