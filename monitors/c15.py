"""C15: DateTime accepts exactly real calendar instants; accessors invert its packing.

Exhaustive: the Rust driver pushes all 2^32 values through DateTime::try_from and reports, for each of the
2^21 groups of the upper bits (year 8 | month 4 | day 6 | weekday 3), how many of the 2^11 low patterns
(hour 5 | minute 6) were accepted, XOR and sum of the accepted patterns and two checksums of as_int() and
the accessor results.  The driver knows nothing about calendars; expected summaries come from Python's
datetime and an independent days-from-civil computation.  Groups whose summary differs (and seeded random
groups, to cross-check the summary machinery) are fetched in full (accepted bitmap) and judged value by value.
"""
import array, datetime, json, os, random, subprocess, sys, time
from lib import common

N_GROUPS = 1 << 21
DETAIL_CAP = 8000            # mismatching groups fetched in full (the rest are judged on their summary)

# ------------------------------------------------------------------------------------------------
# oracle (no code shared with the repository)

DIM = [31, 28, 31, 30, 31, 30, 31, 31, 30, 31, 30, 31]


def is_leap(year):
    return year % 4 == 0 and (year % 100 != 0 or year % 400 == 0)


def days_in_month(y, mo):
    """zero-based month of year 2000+y"""
    return 29 if (mo == 1 and is_leap(2000 + y)) else DIM[mo]


def days_from_civil(y, m, d):
    """days since 1970-01-01 of the proleptic Gregorian date y-m-d (m, d one-based)"""
    y -= m <= 2
    era = y // 400
    yoe = y - era * 400
    doy = (153 * (m + (-3 if m > 2 else 9)) + 2) // 5 + d - 1
    doe = yoe * 365 + yoe // 4 - yoe // 100 + doy
    return era * 146097 + doe - 719468


def weekday_sun0(y, mo, d):
    """weekday (0 = Sunday) of zero-based day d of zero-based month mo of 2000+y; the date must exist"""
    return (days_from_civil(2000 + y, mo + 1, d + 1) + 4) % 7     # 1970-01-01 was a Thursday (4)


def selftest():
    """two independent calendar computations must agree on every date of 2000..2255"""
    n = 0
    day = datetime.date(2000, 1, 1)
    one = datetime.timedelta(days=1)
    prev = None
    for y in range(256):
        for mo in range(12):
            dim = days_in_month(y, mo)
            for d in range(dim):
                dt = datetime.date(2000 + y, mo + 1, d + 1)
                if dt != day:
                    raise common.Inconclusive(f'oracle self-test: successor chain broke at {dt} vs {day}')
                w = (dt.weekday() + 1) % 7
                if w != weekday_sun0(y, mo, d) or (prev is not None and w != (prev + 1) % 7):
                    raise common.Inconclusive(f'oracle self-test: weekday disagreement at {dt}')
                prev = w
                day += one
                n += 1
            try:
                datetime.date(2000 + y, mo + 1, dim + 1)
                raise common.Inconclusive(f'oracle self-test: month length disagreement {2000 + y}-{mo + 1}')
            except ValueError:
                pass
    if datetime.date(2000, 1, 1).weekday() != 5 or n != 93502:
        raise common.Inconclusive('oracle self-test: anchor')
    return n


VALID_LOW = [(h << 6) | m for h in range(24) for m in range(60)]
VALID_BITMAP = 0
for _l in VALID_LOW:
    VALID_BITMAP |= 1 << _l
V_CNT = len(VALID_LOW)
V_XOR = 0
for _l in VALID_LOW:
    V_XOR ^= _l
V_SUM = sum(VALID_LOW)
V_SUM_H = 60 * sum(range(24))
V_SUM_M = 24 * sum(range(60))


def split_group(g):
    return g >> 13, (g >> 9) & 15, (g >> 3) & 63, g & 7


def group_class(g):
    """-> (class, valid?)  why the oracle accepts / rejects the date+weekday part of the group"""
    y, mo, d, wd = split_group(g)
    if mo >= 12:
        return 'month_invalid', False
    if wd == 7:
        return 'weekday_invalid', False
    dim = days_in_month(y, mo)
    if d > dim:
        return 'day_gt_days_in_month', False
    if d == dim:
        # the day after the last one of the month: which weekday would the following calendar day have?
        nxt = (weekday_sun0(y, mo, dim - 1) + 1) % 7
        return ('day_eq_days_in_month_weekday_of_following_day' if wd == nxt else 'day_eq_days_in_month_other_weekday'), False
    if wd != weekday_sun0(y, mo, d):
        return 'weekday_wrong', False
    return 'valid_date', True


def expected_summary(g, valid):
    """(cnt, xor, sum, nbad, npan, sint, sacc) the driver must report for the group"""
    if not valid:
        return (0, 0, 0, 0, 0, 0, 0)
    y, mo, d, wd = split_group(g)
    sint = V_CNT * (g << 11) + V_SUM
    sacc = V_CNT * (y + 257 * (mo + 1) + 65537 * d + 16777259 * wd) + 3 * V_SUM_H + 1000003 * V_SUM_M
    return (V_CNT, V_XOR, V_SUM, 0, 0, sint, sacc)


def expected_fields(v):
    """as_int, year, iso month, day, weekday (0 = Sunday), hour, minute — from the documented layout"""
    return [v, v >> 24, ((v >> 20) & 15) + 1, (v >> 14) & 63, (v >> 11) & 7, (v >> 6) & 31, v & 63]


MONTH_NAMES = ['January', 'February', 'March', 'April', 'May', 'June', 'July', 'August', 'September', 'October', 'November',
               'December']
WEEKDAY_NAMES = ['Sunday', 'Monday', 'Tuesday', 'Wednesday', 'Thursday', 'Friday', 'Saturday']


def value_should_convert(v):
    g = v >> 11
    cls, valid = group_class(g)
    h, m = (v >> 6) & 31, v & 63
    if m >= 60:
        return False, 'minute_ge_60'
    if h >= 24:
        return False, 'hour_ge_24'
    return valid, cls


def span(lows):
    """compact, stable description of a set of low patterns"""
    if not lows:
        return 'none'
    hs = [l >> 6 for l in lows]
    ms = [l & 63 for l in lows]
    return f'n={len(lows)} hour {min(hs)}..{max(hs)} minute {min(ms)}..{max(ms)}'


# ------------------------------------------------------------------------------------------------

def run_sweep(binary):
    d = os.path.join(common.BUILD, 'run')
    os.makedirs(d, exist_ok=True)
    out = os.path.join(d, f'c15.sweep.{os.getpid()}.bin')
    t0 = time.time()
    try:
        p = subprocess.run([binary, 'dtsweep', out, '16'], stdout=subprocess.PIPE, stderr=subprocess.PIPE, text=True, timeout=1800)
    except subprocess.TimeoutExpired:
        raise common.Inconclusive('dtsweep did not finish within 30 minutes')
    if p.returncode != 0:
        raise common.Inconclusive(f'dtsweep exited {p.returncode}: {p.stderr[-1500:]}')
    try:
        meta = json.loads(p.stdout.strip().splitlines()[-1])
        with open(out, 'rb') as f:
            raw = f.read()
    except (OSError, ValueError, IndexError) as e:
        raise common.Inconclusive(f'dtsweep output unreadable: {e}')
    finally:
        try:
            os.remove(out)
        except OSError:
            pass
    if len(raw) != N_GROUPS * 28 or meta.get('groups') != N_GROUPS or meta.get('values') != 1 << 32:
        raise common.Inconclusive(f'dtsweep output has the wrong size ({len(raw)} bytes, meta {meta})')
    cols = {}
    off = 0
    for name, code in (('cnt', 'H'), ('xor', 'H'), ('sum', 'I'), ('nbad', 'H'), ('npan', 'H'), ('sint', 'Q'), ('sacc', 'Q')):
        a = array.array(code)
        if a.itemsize != {'H': 2, 'I': 4, 'Q': 8}[code]:
            raise common.Inconclusive('unexpected array item size on this platform')
        a.frombytes(raw[off:off + N_GROUPS * a.itemsize])
        if sys.byteorder != 'little':
            a.byteswap()
        off += N_GROUPS * a.itemsize
        cols[name] = a
    common.log(f'[c15] sweep of 2^32 values: {meta} ({time.time() - t0:.1f}s)')
    return cols, meta


def judge_detail(chk, g, e, summary=None, all_keys=False):
    """value-by-value judgement of one group from the `dt.group` event.  -> number of refuting values"""
    cls, valid = group_class(g)
    y, mo, d, wd = split_group(g)
    if e.get('result') != 'ok' or 'acc' not in e:
        raise common.Inconclusive(f'dt.group {g}: unusable event {str(e)[:200]}')
    bm = int.from_bytes(bytes.fromhex(e['acc']), 'little')
    exp_bm = VALID_BITMAP if valid else 0
    got = (e['cnt'], e['xor'], e['sum'], e['nbad'], e['npan'], e['sint'], e['sacc'])
    if summary is not None and tuple(summary) != got:
        raise common.Inconclusive(f'group {g}: sweep summary {summary} and dt.group summary {got} differ (harness inconsistency)')
    lows = [l for l in range(2048) if (bm >> l) & 1]
    x = 0
    for l in lows:
        x ^= l
    if (len(lows), x, sum(lows)) != got[:3]:
        raise common.Inconclusive(f'group {g}: bitmap and summary of dt.group disagree')
    bad = 0
    date = {'years_after_2000': y, 'month0': mo, 'day0': d, 'weekday_sun0': wd, 'group': g, 'group_class': cls}
    how = {'driver_row': ['dt.group', g], 'rerun': 'python3 check.py C15 --replay <this file>'}
    wrongly_acc = [l for l in lows if not (exp_bm >> l) & 1]
    wrongly_rej = [l for l in range(2048) if (exp_bm >> l) & 1 and not (bm >> l) & 1]
    if wrongly_acc:
        bad += len(wrongly_acc)
        only_valid_hm = all((VALID_BITMAP >> l) & 1 for l in wrongly_acc)
        obs = {'check': 'acceptance', 'expected': 'reject', 'observed': 'accepted', 'group_class': cls,
               'accepted_hour_minute': 'exactly_all_hour<24_minute<60' if (not valid and bm == VALID_BITMAP) else
               ('some_hour<24_minute<60' if only_valid_hm else 'includes_hour>=24_or_minute>=60'),
               'pattern': span(wrongly_acc)}
        r = chk.violation(obs, {'group': date, 'example_value': (g << 11) | wrongly_acc[0], 'wrongly_accepted_low_patterns': wrongly_acc[:64],
                                'expected': 'every listed value must be rejected', 'event': {k: e[k] for k in e if k != 'acc'}, **how})
        chk.count(r, len(wrongly_acc))
        chk.evaluations += len(wrongly_acc) - 1
    if wrongly_rej:
        bad += len(wrongly_rej)
        obs = {'check': 'acceptance', 'expected': 'accept', 'observed': 'rejected', 'group_class': cls, 'pattern': span(wrongly_rej),
               'rejected_as': '+'.join(k for k, n in sorted(e.get('rejected', {}).items()) if n)}
        r = chk.violation(obs, {'group': date, 'example_value': (g << 11) | wrongly_rej[0], 'wrongly_rejected_low_patterns': wrongly_rej[:64],
                                'expected': 'every listed value is a real instant and must convert', 'event': {k: e[k] for k in e if k != 'acc'}, **how})
        chk.count(r, len(wrongly_rej))
        chk.evaluations += len(wrongly_rej) - 1
    if e['npan']:
        bad += e['npan']
        obs = {'check': 'panic', 'group_class': cls}
        r = chk.violation(obs, {'group': date, 'example_value': e.get('first_panic'), 'panics': e['npan'], **how})
        chk.count(r, e['npan'])
    # accessors / integer form of accepted values
    acc_bad = False
    for v, fl in e.get('bad', []):
        if fl != expected_fields(v):
            acc_bad = True
            ex = expected_fields(v)
            names = ['as_int', 'years_after_2000', 'month', 'month_day', 'weekday', 'hours', 'minutes']
            wrong = [names[i] for i in range(7) if fl[i] != ex[i]]
            obs = {'check': 'accessors', 'wrong': '+'.join(wrong)}
            r = chk.violation(obs, {'value': v, 'observed': dict(zip(names, fl)), 'expected': dict(zip(names, ex)), 'group': date, **how})
            chk.count(r)
            bad += 1
    if not acc_bad:
        # checksums over the accepted set must be what the documented layout gives for exactly that set
        sint = sum(((g << 11) | l) for l in lows) & 0xFFFFFFFFFFFFFFFF
        sacc = (len(lows) * (y + 257 * (mo + 1) + 65537 * d + 16777259 * wd) + sum(3 * (l >> 6) + 1000003 * (l & 63) for l in lows)) & 0xFFFFFFFFFFFFFFFF
        if e['nbad'] or sint != e['sint'] or sacc != e['sacc']:
            obs = {'check': 'accessors', 'wrong': 'checksum'}
            r = chk.violation(obs, {'group': date, 'observed': {'nbad': e['nbad'], 'sint': e['sint'], 'sacc': e['sacc']},
                                    'expected': {'nbad': 0, 'sint': sint, 'sacc': sacc}, **how})
            chk.count(r)
            bad += 1
    if not bad:
        if all_keys:
            for l in range(2048):
                chk.ok(('value', g, l))
        else:
            chk.ok(('detail', cls, y, mo))
            chk.evaluations += 2047
    return bad


def judge_value(chk, v, e):
    should, why = value_should_convert(v)
    rp = {'value': v, 'fields_of_input': dict(zip(['as_int', 'y', 'month_iso', 'day0', 'weekday_sun0', 'hour', 'minute'], expected_fields(v))),
          'expected': 'ok' if should else 'err', 'oracle_class': why, 'event': e, 'driver_row': ['dt.try', v]}
    res = e.get('result')
    if res == 'panic':
        chk.count(chk.violation({'check': 'panic', 'group_class': why}, rp))
        return
    if res not in ('ok', 'err'):
        raise common.Inconclusive(f'dt.try {v}: unusable event {str(e)[:200]}')
    if (res == 'ok') != should:
        obs = {'check': 'acceptance', 'expected': 'accept' if should else 'reject', 'observed': 'accepted' if res == 'ok' else 'rejected',
               'group_class': why, 'accepted_hour_minute': 'single_value' if res == 'ok' else None}
        chk.count(chk.violation(obs, rp))
        return
    if res == 'ok':
        ex = expected_fields(v)
        if e['fields'] != ex or e.get('month') != MONTH_NAMES[ex[2] - 1] or e.get('weekday') != WEEKDAY_NAMES[ex[4]]:
            chk.count(chk.violation({'check': 'accessors', 'wrong': 'single_value'}, dict(rp, expected_fields=ex,
                                                                                        expected_names=[MONTH_NAMES[ex[2] - 1], WEEKDAY_NAMES[ex[4]]])))
            return
    chk.count('value_' + res)
    want = res == 'ok' or sum(1 for s in chk.samples if s['event'].get('result') == 'err') < 2
    chk.ok(('value', why, res), sample={'value': v, 'oracle': why, 'event': {k: x for k, x in e.items() if k not in ('alloc_max', 'alloc_peak')}} if want else None)


def run(tier, replay=None):
    chk = common.Check('C15', tier, 'exploration',
                       'all 2^32 values through DateTime::try_from (driver, 16 threads), summarised per (year, month, day, weekday) group '
                       'and compared with an independent calendar (datetime + days-from-civil); differing and seeded random groups '
                       'judged value by value from the accepted bitmap; seeded single values with all accessors; '
                       'distinct = (year, month) blocks whose 512 date/weekday groups matched the oracle summary + (oracle class, year, month) '
                       'combinations judged value by value + single-value (oracle class, result) pairs')
    n_dates = selftest()
    binary = common.cargo_build('misc_driver')
    chk.assumptions += ['proleptic Gregorian calendar for 2000..2255; weekday field 0 = Sunday, month/day zero-based (types/datetime.md)',
                        'the 32 bits are exactly year 8 | month 4 | day 6 | weekday 3 | hour 5 | minute 6, so the sweep of 2^32 values is the whole domain']
    if replay:
        rp = json.load(open(replay))
        row = rp.get('driver_row')
        if not row:
            raise common.Inconclusive('replay file has no driver_row')
        ev = common.run_driver(binary, [['r0', row[0], row[1]]], 'c15r', workers=1)
        e = ev.get('r0')
        if e is None:
            raise common.Inconclusive('no event for the replayed case')
        # a replay judges one case; the two markers only keep Check.finish from calling a single re-judged case "too little"
        chk.distinct.update({('replay', 'case'), ('replay', 'rejudged')})
        if row[0] == 'dt.group':
            judge_detail(chk, int(row[1]), e, all_keys=True)
        else:
            judge_value(chk, int(row[1]), e)
        return chk.finish()

    cols, meta = run_sweep(binary)
    chk.extra['exhaustive'] = True
    chk.extra['sweep'] = meta
    chk.extra['oracle_dates'] = n_dates
    if meta.get('accepted', 0) + sum(meta.get('rejected', {}).values()) + meta.get('panics', 0) != 1 << 32:
        raise common.Inconclusive(f'sweep totals do not add up to 2^32: {meta}')

    # expected columns
    names = ('cnt', 'xor', 'sum', 'nbad', 'npan', 'sint', 'sacc')
    exp = {n: array.array(cols[n].typecode, bytes(N_GROUPS * cols[n].itemsize)) for n in names}
    valid_groups = []
    for y in range(256):
        for mo in range(12):
            for d in range(days_in_month(y, mo)):
                g = (((y << 4 | mo) << 6 | d) << 3) | weekday_sun0(y, mo, d)
                s = expected_summary(g, True)
                for n, x in zip(names, s):
                    exp[n][g] = x
                valid_groups.append(g)
    if len(valid_groups) != n_dates:
        raise common.Inconclusive('oracle produced an unexpected number of valid groups')

    mism = []
    B = 4096
    for lo in range(0, N_GROUPS, B):
        if all(cols[n][lo:lo + B] == exp[n][lo:lo + B] for n in names):
            continue
        for g in range(lo, lo + B):
            if any(cols[n][g] != exp[n][g] for n in names):
                mism.append(g)
    chk.count('groups_matching_summary', N_GROUPS - len(mism))
    chk.count('groups_differing_summary', len(mism))

    # which groups are fetched in full
    rnd = random.Random(common.seed() * 1000003 + 15)
    n_rand, n_valid, n_edge, n_vals = (3000, 3000, 2000, 20000) if tier == 'quick' else (40000, 40000, 30000, 200000)
    mism_set = set(mism)
    # every distinct kind of disagreement is fetched first, then in group order up to the cap
    by_key = {}
    for g in mism:
        key = (group_class(g)[0],) + tuple(cols[n][g] for n in ('cnt', 'xor', 'sum', 'nbad', 'npan'))
        by_key.setdefault(key, []).append(g)
    fetch_m = []
    for key, gs in by_key.items():
        fetch_m += gs[:3]
    seen = set(fetch_m)
    for g in mism:
        if len(fetch_m) >= DETAIL_CAP:
            break
        if g not in seen:
            fetch_m.append(g)
            seen.add(g)
    extra = set()
    for _ in range(n_rand):
        extra.add(rnd.randrange(N_GROUPS))
    for g in rnd.sample(valid_groups, min(n_valid, len(valid_groups))):
        extra.add(g)
    for _ in range(n_edge):       # around the end of a month, every weekday
        y, mo = rnd.randrange(256), rnd.randrange(12)
        d = days_in_month(y, mo) + rnd.choice((-1, 0, 1))
        extra.add((((y << 4 | mo) << 6 | d) << 3) | rnd.randrange(8))
    extra -= seen
    rows = [[f'g{g}', 'dt.group', g] for g in fetch_m] + [[f'g{g}', 'dt.group', g] for g in sorted(extra)]
    # single values with every accessor: accepted ones, near misses and uniform values
    vals = set()
    for g in rnd.sample(valid_groups, min(n_vals // 2, len(valid_groups))):
        vals.add((g << 11) | rnd.choice(VALID_LOW))
        vals.add((g << 11) | rnd.choice(((24 << 6) | rnd.randrange(60), (rnd.randrange(24) << 6) | 60, 2047, (23 << 6) | 63, (31 << 6) | 59)))
    while len(vals) < n_vals * 3 // 2:
        vals.add(rnd.getrandbits(32))
    for v in (0, 0xFFFFFFFF, 0x80000000, 0x7FFFFFFF):
        vals.add(v)
    rows += [[f'v{v}', 'dt.try', v] for v in sorted(vals)]
    ev = common.run_driver(binary, rows, 'c15')

    detail_bad = {}
    for g in fetch_m + sorted(extra):
        e = ev.get(f'g{g}')
        if e is None:
            chk.inconclusive.append(f'no event for group {g}')
            continue
        summary = tuple(cols[n][g] for n in names)
        nb = judge_detail(chk, g, e, summary=summary)
        if nb:
            detail_bad[g] = nb
        elif g in mism_set:
            raise common.Inconclusive(f'group {g}: summary differs from the oracle but the value-by-value judgement found nothing')
        chk.count('groups_judged_value_by_value')
    for g in extra:
        if g in detail_bad and g not in mism_set:
            raise common.Inconclusive(f'group {g}: value-by-value judgement refutes a group whose summary matched')
    for v in sorted(vals):
        e = ev.get(f'v{v}')
        if e is None:
            chk.inconclusive.append(f'no event for value {v}')
            continue
        judge_value(chk, v, e)

    # groups beyond the detail cap: same disagreement class as a fetched representative -> same observation
    rest = [g for g in mism if g not in seen]
    if rest:
        for g in rest:
            cls, valid = group_class(g)
            obs = {'check': 'acceptance_summary', 'group_class': cls, 'expected_count': V_CNT if valid else 0,
                   'observed_count_class': 'all_valid' if (cols['cnt'][g], cols['xor'][g], cols['sum'][g]) == (V_CNT, V_XOR, V_SUM) else
                   ('none' if cols['cnt'][g] == 0 else 'other')}
            y, mo, d, wd = split_group(g)
            r = chk.violation(obs, {'group': {'years_after_2000': y, 'month0': mo, 'day0': d, 'weekday_sun0': wd, 'group': g},
                                    'observed_summary': {n: cols[n][g] for n in names}, 'expected_summary': {n: exp[n][g] for n in names},
                                    'driver_row': ['dt.group', g]})
            chk.count(r, 2048)
            chk.evaluations += 2047
    # groups whose summary equals the oracle's: every one of their 2048 values is judged by the summary
    for y in range(256):
        for mo in range(16):
            base = (y << 4 | mo) << 9
            nm = sum(1 for g in range(base, base + 512) if g in mism_set) if mism_set else 0
            if 512 - nm:
                chk.ok(('summary', y, mo))
                chk.evaluations += (512 - nm) * 2048 - 1
    chk.extra['values_judged_by_summary'] = (N_GROUPS - len(mism)) * 2048
    chk.extra['mismatching_groups_by_class'] = {}
    for g in mism:
        c = group_class(g)[0]
        chk.extra['mismatching_groups_by_class'][c] = chk.extra['mismatching_groups_by_class'].get(c, 0) + 1
    return chk.finish()
