"""Shared by C02/C05: pools of individually round-tripping frames and random message sequences."""
import random, struct
from lib import common, judge
from monitors import vecs as V
from ref import model, codec, canon, faults

WARDEN = {'server': 'SMSG_WARDEN_DATA', 'client': 'CMSG_WARDEN_DATA'}


def warden_vector(corpus, version, direction, length, rng=None):
    """canonical {S,C}MSG_WARDEN_DATA frame with an `encrypted_data` of `length` bytes (fill pattern i % 251)"""
    env = corpus.env('world', version)
    cdc = codec.Codec(env)
    c = env.containers[WARDEN[direction]]
    vals = {'encrypted_data': [(i % 251) for i in range(length)]}
    body = bytes(vals['encrypted_data'])
    frame = cdc.frame(c, body, direction)
    return {'id': f'world:{version}.{direction[0].upper()}.{c.name}#len{length}', 'family': 'world', 'version': version, 'dir': direction,
            'object': c.name, 'opcode': c.raw['opcode'], 'hex': frame.hex(), 'hdr': len(frame) - len(body), 'class': 'canonical',
            'kind': f'len{length}', 'sig': [f'encrypted_data[-]:{length}'], 'feat': [], 'fmap': [], 'payloads': []}


ELEM_WIDTH = {'u32': 4, 'Spell': 4, 'Guid': 8, 'u64': 8}


def elastic_messages(corpus, version, direction):
    """messages of the shape `u32 n; T[n] xs;` with a fixed-width T: the only ones whose size guard reaches beyond 64 KiB"""
    env = corpus.env('world', version)
    cdc = codec.Codec(env)
    out = []
    for c in sorted(env.messages(), key=lambda c: c.name):
        ms = c.raw['members']
        if len(ms) == 2 and all(m['m'] == 'def' for m in ms) and ms[0]['ty'] == 'u32' and ms[1].get('array') == ms[0]['name'] \
                and ms[1]['ty'] in ELEM_WIDTH and direction in cdc.directions(c) and not codec.info(c).compressed:
            out.append(c)
    return out


def elastic_vector(corpus, version, direction, c, n):
    """canonical frame of elastic message c with n elements (element i = i * 2654435761 mod 2^width)"""
    env = corpus.env('world', version)
    cdc = codec.Codec(env)
    w = ELEM_WIDTH[c.raw['members'][1]['ty']]
    body = struct.pack('<I', n) + b''.join(((i * 2654435761) & ((1 << 8 * w) - 1)).to_bytes(w, 'little') for i in range(n))
    frame = cdc.frame(c, body, direction)
    return {'id': f'world:{version}.{direction[0].upper()}.{c.name}#n{n}', 'family': 'world', 'version': version, 'dir': direction,
            'object': c.name, 'opcode': c.raw['opcode'], 'hex': frame.hex(), 'hdr': len(frame) - len(body), 'class': 'canonical',
            'kind': f'n{n}', 'sig': [f'n:{n}'], 'feat': [], 'fmap': [], 'payloads': []}


def max_body(version, direction):
    if direction == 'client':
        return 0xFFFF - 4
    if version == 'wrath':
        return 0x7FFFFF - 2
    return 0xFFFF - 2


def good_pool(binary, vectors):
    """vectors that round-trip on their own (so a sequence failure is about sequencing)"""
    ev = common.run_driver(binary, (V.driver_row(v) for v in vectors), 'pool')
    pool = {}
    for v in vectors:
        e = ev.get(v['id'])
        if e is not None and judge.judge_roundtrip(v, e) is None:
            pool.setdefault((v['version'], v['dir']), []).append(v)
    return pool


def make_sequences(corpus, pool, n_seq, max_len, rng, boundary=True):
    """-> list of dict(id, version, dir, frames=[vector...])"""
    out = []
    keys = sorted(pool)
    for i in range(n_seq):
        version, d = keys[i % len(keys)]
        vs = pool[(version, d)]
        n = rng.randint(2, max_len)
        frames = []
        for j in range(n):
            r = rng.random()
            if boundary and r < 0.12:
                lim = max_body(version, d)
                cands = [0, 1, 2, 0x7FFB, 0x7FFC, 0x7FFD, 0x7FFE, 0x7FFF, 0x8000, 0x8001, 0x8002, 0xFFF9, 0xFFFB, 0xFFFC, 0xFFFD]
                L = rng.choice([x for x in cands if x <= lim - 2])   # the top two lengths are judged alone in C02(b)
                frames.append(warden_vector(corpus, version, d, L))
            elif r < 0.25:
                small = [v for v in vs if len(v['hex']) <= 16]
                frames.append(rng.choice(small or vs))
            elif r < 0.35:
                comp = [v for v in vs if v.get('payloads')]
                frames.append(rng.choice(comp or vs))
            else:
                frames.append(rng.choice(vs))
        out.append({'id': f'seq{i}.{version}.{d[0]}', 'version': version, 'dir': d, 'frames': frames})
    return out


def chunk_pattern(rng):
    """sizes of successive short reads of a blocking transport (cycled by the driver)"""
    return rng.choice(['1', '1', '2', '3', '1.2.3', '1.4096', '5.1.1.2'] + ['.'.join(str(rng.choice([1, 1, 2, 3, 5, 8, 64])) for _ in range(rng.randint(2, 6)))])


def mismatch_names(seq, pool_names, rng, p=0.35):
    """names column for the typed readers in which some messages are asked for under a different name (prefix '!'): the
    helper has to answer with an Opcode error and still consume the whole frame. -> (names, set of mismatched positions)"""
    names, mis = [], set()
    for i, v in enumerate(seq['frames']):
        others = [n for n, op in pool_names if op != v['opcode']]
        if others and rng.random() < p:
            names.append('!' + rng.choice(others))
            mis.add(i)
        else:
            names.append(v['object'])
    return ','.join(names), mis


def judge_stream(seq, msgs, frame_lens=None, mismatched=()):
    """msgs: list of per-message driver records (result,pos,out). frame_lens: lengths of the frames of the
    stream that was actually read when it is the library's own rendering (compressed frames differ in length
    from the reference rendering). -> None or dict(reason=...)"""
    frames = [bytes.fromhex(v['hex']) for v in seq['frames']]
    lens = frame_lens if frame_lens is not None else [len(f) for f in frames]
    if len(lens) != len(frames):
        return {'reason': 'count', 'detail': f'{len(lens)} frames in the rendered stream, {len(frames)} messages written'}
    total = sum(lens)
    if len(msgs) != len(frames):
        last = msgs[-1] if msgs else {}
        return {'reason': 'count', 'detail': f'{len(msgs)} messages read, {len(frames)} written', 'at': len(msgs) - 1,
                'last': {k: str(v)[:120] for k, v in last.items() if k != 'out'}}
    pos = 0
    for i, (v, f, m) in enumerate(zip(seq['frames'], frames, msgs)):
        pos += lens[i]
        if i in mismatched:
            if m.get('result') != 'err' or m.get('err_kind') != 'Opcode':
                return {'reason': 'mismatch-answer', 'at': i, 'object': v['object'], 'detail': {k: str(x)[:120] for k, x in m.items() if k != 'out'}}
            if m.get('err_value') != v['opcode']:
                return {'reason': 'mismatch-opcode', 'at': i, 'object': v['object'], 'detail': f'reports opcode {m.get("err_value")}, the message has {v["opcode"]}'}
            if m.get('pos') != pos:
                return {'reason': 'mismatch-position', 'at': i, 'object': v['object'], 'detail': f'reader at {m.get("pos")} after the rejected message, frame ends at {pos}'}
            continue
        if m.get('result') != 'ok':
            return {'reason': 'error', 'at': i, 'object': v['object'], 'detail': {k: str(x)[:120] for k, x in m.items()}}
        if m.get('pos') != pos:
            return {'reason': 'position', 'at': i, 'object': v['object'], 'detail': f'reader at {m.get("pos")}, frame ends at {pos}'}
        out = judge.out_bytes(m)
        if out is None:
            if m.get('out_len') != len(f) or m.get('out_fnv') != judge.fnv(f):
                return {'reason': 'sequence', 'at': i, 'object': v['object'], 'detail': 'large message differs'}
        elif judge.same_message(v, out) is not None and 'nonfixed-spline' not in (v.get('feat') or []):
            return {'reason': 'sequence', 'at': i, 'object': v['object'], 'detail': judge.same_message(v, out)}
    if pos != total:
        return {'reason': 'position', 'detail': 'stream not exhausted'}
    return None
