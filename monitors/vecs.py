"""Shared: build the canonical vector set (generated + captured) for a tier."""
import json, os, struct
from lib import common
from ref import model, codec, selfval, vectors


def load_model():
    corpus = model.Corpus(model.default_root())
    sv = selfval.run(corpus)
    if not sv['ok']:
        raise common.Inconclusive('reference model self-validation failed: ' + '; '.join(sv['failures'][:5]))
    return corpus, sv


def nonfixed(fmap, body):
    """a packed spline point that is not a fixed point of the documented (lossy) pack/unpack pair"""
    for r in fmap:
        if r[4] == 'packed-spline':
            v = struct.unpack('<I', body[r[1]:r[1] + 4])[0]
            if (v & 0x7FF) % 4 or ((v >> 11) & 0x7FF) % 4 or ((v >> 22) & 0x3FF) % 4:
                return True
    return False


def captured_vectors(corpus):
    """The corpus' own test vectors as vector records (class 'captured')."""
    out = []
    cdcs = {}
    n = 0
    for env, c, t in corpus.tests():
        cdc = cdcs.setdefault(env.key, codec.Codec(env))
        data = bytes(t['bytes'])
        try:
            d, body = selfval.split_frame(cdc, c, data)
            vals, fmap = cdc.decode(c, body)
            b2, fmap2, sig, payloads = cdc.encode(c, vals)
        except (codec.RefError, codec.DecodeError):
            continue
        hl = len(data) - len(body)
        n += 1
        out.append({'id': f'{env.key}.{d[0].upper()}.{c.name}#captured{n}', 'family': env.family, 'version': env.version,
                    'dir': d, 'object': c.name, 'opcode': c.raw['opcode'], 'hex': data.hex(), 'hdr': hl,
                    'class': 'captured', 'kind': 'captured', 'sig': sig,
                    'feat': cdc.last_feat + (['nonfixed-spline'] if nonfixed(fmap2, b2) or any(nonfixed(p['fmap'], p['payload']) for p in payloads) else []),
                    'fmap': [[r[0], r[1] + hl, r[2], r[3], r[4]] + r[5:] for r in fmap2],
                    'payloads': [{'len_off': p['len_off'] + hl, 'data_off': p['data_off'] + hl, 'payload': p['payload'].hex(),
                                  'fmap': p['fmap']} for p in payloads]})
    return out


def build(tier, k=None, envs=None, only=None):
    """-> (corpus, selfval summary, list of vectors, stats)"""
    corpus, sv = load_model()
    k = k if k is not None else (8 if tier == 'quick' else 600)
    d = os.path.join(common.BUILD, 'vec', f'{tier}-{common.seed()}-{os.getpid()}')
    stats, files = vectors.build(model.default_root(), common.seed(), k, d, envs=envs, only=only, procs=min(9, common.NCPU))
    vecs = []
    for key, p in files.items():
        with open(p) as f:
            for line in f:
                vecs.append(json.loads(line))
        os.remove(p)
    try:
        os.rmdir(d)
    except OSError:
        pass
    bad = [x for s in stats.values() for x in s['model_selfcheck_fail']]
    if bad:
        raise common.Inconclusive('reference encoder/decoder disagree with each other: ' + '; '.join(bad[:5]))
    if envs is None and only is None:
        vecs += captured_vectors(corpus)
    return corpus, sv, vecs, stats


def driver_row(v):
    if v['family'] == 'world':
        return [v['id'], 'W.read', v['version'], v['dir'], v['hex']]
    return [v['id'], 'L.read', v['version'], v['dir'], v['hex']]
