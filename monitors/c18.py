"""C18: the documentation shows each object's definition and examples faithfully.

The real generator is run on a pristine scratch copy of the tree; every documentation page and every
Rust doc comment it (re)wrote is read back with ref.docview and judged against the independent reading
of the wowm sources (ref.model / ref.neutral / ref.sizes / ref.codec).
"""
import json, os, zlib, random
from lib import common, gen
from monitors import genrun
from ref import model, neutral, codec, sizes, docview

RUST_DIRS = ['wow_world_messages/src/world', 'wow_login_messages/src/logon', 'wow_world_base/src/inner']
DOCS_DIR = 'wowm_language/src/docs'


POOL = {}


def keep(cat, sample):
    """remember a real compared case per category; the shown samples are drawn from these by the seed"""
    lst = POOL.setdefault(cat, [])
    if len(lst) < 4000:
        lst.append(sample)


def path_class(d):
    head = (d or '').split(':')[0]
    return ''.join(ch for ch in head if not ch.isdigit())


class Source:
    """The source side: every wowm object with its shape record and the environment it lives in."""

    def __init__(s):
        s.corpus = model.Corpus(model.default_root())
        s.repo = os.path.dirname(os.path.dirname(s.corpus.root.rstrip('/')))
        s.records = neutral.from_wowm(s.corpus)
        s.env_of = {}
        for env in s.corpus.envs.values():
            for d in (env.definers, env.containers):
                for o in d.values():
                    s.env_of.setdefault(id(o), env)
        s.envs_of = {}
        for env in s.corpus.envs.values():
            for d in (env.definers, env.containers):
                for o in d.values():
                    s.envs_of.setdefault(id(o), []).append(env)
        s.by_loc = {}
        s.objs = []
        for o in s.corpus.objs:
            if o.family == 'none' or o.is_test_object():
                continue
            s.objs.append(o)
            rel = os.path.relpath(o.file, s.repo)
            s.by_loc.setdefault((rel, o.line), []).append(o)
        # test vectors per object: (env, raw test) in corpus order
        s.tests = {}
        for env, c, t in s.corpus.tests():
            lst = s.tests.setdefault(id(c), [])
            if not any(x[1] is t for x in lst):
                lst.append((env, t))

    def env(s, o):
        return s.env_of.get(id(o)) or s.corpus.env_for(o)

    def key(s, o):
        return (o.name, neutral.vkey(o.family, o.versions))

    def shape(s, o):
        return docview.shape_record(s.records[s.key(o)])

    def in_wrath(s, o):
        return o.family == 'world' and any(model.covers(v, model.EXPANSIONS['wrath']) or (v != ('*',) and v[0] >= 3) for v in o.versions)


def judge_block(chk, src, where, doc_file, link, text, heading_vkey=None, focus=None):
    """(1) the re-printed wowm parses back to the source object's record.  -> source Obj or None"""
    kind = f'{where}-block'
    if link is None:
        chk.violation({'check': kind, 'what': 'no-source-link', 'doc': doc_file}, {'doc': doc_file})
        return None
    cands = src.by_loc.get((link[0], link[1]), [])
    if not cands:
        chk.violation({'check': kind, 'what': 'link-resolves-to-no-object', 'doc': doc_file, 'link': f'{link[0]}:{link[1]}'},
                      {'doc': doc_file, 'link': link})
        return None
    o = cands[0]
    if heading_vkey is not None:
        same = [c for c in cands if src.key(c)[1] == heading_vkey]
        if same:
            o = same[0]
            chk.count('page_heading_versions_equal_source')
        else:
            chk.count('page_heading_versions_differ_from_source')
            chk.extra.setdefault('heading_version_differences', [])
            if len(chk.extra['heading_version_differences']) < 10:
                chk.extra['heading_version_differences'].append({'doc': doc_file, 'heading': heading_vkey, 'source': src.key(o)[1]})
    name, vk = src.key(o)
    if link[3] != link[1] or not link[2].endswith(link[0]):
        chk.violation({'check': kind, 'what': 'link-text-and-url-differ', 'object': name, 'versions': vk}, {'doc': doc_file, 'link': link})
    if text is None:
        chk.violation({'check': kind, 'what': 'no-wowm-block', 'object': name, 'versions': vk}, {'doc': doc_file})
        return o
    obs_base = {'check': kind, 'object': name, 'versions': vk}
    rp = {'doc': doc_file, 'source': f'{link[0]}:{link[1]}', 'documented_text': text,
          'how': f'python3 check.py C18 --replay <this file>  (re-runs the generator and re-judges {doc_file})'}
    try:
        raw = docview.parse_block(text, doc_file)
    except (SyntaxError, AssertionError, IndexError) as e:
        chk.violation({**obs_base, 'what': 'does-not-parse'}, {**rp, 'error': str(e)})
        return o
    want = src.shape(o)
    try:
        got = docview.record_of_raw(raw, src.env(o), o.family, o.versions)
    except (codec.RefError, KeyError, AttributeError) as e:
        chk.violation({**obs_base, 'what': 'does-not-resolve'}, {**rp, 'error': repr(e), 'expected_record': want})
        return o
    d = neutral.first_diff(want, got)
    if d is None and chk.tier == 'thorough' and want['kind'] not in ('enum', 'flag'):
        # the same comparison with names resolved in every other flavour the object belongs to
        for env in src.envs_of.get(id(o), [])[1:]:
            try:
                w2 = docview.record_of_raw(o.raw, env, o.family, o.versions)
                g2 = docview.record_of_raw(raw, env, o.family, o.versions)
            except (codec.RefError, KeyError, AttributeError) as e:
                chk.violation({**obs_base, 'what': 'does-not-resolve', 'env': env.key}, {**rp, 'error': repr(e)})
                continue
            chk.count('blocks_compared_in_additional_flavours')
            d = neutral.first_diff(w2, g2)
            if d is not None:
                want, got = w2, g2
                obs_base['env'] = env.key
                break
    if d is None:
        chk.count(f'{where}_blocks_equal')
        chk.ok((where, name, vk))
        keep(f'{where}-block', {'doc': doc_file, 'object': name, 'versions': vk, 'kind': want['kind'], 'source': f'{link[0]}:{link[1]}',
                                'record_head': str(want)[:240]})
    else:
        chk.violation({**obs_base, 'what': 'record-differs', 'path_class': path_class(d)},
                      {**rp, 'first_difference': d, 'expected_record': want, 'documented_record': got})
    return o


def judge_definer_table(chk, src, o, sec, doc_file):
    name, vk = src.key(o)
    want = [(n, sv) for (n, uv, sv) in codec.definer_values(o)]
    rows = sec['enumerators']
    obs = {'check': 'enumerator-table', 'object': name, 'versions': vk}
    rp = {'doc': doc_file, 'expected': want, 'documented': rows}
    if rows is None:
        chk.violation({**obs, 'what': 'no-table'}, rp)
        return
    bad = None
    if [r[0] for r in rows] != [w[0] for w in want]:
        bad = 'names-or-order'
    elif [r[1] for r in rows] != [w[1] for w in want]:
        bad = 'decimal-values'
    elif any(int(r[2], 16) != r[1] % (1 << (4 * len(r[2]))) for r in rows):
        bad = 'hex-values'
    w0 = codec.definer_base(o)[0]
    wide = [r for r in rows if r[1] < 0 and len(r[2]) > 2 * w0]
    if wide:
        chk.count('enumerator_rows_negative_value_hex_wider_than_base_type', len(wide))
        chk.extra.setdefault('enumerator_hex_wider_than_base_type', []).append(f'{name} {vk}: {wide[0][0]} = {wide[0][1]} (0x{wide[0][2]}) base {o.raw["ty"]}')
    w, signed, _ = codec.definer_base(o)
    bt = sec['basic_type']
    if bad is None and (bt is None or bt[0] != o.raw['ty'] or bt[1] != w or bt[2] != 8 * w):
        bad = 'basic-type'
        rp['basic_type'] = bt
    if bad:
        chk.violation({**obs, 'what': bad}, rp)
    else:
        chk.count('enumerator_tables_equal')
        chk.count('enumerator_rows', len(rows))
        chk.ok(('enum-table', name, vk))
        keep('enumerator-table', {'doc': doc_file, 'object': name, 'versions': vk, 'rows': rows[:4], 'basic_type': bt})


TYPE_ALIASES = {'MonsterMoveSplines': 'MonsterMoveSpline'}


def judge_body_table(chk, src, o, sec, doc_file):
    """(2) the body table lists the same members in the same order with their sizes (offsets: observed only)."""
    name, vk = src.key(o)
    obs = {'check': 'body-table', 'object': name, 'versions': vk}
    cdc = codec.Codec(src.env(o))
    members = o.raw['members']
    rp = {'doc': doc_file}
    if not sec['has_body']:
        if docview.has_nested_if(o):
            chk.count('no_body_table_nested_if')
            chk.extra.setdefault('objects_without_body_table', []).append(f'{name} {vk}')
        else:
            chk.violation({**obs, 'what': 'no-table'}, rp)
        return
    if sec['body_note'] == 'empty':
        if members:
            chk.violation({**obs, 'what': 'says-empty-but-has-members'}, rp)
        else:
            chk.count('body_says_empty_and_is')
            chk.ok(None)   # trivial: nothing to list
        return
    if sec['body_note'] == 'unimplemented':
        chk.count('body_says_unimplemented')
        return
    rows = sec['rows']
    unparsed = [r for r in rows if 'unparsed' in r]
    if unparsed:
        chk.violation({**obs, 'what': 'unreadable-row'}, {**rp, 'rows': unparsed[:5]})
        return
    try:
        want = docview.expected_rows(cdc, o, wrath=src.in_wrath(o))
    except (codec.RefError, sizes.Approx) as e:
        chk.count('body_table_reference_cannot_size')
        chk.extra.setdefault('reference_limits', []).append(f'{name} {vk}: {e}'[:160])
        return
    rp['expected_rows'] = [list(w[:4]) for w in want]
    rp['documented_rows'] = [[r['name'], r['type'], r['size'], r['offset']] for r in rows]
    if [r['name'] for r in rows] != [w[0] for w in want]:
        gn, wn = [r['name'] for r in rows], [w[0] for w in want]
        what = 'member-missing' if len(gn) < len(wn) else 'member-extra' if len(gn) > len(wn) else 'member-order'
        chk.violation({**obs, 'what': what}, rp)
        return
    problems = []
    offset_diffs = []
    oo = None
    running = docview.running_offsets(want, docview.body_start(cdc, o, src.in_wrath(o)))
    printed_running = all(r['offset'] == ro for r, ro in zip(rows, running))
    for r, (wname, wty, wsz, woff, cond) in zip(rows, want):
        chk.count('body_rows')
        if wsz == 'approx':
            chk.count('body_rows_reference_approx')
        elif wsz is None:
            if r['size'] not in ('-', '?'):
                problems.append(('size-claimed-for-variable', wname, r['size'], None, cond))
            else:
                chk.count('body_rows_variable_marked')
        else:
            if r['size'] != str(wsz):
                problems.append(('size', wname, r['size'], wsz, cond))
            else:
                chk.count('body_rows_constant_size_equal')
        if TYPE_ALIASES.get(wty, wty) != r['type']:
            problems.append(('type-text', wname, r['type'], wty, cond))
        # offsets are not part of the property's statement: observed and reported, never judged
        oo = chk.extra.setdefault('offset_observations', {
            'note': 'observed, not judged (the property speaks of members, order and sizes only)',
            'equal': 0, 'page_prints_dash': 0, 'both_variable': 0, 'differ': 0, 'tables_with_differences': 0, 'examples': []})
        if woff is not None and r['offset'] is None:
            oo['page_prints_dash'] += 1
        elif woff is None and r['offset'] is None:
            oo['both_variable'] += 1
        elif woff == r['offset']:
            oo['equal'] += 1
        else:
            oo['differ'] += 1
            offset_diffs.append({'member': wname, 'page': f"0x{r['offset']:02X}",
                                 'reference': 'position varies' if woff is None else f'0x{woff:02X}', 'after_conditional': cond})
    if offset_diffs:
        oo['tables_with_differences'] += 1
        if len(oo['examples']) < 12:
            oo['examples'].append({'doc': doc_file, 'object': name, 'versions': vk,
                                   'page_offsets_are_one_running_sum_through_all_branches': printed_running, 'rows': offset_diffs[:4]})
    if not problems:
        chk.count('body_tables_equal')
        chk.ok(('body', name, vk))
        keep('body-table', {'doc': doc_file, 'object': name, 'versions': vk, 'rows [name, type, size, offset]': rp['documented_rows'][:6]})
        return
    seen = set()
    for what, member, got, exp, cond in problems:
        sig = (what, cond)
        if sig in seen:
            continue
        seen.add(sig)
        chk.violation({**obs, 'what': what, 'after_conditional': cond},
                      {**rp, 'member': member, 'documented': got, 'expected': exp,
                       'all_problems': [list(p) for p in problems][:20]})


def judge_examples(chk, src, o, sec, doc_file):
    """(3) byte groups concatenate to the test's bytes and follow the reference decoder's field order."""
    name, vk = src.key(o)
    tests = src.tests.get(id(o), [])
    exs = sec['examples']
    obs0 = {'check': 'example', 'object': name, 'versions': vk}
    if len(exs) != len(tests):
        chk.violation({**obs0, 'what': 'example-count'}, {'doc': doc_file, 'examples': len(exs), 'tests_of_object': len(tests)})
    for i, ex in enumerate(exs):
        obs = {**obs0, 'example': ex['n']}
        if ex['n'] != i + 1:
            chk.violation({**obs, 'what': 'numbering'}, {'doc': doc_file})
        if i >= len(tests):
            continue
        env, t = tests[i]
        data = bytes(t['bytes'])
        rp = {'doc': doc_file, 'test_bytes': data.hex(), 'listing': ex['lines'][:60]}
        entries, problems = docview.example_lines(ex['lines'])
        groups, leftovers = docview.example_groups(entries)
        cdc = codec.Codec(env)
        try:
            want, notes = docview.expected_groups(cdc, o, data)
        except (codec.DecodeError, codec.RefError, zlib.error) as e:
            chk.count('example_reference_cannot_decode')
            chk.extra.setdefault('reference_limits', []).append(f'{name} {vk} example {ex["n"]}: {e}'[:160])
            continue
        want = [(n, bytes(b)) for n, b in want if len(b)]
        got = [(g[0], bytes(g[2])) for g in groups if len(g[2])]
        exp_concat = b''.join(b for _, b in want)
        inflated = notes.get('inflated', 0)
        if not inflated and exp_concat != data:
            raise common.Inconclusive(f'reference groups of {name} test {i} do not cover the vector (oracle error)')
        got_concat = b''.join(b for _, b in got)
        rp['expected_groups'] = [[n, b.hex()] for n, b in want][:80]
        rp['documented_groups'] = [[n, b.hex()] for n, b in got][:80]
        chk.count('examples')
        if inflated:
            chk.count('examples_with_inflated_member')
        if notes.get('whole_compressed'):
            chk.count('examples_whole_message_compressed')
        if problems:
            chk.violation({**obs, 'what': 'bytes-do-not-concatenate', 'cause': problems[0][0]}, {**rp, 'problems': problems[:5]})
            continue
        if got_concat != exp_concat:
            cause = 'missing-bytes' if len(got_concat) < len(exp_concat) else 'extra-bytes' if len(got_concat) > len(exp_concat) else 'different-bytes'
            chk.violation({**obs, 'what': 'bytes-do-not-concatenate', 'cause': cause},
                          {**rp, 'documented_concat': got_concat.hex(), 'expected_concat': exp_concat.hex()})
            continue
        if leftovers or any(g[0] == '<unlabelled>' for g in groups):
            chk.violation({**obs, 'what': 'unannotated-bytes'}, {**rp, 'labels': leftovers[:5]})
            continue
        if [n for n, _ in got] != [n for n, _ in want]:
            chk.violation({**obs, 'what': 'field-order'}, rp)
            continue
        if got != want:
            bad = [n for (n, b), (_, wb) in zip(got, want) if b != wb]
            chk.violation({**obs, 'what': 'group-extent', 'field': bad[0] if bad else None}, rp)
            continue
        chk.count('example_groups', len(got))
        chk.ok(('example', name, vk, ex['n']))
        keep('example', {'doc': doc_file, 'object': name, 'versions': vk, 'example': ex['n'], 'test_bytes': len(data),
                         'inflated_members': inflated, 'groups': [[n, b.hex()[:40]] for n, b in got][:8]})


def list_rs(tree):
    for d in RUST_DIRS:
        for dp, _, fs in os.walk(os.path.join(tree, d)):
            for f in sorted(fs):
                if f.endswith('.rs'):
                    yield os.path.join(dp, f)


def run(tier, replay=None):
    chk = common.Check('C18', tier, 'exploration',
                       'the real generator is run on a pristine copy of the tree; every documentation page section and every Rust doc comment it '
                       'wrote is read back: (1) the embedded wowm text is parsed with the independent parser, names resolved in the source '
                       "object's environment, lowered to the neutral record (name, kind, opcode, base type, enumerators+values, members in order "
                       'with types/upcasts/array kinds/constants, semantic conditional structure, optional block) and must equal the record of the '
                       'source object the link points to; (2) body tables must list the flattened members in definition order with the constant '
                       'size (or a variable marker) the reference size model derives (offsets are observed and reported, not judged), enumerator tables the names and values; '
                       '(3) the byte groups of every example must concatenate to the test vector (inflated payload for compressed members) and '
                       'carry the field names in the order and with the extents of the reference decoder; distinct = documented object versions '
                       'and examples compared')
    focus = None
    POOL.clear()
    if replay:
        with open(replay) as f:
            rj = json.load(f)
        focus = rj.get('doc')
        common.log(f'[replay] re-judging {focus}')
    binary, tree, res = genrun.pristine_run()
    try:
        if res['exit'] is None:
            raise common.Inconclusive('the generator run timed out')
        if res['exit'] != 0:
            chk.violation({'check': 'generator-exit', 'exit': res['exit']}, {'stderr': res['stderr'][-3000:]})
            return chk.finish()
        src = Source()
        if focus:
            # a replay judges one document: the two facts every replay establishes first
            chk.ok(('replay', 'generator-exit-0'))
            if os.path.exists(os.path.join(tree, focus)):
                chk.ok(('replay', 'document-written', focus))
            else:
                chk.violation({'check': 'replay', 'what': 'document-not-written', 'doc': focus}, {'doc': focus})
        pages_dir = os.path.join(tree, DOCS_DIR)
        pages = sorted(f for f in os.listdir(pages_dir) if f.endswith('.md'))
        documented_pages, documented_rust = set(), set()
        for f in pages:
            doc_file = f'{DOCS_DIR}/{f}'
            if focus and focus != doc_file:
                continue
            with open(os.path.join(pages_dir, f)) as fh:
                text = fh.read()
            title, secs = docview.split_sections(text)
            chk.count('pages')
            if not secs:
                chk.violation({'check': 'page', 'what': 'no-version-section', 'doc': doc_file}, {'doc': doc_file})
                continue
            for s in secs:
                chk.count('page_sections')
                sec = docview.read_section(s)
                if sec['blocks'] != 1:
                    chk.violation({'check': 'page-block', 'what': 'block-count', 'doc': doc_file, 'blocks': sec['blocks']}, {'doc': doc_file, 'heading': s['heading']})
                o = judge_block(chk, src, 'page', doc_file, sec['link'], sec['wowm'], heading_vkey=docview.heading_vkey(s))
                if o is None:
                    continue
                documented_pages.add(src.key(o))
                if title != o.name or f != o.name.lower() + '.md':
                    chk.violation({'check': 'page', 'what': 'page-name', 'object': o.name, 'doc': doc_file}, {'doc': doc_file, 'title': title})
                if o.kind in ('enum', 'flag'):
                    judge_definer_table(chk, src, o, sec, doc_file)
                else:
                    judge_body_table(chk, src, o, sec, doc_file)
                    judge_examples(chk, src, o, sec, doc_file)
        nrs = 0
        for p in list_rs(tree):
            doc_file = os.path.relpath(p, tree)
            if focus and focus != doc_file:
                continue
            with open(p) as fh:
                text = fh.read()
            nrs += 1
            if docview.RUST_HEAD not in text:
                continue
            chk.count('rust_files_with_doc_comment')
            for b in docview.rust_doc_blocks(text):
                chk.count('rust_doc_comments')
                o = judge_block(chk, src, 'rust', doc_file, b['link'], b['wowm'])
                if o is not None:
                    for c in src.by_loc.get((b['link'][0], b['link'][1]), []):
                        documented_rust.add(src.key(c))
        chk.extra['rust_files_scanned'] = nrs
    finally:
        gen.drop(tree)
    if not focus:
        allk = {src.key(o): o for o in src.objs}
        np = sorted(k for k in allk if k not in documented_pages)
        nr = sorted(k for k in allk if k not in documented_rust)

        def why(o):
            t = o.tags
            if 'true' in t.get('skip_codegen', []) or 'true' in t.get('skip', []):
                return 'skip tag'
            if o.family == 'world' and not any(id(o) in {id(x) for d in (e.definers, e.containers) for x in d.values()} for e in src.corpus.envs.values()):
                return 'no generated version (outside 1.12 / 2.4.3 / 3.3.5)'
            if o.family == 'login' and id(o) not in src.env_of:
                return 'no generated login version'
            return 'unknown'
        chk.extra['objects'] = {'in_corpus': len(allk), 'with_page_section': len(allk) - len(np), 'with_rust_doc_comment': len(allk) - len(nr)}
        chk.extra['objects_without_page'] = [f'{k[0]} {k[1]} ({why(allk[k])})' for k in np][:40]
        chk.extra['objects_without_rust_doc_comment'] = {'count': len(nr), 'by_reason': {}, 'first': [f'{k[0]} {k[1]}' for k in nr][:15]}
        for k in nr:
            r = why(allk[k])
            chk.extra['objects_without_rust_doc_comment']['by_reason'][r] = chk.extra['objects_without_rust_doc_comment']['by_reason'].get(r, 0) + 1
    chk.extra['exhaustive'] = focus is None
    rng = random.Random(common.seed())
    for cat in sorted(POOL):
        chk.samples += rng.sample(POOL[cat], min(2 if cat in ('example', 'body-table') else 1, len(POOL[cat])))
    chk.assumptions += [
        'a block is matched to its source object through the file:line link printed next to it (and, for pages with several versions of an object, the section heading)',
        'the re-printed text carries no tags, comments or version information: records are compared without them (compression of a member is a tag)',
        'table offsets are not part of the property: they are compared with the reference (msg and struct tables count from the first body byte) '
        'and reported under offset_observations, never judged',
        'objects whose top-level if statements contain nested if statements get no body table by design of the generator: listed, not judged',
        'a compressed member is shown as its u32 length followed by the inflated payload; whole-message compression as length + stream',
        'bytes that only appear behind `//` in a ```c listing are not part of the listing',
    ]
    return chk.finish()
