"""C04: out-of-domain values (enum fields, fixed-size bodies, undefined opcodes) are rejected and reported."""
import json, random
from lib import common, judge
from monitors import vecs as V
from ref import model, codec, faults, sizes


def declared_tables(corpus):
    out = {}
    for key, env in corpus.envs.items():
        t = {}
        for name, o in env.definers.items():
            if o.kind == 'enum':
                t[name] = sorted({uv for (_, uv, _) in codec.definer_values(o)})
        out[key] = t
    return out


def signed(v, w):
    return v - (1 << (8 * w)) if v >> (8 * w - 1) else v


def run(tier, replay=None):
    chk = common.Check('C04', tier, 'fault_enumeration',
                       'fault enumeration from the definitions: every enum-typed leaf of every each-choice vector gets undeclared values at '
                       'full wire width (two in-range, declared+2^8/2^16/2^32 aliases, all-ones); every constant-sized message gets every '
                       'shorter body and bodies longer by 1,2,17; every opcode not defined for a direction/version is sent; '
                       'distinct = (flavour, direction, object, faulted field or fault kind) sites whose fault was executed')
    rng = random.Random(common.seed())
    rows, cases = [], {}
    if replay:
        rp = json.load(open(replay))
        cases = {rp['case']['id']: rp['case']}
        rows = [rp['row']]
        corpus = None
    else:
        corpus, sv, vectors, stats = V.build(tier, k=1 if tier == 'quick' else 16)
        tables = declared_tables(corpus)
        seen_sites = set()
        cap = 3 if tier == 'quick' else 40   # vectors per (object, field) site
        persite = {}
        for v in vectors:
            if v['class'] != 'canonical':
                continue
            envkey = f"{v['family']}:{v['version']}"
            for suffix, frame, inj, path, w in faults.enum_faults(v, tables[envkey]):
                site = (envkey, v['dir'], v['object'], codec_strip(path), suffix.split('=')[1])
                if persite.get(site, 0) >= cap:
                    continue
                persite[site] = persite.get(site, 0) + 1
                fid = f"{v['id']}!{suffix}"
                cases[fid] = {'id': fid, 'kind': 'enum', 'family': v['family'], 'version': v['version'], 'dir': v['dir'],
                              'object': v['object'], 'field': codec_strip(path), 'injected': inj, 'width': w, 'hex': frame.hex(),
                              'base': v['id']}
                rows.append(row(v, fid, frame))
        # fixed-size bodies
        done = set()
        nalias = {}
        for v in vectors:
            key = (v['family'], v['version'], v['dir'], v['object'])
            if v['class'] != 'canonical' or key in done or v['family'] == 'login':
                continue
            done.add(key)
            env = corpus.env(v['family'], v['version'])
            cdc = codec.Codec(env)
            c = env.containers[v['object']]
            try:
                n = sizes.constant_size(cdc, c)
            except (sizes.Approx, codec.RefError):
                n = None
            if n is None:
                continue
            body = faults.body_of(v)
            lens = list(range(0, n)) + [n + 1, n + 2, n + 17]
            if tier == 'quick' and len(lens) > 12:
                lens = sorted(set([0, 1, n - 1, n + 1, n + 2, n + 17] + rng.sample(range(0, n), 6)))
            # lengths that alias the right one when a size computation drops high bits (header size = body + 2 / + 4)
            top = 0xFFFF - (4 if v['dir'] == 'client' else 2)
            if v['version'] == 'wrath' and v['dir'] == 'server':
                top = 0x7FFFFF - 2
            alias = [n + a for a in (0x100, 0x8000, 0x10000) if n + a <= top]
            if tier == 'quick':
                # the first three constant-sized messages of every (expansion, direction) in the quick tier (the frames are 32 - 64 KiB each)
                k = (v['version'], v['dir'])
                nalias[k] = nalias.get(k, 0) + 1
                alias = alias if nalias[k] <= 3 else []
            lens += alias
            for L in lens:
                nb = (body + (bytes(rng.getrandbits(8) for _ in range(32)) if L <= len(body) + 32 else rng.randbytes(L - len(body))))[:L]
                fid = f"{v['id']}!size={L}"
                cases[fid] = {'id': fid, 'kind': 'size', 'family': v['family'], 'version': v['version'], 'dir': v['dir'],
                              'object': v['object'], 'field': f'len{L - n:+d}', 'const_size': n, 'len': L,
                              'hex': faults.reframe(v, nb).hex(), 'base': v['id']}
                rows.append(row(v, fid, faults.reframe(v, nb)))
        # undefined opcodes
        for key, env in corpus.envs.items():
            cdc = codec.Codec(env)
            for d in ('client', 'server'):
                defined = {c.raw['opcode'] for c in env.messages() if d in cdc.directions(c)}
                if env.family == 'login':
                    space = range(256)
                elif d == 'server':
                    space = range(0x10000) if tier == 'thorough' else sorted(set(list(range(0, 0x600)) + rng.sample(range(0x10000), 2000) + [0xFFFF, 0x7FFF, 0x8000]))
                else:
                    space = sorted(set(list(range(0, 0x600)) + [0xFFFF, 0x10000, 0x7FFFFFFF, 0x80000000, 0xFFFFFFFF] +
                                       [o + (1 << 16) for o in sorted(defined)[:50]] +
                                       [rng.getrandbits(32) for _ in range(2000 if tier == 'quick' else 50000)]))
                for op in space:
                    if op in defined:
                        continue
                    body = bytes(rng.getrandbits(8) for _ in range(rng.choice([0, 0, 1, 4, 9])))
                    pv = {'family': env.family, 'version': env.version, 'dir': d, 'opcode': op}
                    frame = faults.reframe(pv, body)
                    fid = f'{key}.{d[0].upper()}.opcode={op:#x}'
                    cases[fid] = {'id': fid, 'kind': 'opcode', 'family': env.family, 'version': env.version, 'dir': d,
                                  'object': '-', 'field': 'opcode', 'injected': op, 'hex': frame.hex()}
                    rows.append(row(pv, fid, frame))
    binary = common.cargo_build('codec_driver')
    ev = common.run_driver(binary, rows, 'c04')
    # the same size faults through the typed expect helper of the message, and undefined opcodes through a typed helper that expects some
    # defined message: the helpers parse headers with their own code
    trows, tmeta = [], {}
    some_name = {}
    if corpus is not None:
        for key, env in corpus.envs.items():
            if env.family != 'world':
                continue
            cdc = codec.Codec(env)
            for d in ('client', 'server'):
                names = sorted(c.name for c in env.messages() if d in cdc.directions(c) and sizes_const(cdc, c))
                if names:
                    some_name[(env.version, d)] = names[len(names) // 2]
    for fid, cs in cases.items():
        if cs['family'] != 'world':
            continue
        if cs['kind'] == 'size':
            trows.append([fid + '/typed', 'W.stream', cs['version'], cs['dir'], 'expect', 'plain', cs['object'], cs['hex']])
            tmeta[fid + '/typed'] = cs
        elif cs['kind'] == 'opcode' and (cs['injected'] % 7 == 0 or cs['injected'] > 0xFFFF or tier == 'thorough') and (cs['version'], cs['dir']) in some_name:
            trows.append([fid + '/typed', 'W.stream', cs['version'], cs['dir'], 'expect', 'plain', '!' + some_name[(cs['version'], cs['dir'])], cs['hex']])
            tmeta[fid + '/typed'] = cs
    tev = common.run_driver(binary, trows, 'c04t', timeout=60) if trows else {}
    for tid, cs in tmeta.items():
        e = tev.get(tid)
        if e is None or e.get('result') not in ('done',):
            chk.inconclusive.append(f'{tid}: typed reader gave no observation ({e and e.get("result")})')
            continue
        msgs = e.get('msgs') or []
        m0 = msgs[0] if msgs else {}
        bad = None
        if not msgs:
            bad = 'driver:no-message-record' if len(cs['hex']) // 2 > 0 else None
            if bad is None:
                continue
        elif m0.get('result') == 'ok':
            bad = 'accepted'
        elif m0.get('result') != 'err':
            bad = f"driver:{m0.get('result')}"
        elif cs['kind'] == 'opcode':
            if m0.get('err_kind') == 'Io':
                bad = None      # a body shorter than the header announces: the stream ends first
            elif m0.get('err_kind') != 'Opcode':
                bad = 'wrong-error-kind'
            elif m0.get('err_value') != cs['injected']:
                bad = 'wrong-error-value'
        chk.count(f"typed-{cs['kind']}:{bad or 'rejected'}")
        site = (cs['family'], cs['version'], cs['dir'], cs['object'], 'typed-' + cs['kind'], cs['field'] if cs['kind'] != 'opcode' else cs['injected'] >> 8)
        if bad is None:
            chk.ok(site)
        else:
            obs = {'check': 'typed-' + cs['kind'], 'family': cs['family'], 'version': cs['version'], 'dir': cs['dir'], 'object': cs['object'],
                   'field': cs['field'], 'outcome': bad, 'err_kind': m0.get('err_kind'), 'panic_at': m0.get('panic_at'), 'alias_class': None}
            chk.violation(obs, {'case': cs, 'event': e, 'row': [r for r in trows if r[0] == tid][0]})
    # the same login enum faults through the protocol-parameterised entry points (collective layer)
    if not replay or any(cs.get('kind') == 'enum' and cs['family'] == 'login' for cs in cases.values()):
        abin = common.cargo_build('async_driver')
        pe = common.run_driver(abin, [['pairs', 'P.pairs']], 'c04pp', workers=1).get('pairs') or {}
        pairs = {(n, v) for n, d, v in pe.get('pairs') or []}
        if not pairs:
            chk.inconclusive.append('async_driver reports no collective table')
        prow = []
        for fid, cs in cases.items():
            if cs['kind'] == 'enum' and cs['family'] == 'login' and (cs['object'], cs['version']) in pairs:
                prow.append([fid, 'P.rt', cs['object'], cs['version'], cs['hex'], 'w', 'w', 0])
        pev = common.run_driver(abin, prow, 'c04p', timeout=60) if prow else {}
        for r in prow:
            fid = r[0]
            cs = cases[fid]
            e = pev.get(fid)
            if e is None or e.get('result') != 'done':
                chk.inconclusive.append(f'{fid}: protocol API gave no observation ({e and e.get("result")})')
                continue
            for api in ('proto', 'enum', 'tokio', 'astd', 'tokio_enum', 'astd_enum'):
                o = e.get(api) or {}
                outs = o.get('outs') if api.startswith(('tokio', 'astd')) else [o]
                for o1 in outs or []:
                    bad = None
                    if o1.get('result') == 'ok':
                        bad = 'accepted'
                    elif o1.get('result') != 'err':
                        bad = str(o1.get('result'))
                    elif o1.get('err_kind') not in ('Enum', 'ParseEnum'):
                        bad = 'wrong-error-kind'
                    elif o1.get('err_value') not in (cs['injected'], signed(cs['injected'], cs['width'])):
                        bad = 'wrong-error-value'
                    chk.count(f"protocol-enum:{bad or 'rejected'}")
                    site = (cs['family'], cs['version'], cs['dir'], cs['object'], 'protocol-enum:' + api, cs['field'])
                    if bad is None:
                        chk.ok(site)
                    else:
                        obs = {'check': 'protocol-enum', 'api': api, 'family': cs['family'], 'version': cs['version'], 'dir': cs['dir'], 'object': cs['object'],
                               'field': cs['field'], 'outcome': bad, 'err_kind': o1.get('err_kind'), 'panic_at': o1.get('panic_at'), 'alias_class': alias_class(cs)}
                        chk.violation(obs, {'case': cs, 'event': e, 'row': r})
    missing = 0
    for fid, cs in cases.items():
        e = ev.get(fid)
        if e is None:
            missing += 1
            continue
        res = e.get('result')
        site = (cs['family'], cs['version'], cs['dir'], cs['object'], cs['kind'], cs['field'] if cs['kind'] != 'opcode' else cs['injected'] >> 8)
        bad = None
        if res == 'ok':
            bad = 'accepted'
        elif res in ('panic', 'abort', 'timeout'):
            bad = res
        elif res != 'err':
            bad = f'driver:{res}'
        elif cs['kind'] == 'enum':
            w = cs['width']
            if e.get('err_kind') != 'Enum':
                bad = 'wrong-error-kind'
            elif e.get('err_value') not in (cs['injected'], signed(cs['injected'], w)):
                bad = 'wrong-error-value'
        elif cs['kind'] == 'opcode':
            if e.get('err_kind') != 'Opcode':
                # an empty/short login or world stream may fail with Io before the opcode is known
                bad = 'wrong-error-kind'
            elif e.get('err_value') != cs['injected']:
                bad = 'wrong-error-value'
        chk.count(f"{cs['kind']}:{bad or 'rejected'}")
        if bad is None:
            chk.ok(site, sample={'case': {k: cs[k] for k in ('id', 'kind', 'field', 'hex') if k in cs}, 'event': {k: str(x)[:100] for k, x in e.items()}})
        else:
            upcast = cs['kind'] == 'enum' and cs['injected'] >= 256 and cs.get('width', 1) > 1
            obs = {'check': cs['kind'], 'family': cs['family'], 'version': cs['version'], 'dir': cs['dir'], 'object': cs['object'],
                   'field': cs['field'], 'outcome': bad, 'err_kind': e.get('err_kind'), 'panic_at': e.get('panic_at'),
                   'alias_class': alias_class(cs) if cs['kind'] == 'enum' else None}
            chk.violation(obs, {'case': cs, 'event': e, 'row': row(cs, fid, bytes.fromhex(cs['hex']))})
    if missing:
        chk.inconclusive.append(f'{missing} faults have no event')
    chk.assumptions += ['an undeclared enum value must be reported through EnumError.value (as unsigned or sign-extended wire value)',
                        'constant size = exact interval evaluation of ref/sizes.py (min == max)']
    return chk.finish()


def sizes_const(cdc, c):
    try:
        return sizes.constant_size(cdc, c) is not None
    except (sizes.Approx, codec.RefError):
        return False


def alias_class(cs):
    """how the injected value relates to the declared set: helps signatures stay specific"""
    inj, w = cs['injected'], cs['width']
    if inj >= (1 << 32):
        return 'alias-2^32'
    if inj >= (1 << 16) and inj != (1 << 8 * w) - 1:
        return 'alias-2^16'
    if inj >= (1 << 8) and inj != (1 << 8 * w) - 1:
        return 'alias-2^8'
    if inj == (1 << 8 * w) - 1:
        return 'all-ones'
    return 'in-range'


def codec_strip(path):
    from ref.canon import strip_idx
    return strip_idx(path)


def row(v, fid, frame):
    if v['family'] == 'world':
        return [fid, 'W.read', v['version'], v['dir'], frame.hex()]
    return [fid, 'L.read', v['version'], v['dir'], frame.hex()]
