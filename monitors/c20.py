"""C20: area-trigger containment and distance helpers match their geometric definition.

Workload: every trigger of the three expansions (discovered through the public verify_trigger for every id
0..65535 and cross-checked against the table text), plus seeded boxes (every yaw in 1 degree steps, random
yaws, aspect ratios 1:1..1:100) and circles built through the public AreaTrigger enum.  Probe points are
generated in the box frame and rotated out.  Oracle: the geometric definition in f64 on the exact f32 inputs,
with a rounding margin inside which nothing is judged.  The driver only reports what the code answered.
"""
import json, math, os, random, re, struct, time
from lib import common

TWO_PI = 2 * math.pi
EXPS = ('vanilla', 'tbc', 'wrath')
TOL = 2.0            # documented tolerance on every box axis


# ------------------------------------------------------------------------------------------------
# f32 helpers

def f32(x):
    return struct.unpack('<f', struct.pack('<f', x))[0]


def bits(x):
    return struct.unpack('<I', struct.pack('<f', x))[0]


def frombits(b):
    return struct.unpack('<f', struct.pack('<I', b))[0]


def ulp32(x):
    x = abs(x)
    if x < 2.0 ** -126:
        return 2.0 ** -149
    return 2.0 ** (math.frexp(x)[1] - 24)


def is_f32(x):
    try:
        return f32(x) == x
    except OverflowError:
        return False


# ------------------------------------------------------------------------------------------------
# oracle

class Shape:
    __slots__ = ('kind', 'map', 'x', 'y', 'z', 'o', 'p', 'src', 'cos', 'sin', 'hx', 'hy', 'hz', 'yaw_class')

    def __init__(s, kind, map_, x, y, z, o, p, src):
        s.kind, s.map, s.x, s.y, s.z, s.o, s.p, s.src = kind, map_, x, y, z, o, tuple(p), src
        if kind == 'S':
            yaw = p[3]
            s.cos, s.sin = math.cos(yaw), math.sin(yaw)
            s.hx, s.hy, s.hz = p[0] / 2 + TOL, p[1] / 2 + TOL, p[2] / 2 + TOL
            s.yaw_class = 'multiple_of_pi' if abs(s.sin) < 1e-6 else ('quarter_turn' if abs(s.cos) < 1e-6 else 'oblique')
        else:
            s.yaw_class = None

    def as_list(s):
        """the form the driver prints: kind, map, bit patterns"""
        n = 1 if s.kind == 'C' else 4
        return [s.kind, s.map, bits(s.x), bits(s.y), bits(s.z), bits(s.o)] + [bits(v) for v in s.p[:n]]

    @staticmethod
    def from_list(l, src):
        return Shape(l[0], l[1], frombits(l[2]), frombits(l[3]), frombits(l[4]), frombits(l[5]), [frombits(b) for b in l[6:]], src)

    def describe(s):
        d = {'kind': 'circle' if s.kind == 'C' else 'square', 'map': s.map, 'x': s.x, 'y': s.y, 'z': s.z, 'src': s.src}
        if s.kind == 'C':
            d['radius'] = s.p[0]
        else:
            d.update(length=s.p[0], width=s.p[1], height=s.p[2], yaw=s.p[3])
        return d


def box_geom(sh, px, py, pz, flipped=False):
    """-> 'in' | 'out' | 'amb' for the geometric part of the box test (map not considered).
    flipped=True evaluates the formula with the wrong sign in the second rotated coordinate (used only to
    attribute observations to the recorded defect, never as the expectation)."""
    dx, dy, dz = px - sh.x, py - sh.y, pz - sh.z
    lx = dx * sh.cos + dy * sh.sin
    ly = (dy * sh.cos + dx * sh.sin) if flipped else (dy * sh.cos - dx * sh.sin)
    big = max(abs(px), abs(py), abs(pz), abs(sh.x), abs(sh.y), abs(sh.z), sh.hx, sh.hy, sh.hz)
    m = max(1e-3, 64 * ulp32(big)) + 4 * ulp32(max(abs(sh.p[3]), TWO_PI)) * math.hypot(dx, dy)
    e = max(abs(lx) - sh.hx, abs(ly) - sh.hy, abs(dz) - sh.hz)
    if e > m:
        return 'out'
    if e < -m:
        return 'in'
    return 'amb'


def dist_exact(dx, dy, dz):
    """True when every intermediate of sqrt(dx^2+dy^2+dz^2) is an f32, so that any f32 evaluation order gives the
    mathematically exact distance (then comparisons need no margin)"""
    if not (is_f32(dx) and is_f32(dy) and is_f32(dz)):
        return False
    sq = [dx * dx, dy * dy, dz * dz]      # exact in f64 (24 bit x 24 bit)
    if not all(is_f32(q) for q in sq):
        return False
    for a, b, c in ((0, 1, 2), (0, 2, 1), (1, 2, 0)):
        if not (is_f32(sq[a] + sq[b]) and is_f32(sq[a] + sq[b] + sq[c])):
            return False
    t = sq[0] + sq[1] + sq[2]
    r = math.sqrt(t)
    return r * r == t and is_f32(r)


def circle_geom(sh, px, py, pz):
    dx, dy, dz = sh.x - px, sh.y - py, sh.z - pz
    r = sh.p[0]
    dist = math.sqrt(dx * dx + dy * dy + dz * dz)
    big = max(abs(px), abs(py), abs(pz), abs(sh.x), abs(sh.y), abs(sh.z), r)
    m = max(1e-3, 64 * ulp32(big))
    if dist - r > m:
        return 'out'
    if dist - r < -m:
        return 'in'
    if dist_exact(dx, dy, dz):
        return 'in' if dist < r else 'out'      # "closer to the centre than the radius": strict
    return 'amb'


def geom(sh, px, py, pz, flipped=False):
    return box_geom(sh, px, py, pz, flipped) if sh.kind == 'S' else circle_geom(sh, px, py, pz)


# ------------------------------------------------------------------------------------------------
# probe generation

def box_probes(sh, rnd, other_maps, scale):
    """-> [(class, map, x, y, z)] in world coordinates (f64, rounded to f32 later)"""
    c, s, hx, hy, hz = sh.cos, sh.sin, sh.hx, sh.hy, sh.hz
    R = math.hypot(hx, hy)
    big = max(abs(sh.x), abs(sh.y), abs(sh.z)) + R + hz
    m0 = max(1e-3, 64 * ulp32(big)) + 4 * ulp32(max(abs(sh.p[3]), TWO_PI)) * R
    out = []

    def add(cls, lx, ly, lz, map_=None):
        out.append((cls, sh.map if map_ is None else map_, sh.x + lx * c - ly * s, sh.y + lx * s + ly * c, sh.z + lz))

    add('centre', 0, 0, 0)
    h = (hx, hy, hz)
    deltas = (4 * m0, 16 * m0, 1.0)
    for ax in range(3):
        for sg in (1, -1):
            for k, d in enumerate(deltas):
                for io, off in (('in', -d), ('out', d)):
                    l = [0.0, 0.0, 0.0]
                    l[ax] = sg * (h[ax] + off)
                    add(f'face_{"xyz"[ax]}_{io}_d{k}', *l)
                    for _ in range(scale):
                        l2 = [rnd.uniform(-1, 1) * max(h[i] - 1.0, 0.0) for i in range(3)]
                        l2[ax] = l[ax]
                        add(f'face_{"xyz"[ax]}_{io}_d{k}_spread', *l2)
    for sx in (1, -1):
        for sy in (1, -1):
            for sz in (1, -1):
                for k, d in enumerate(deltas):
                    add(f'corner_in_d{k}', sx * (hx - d), sy * (hy - d), sz * (hz - d))
                    add(f'corner_out_all_d{k}', sx * (hx + d), sy * (hy + d), sz * (hz + d))
                    ax = rnd.randrange(3)
                    l = [sx * (hx - d), sy * (hy - d), sz * (hz - d)]
                    l[ax] = (sx, sy, sz)[ax] * (h[ax] + d)
                    add(f'corner_out_one_d{k}', *l)
    # the box's own axes (centre line), the place where a wrong rotation shows first
    for t in (-0.95, -0.75, -0.5, -0.25, 0.25, 0.5, 0.75, 0.95):
        add('axis_x_inside', t * hx, 0, 0)
        add('axis_y_inside', 0, t * hy, 0)
    for t in (1.05, 1.5, -1.05, -1.5):
        add('axis_x_outside', t * hx + math.copysign(1.0, t), 0, 0)
        add('axis_y_outside', 0, t * hy + math.copysign(1.0, t), 0)
    # inside the axis-aligned bounding box of the rotated box but outside the box itself
    ax_, ay_ = abs(hx * c) + abs(hy * s), abs(hx * s) + abs(hy * c)
    n = 0
    for _ in range(40 * scale):
        wx, wy = rnd.uniform(-ax_, ax_), rnd.uniform(-ay_, ay_)
        lx, ly = wx * c + wy * s, -wx * s + wy * c
        if abs(lx) > hx + 0.1 or abs(ly) > hy + 0.1:
            out.append(('aabb_gap', sh.map, sh.x + wx, sh.y + wy, sh.z + rnd.uniform(-1, 1) * max(hz - 1, 0)))
            n += 1
            if n >= 12 * scale:
                break
    for _ in range(24 * scale):
        add('random_near', rnd.uniform(-1.6, 1.6) * hx, rnd.uniform(-1.6, 1.6) * hy, rnd.uniform(-1.6, 1.6) * hz)
    for _ in range(4 * scale):
        a = rnd.uniform(0, TWO_PI)
        r = rnd.uniform(1.2, 30) * R
        out.append(('random_far', sh.map, sh.x + r * math.cos(a), sh.y + r * math.sin(a), sh.z + rnd.uniform(-2, 2) * hz))
    for mp in other_maps:
        add('wrong_map', 0, 0, 0, mp)
        add('wrong_map', rnd.uniform(-0.8, 0.8) * hx, rnd.uniform(-0.8, 0.8) * hy, rnd.uniform(-0.8, 0.8) * hz, mp)
    return out


def circle_probes(sh, rnd, other_maps, scale):
    r = sh.p[0]
    big = max(abs(sh.x), abs(sh.y), abs(sh.z)) + r
    m0 = max(1e-3, 64 * ulp32(big))
    out = [('centre', sh.map, sh.x, sh.y, sh.z)]

    def add(cls, ux, uy, uz, t, map_=None):
        out.append((cls, sh.map if map_ is None else map_, sh.x + ux * t, sh.y + uy * t, sh.z + uz * t))

    def unit():
        while True:
            v = [rnd.gauss(0, 1) for _ in range(3)]
            n = math.sqrt(sum(q * q for q in v))
            if n > 1e-6:
                return [q / n for q in v]
    for _ in range(14 * scale):
        u = unit()
        for k, d in enumerate((4 * m0, 16 * m0, 1.0)):
            if r - d > 0:
                add(f'radial_in_d{k}', *u, r - d)
            add(f'radial_out_d{k}', *u, r + d)
    for u in ((1, 0, 0), (-1, 0, 0), (0, 1, 0), (0, -1, 0), (0, 0, 1), (0, 0, -1), (0.6, 0.8, 0), (0, -0.6, 0.8), (-0.8, 0, 0.6)):
        add('boundary', *u, r)          # judged only where the arithmetic is exact (dist == radius -> outside)
    for _ in range(20 * scale):
        add('random_near', *unit(), rnd.uniform(0, 2.0) * r)
    for _ in range(3 * scale):
        add('random_far', *unit(), rnd.uniform(2, 50) * r + 5)
    for mp in other_maps:
        add('wrong_map', 0, 0, 0, 0, mp)
        add('wrong_map', *unit(), rnd.uniform(0, 0.9) * r, mp)
    return out


class Batch:
    __slots__ = ('bid', 'api', 'cols', 'shape', 'cls', 'pts', 'key')

    def __init__(s, bid, api, cols, shape, probes, key):
        s.bid, s.api, s.cols, s.shape, s.key = bid, api, cols, shape, key
        s.cls = [p[0] for p in probes]
        flat = []
        for p in probes:
            flat += p[2:5]
        rounded = struct.unpack(f'<{len(flat)}f', struct.pack(f'<{len(flat)}f', *flat))
        s.pts = [(probes[i][1], rounded[3 * i], rounded[3 * i + 1], rounded[3 * i + 2]) for i in range(len(probes))]

    def pts_hex(s, only=None):
        pts = s.pts if only is None else [s.pts[only]]
        return b''.join(struct.pack('<Ifff', *p) for p in pts).hex()

    def row(s, only=None):
        return [s.bid, s.api] + list(s.cols) + [s.pts_hex(only)]


def table_batch(bid, exp, tid, shape, rnd, maps, scale):
    others = rnd.sample([m for m in maps if m != shape.map], 2)
    probes = (box_probes if shape.kind == 'S' else circle_probes)(shape, rnd, others, scale)
    return Batch(bid, 'trig.probe', [exp, tid], shape, probes, (exp, tid))


def custom_batch(bid, exp, shape, rnd, maps, scale, key):
    others = rnd.sample([m for m in maps if m != shape.map], 2)
    probes = (box_probes if shape.kind == 'S' else circle_probes)(shape, rnd, others, scale)
    l = shape.as_list()
    cols = [exp, shape.kind, shape.map] + l[2:6] + (l[6:] + [0, 0, 0])[:4]
    return Batch(bid, 'shape.probe', cols, shape, probes, key)


# ------------------------------------------------------------------------------------------------
# judging

def judge_batch(chk, b, e, stats, replay_index=None):
    sh = b.shape
    n = len(b.pts)
    if e is None:
        chk.inconclusive.append(f'no event for batch {b.bid}')
        return
    if e.get('result') != 'ok' or e.get('n') != n:
        if e.get('result') in ('panic', 'abort', 'timeout'):
            obs = {'check': 'crash', 'api': b.api, 'result': e.get('result'), 'panic_at': e.get('panic_at')}
            chk.count(chk.violation(obs, {'batch': {'api': b.api, 'cols': b.cols, 'pts': b.pts, 'cls': b.cls}, 'shape': sh.describe(), 'event': e}))
            return
        raise common.Inconclusive(f'batch {b.bid}: unusable event {str(e)[:300]}')
    table = b.api == 'trig.probe'
    if e.get('shape') != sh.as_list() or e.get('shapes_differ'):
        obs = {'check': 'shape_identity', 'api': b.api}
        chk.count(chk.violation(obs, {'expected_shape': sh.as_list(), 'observed_shape': e.get('shape'), 'shapes_differ': e.get('shapes_differ'),
                                      'shape': sh.describe(), 'why': 'the shape returned by verify_trigger / built through the enum is not the one probed'}))
        return
    ver = e.get('verify') if table else None
    con, dire = e['contains'], e['direct']
    kind = 'square' if sh.kind == 'S' else 'circle'
    fn_name = 'is_within_square' if sh.kind == 'S' else 'is_within_distance'
    for i in range(n):
        mp, px, py, pz = b.pts[i]
        cls = b.cls[i]
        base = CLS_BASE.get(cls)
        if base is None:
            base = CLS_BASE[cls] = re.sub(r'_d\d', '', cls)
        if con[i] == '9':
            raise common.Inconclusive(f'batch {b.bid}: the driver could not build map {mp}')
        g = geom(sh, px, py, pz)
        same_map = mp == sh.map
        stats[g] = stats.get(g, 0) + 1
        judged = []           # (check, expected bool, observed bool)
        if table:
            if ver[i] == '0':
                obs = {'check': 'verify_trigger_found', 'expected': 'found', 'observed': 'NotFound'}
                chk.count(chk.violation(obs, _replay(b, i, e, 'the id was found by the scan; verify_trigger must not answer NotFound', g)))
                continue
            if (ver[i] == '2') != (con[i] == '1'):
                obs = {'check': 'verify_vs_contains', 'kind': kind, 'verify': ver[i], 'contains': con[i]}
                chk.count(chk.violation(obs, _replay(b, i, e, 'verify_trigger Success <=> contains', g)))
        if g != 'amb':
            want_geo = g == 'in'
            want = want_geo and same_map
            judged.append(('contains', want, con[i] == '1'))
            judged.append((fn_name, want_geo, dire[i] == '1'))
            if table:
                judged.append(('verify_trigger', want, ver[i] == '2'))
        elif not same_map:
            judged.append(('contains', False, con[i] == '1'))
            if table:
                judged.append(('verify_trigger', False, ver[i] == '2'))
        for check, want, got in judged:
            if want == got:
                chk.count('ok_' + check)
                smp = None
                if len(chk.samples) < 5 and check == 'contains' and base[:4] in ('corn', 'axis', 'aabb', 'face', 'radi') and (len(chk.samples) % 2 == 0) == got:
                    smp = {'shape': sh.describe(), 'probe_class': cls, 'point': [mp, px, py, pz], 'check': check, 'oracle': g, 'observed': got,
                           'event': {'id': e.get('id'), 'api': e.get('api'), 'index': i, 'verify': (e.get('verify') or '')[i:i + 1], 'contains': con[i], 'direct': dire[i]}}
                chk.ok((b.key, base) if replay_index is None else ('replay', check), sample=smp)
                continue
            flip = 'no'
            if sh.kind == 'S' and (same_map or check == fn_name) and g != 'amb':
                gf = box_geom(sh, px, py, pz, flipped=True)
                if gf == 'amb':
                    flip = 'ambiguous_within_margin'
                elif gf != g:
                    flip = 'explains'
            obs = {'check': check, 'kind': kind, 'expected': 'inside' if want else 'outside', 'observed': 'inside' if got else 'outside',
                   'wrong_map': (not same_map) and check != fn_name, 'yaw_class': sh.yaw_class, 'sign_flipped_rotation': flip,
                   'probe_class': base}
            stats['mismatch_flip_' + flip] = stats.get('mismatch_flip_' + flip, 0) + 1
            chk.count(chk.violation(obs, _replay(b, i, e, f'{check} must answer {"inside" if want else "outside"}', g)))


CLS_BASE = {}


def _replay(b, i, e, expected, g):
    sh = b.shape
    mp, px, py, pz = b.pts[i]
    d = {'batch': {'api': b.api, 'cols': b.cols, 'point': [mp, bits(px), bits(py), bits(pz)], 'cls': b.cls[i], 'key': list(b.key) if isinstance(b.key, tuple) else b.key},
         'shape': sh.describe(), 'shape_bits': sh.as_list(), 'point': {'map': mp, 'x': px, 'y': py, 'z': pz}, 'expected': expected, 'oracle': g,
         'observed': {'verify': (e.get('verify') or '')[i:i + 1], 'contains': e['contains'][i], 'direct': e['direct'][i]},
         'driver_cmd': 'python3 check.py C20 --replay <this file>'}
    if sh.kind == 'S':
        dx, dy = px - sh.x, py - sh.y
        d['box_frame'] = {'x': dx * sh.cos + dy * sh.sin, 'y': dy * sh.cos - dx * sh.sin, 'z': pz - sh.z, 'half_extents_plus_2': [sh.hx, sh.hy, sh.hz]}
    else:
        d['distance'] = math.sqrt((px - sh.x) ** 2 + (py - sh.y) ** 2 + (pz - sh.z) ** 2)
    return d


# ------------------------------------------------------------------------------------------------
# the table text (ids and shapes), read independently of the code under test

ENTRY = re.compile(r'^\((\d+), \(\s*\n\s*AreaTrigger::(Circle|Square) \{ position: Position::new\(Map::(\w+), ([-\d.eE]+), ([-\d.eE]+), ([-\d.eE]+), ([-\d.eE]+)\), '
                   r'(?:radius: ([-\d.eE]+)|length: ([-\d.eE]+), width: ([-\d.eE]+), height: ([-\d.eE]+), yaw: ([-\d.eE]+)) \}', re.M)


def table_text(exp):
    p = os.path.join(common.REPO, 'wow_world_base', 'src', 'extended', exp, 'trigger', 'triggers.rs')
    try:
        txt = open(p).read()
    except OSError as e:
        raise common.Inconclusive(f'cannot read {p}: {e}')
    ents = {}
    dup = []
    for m in ENTRY.finditer(txt):
        tid = int(m.group(1))
        if tid in ents:
            dup.append(tid)
            continue
        pos = [f32(float(m.group(k))) for k in (4, 5, 6, 7)]
        p_ = [f32(float(m.group(8)))] if m.group(2) == 'Circle' else [f32(float(m.group(k))) for k in (9, 10, 11, 12)]
        ents[tid] = ('C' if m.group(2) == 'Circle' else 'S', m.group(3), pos, p_)
    n_ids = len(re.findall(r'^\(\d+, \(', txt, re.M))
    if not ents or n_ids != len(ents) + len(dup):
        raise common.Inconclusive(f'{p}: table text not understood ({len(ents)} shapes for {n_ids} entries)')
    return ents, dup


def map_names(exp):
    """Rust variant name -> value, from the wowm model (names CamelCased); {} if the model is unavailable"""
    try:
        from ref import model, codec
        env = model.Corpus(model.default_root()).envs['world:' + exp]
        return {''.join(w.capitalize() for w in n.split('_')): u for n, u, _ in codec.definer_values(env.definers['Map'])}
    except Exception as ex:      # the model is a convenience here, not the oracle
        common.log(f'[c20] map names unavailable: {ex}')
        return {}


# ------------------------------------------------------------------------------------------------
# distance helpers

def dist_cases(rnd, n):
    cs = []

    def add(cls, a, b, d):
        cs.append((cls, a, b, d))
    for _ in range(n):
        a = [rnd.uniform(-2e4, 2e4) for _ in range(3)]
        ln = 10 ** rnd.uniform(-3, 4)
        v = [rnd.gauss(0, 1) for _ in range(3)]
        nv = math.sqrt(sum(q * q for q in v)) or 1.0
        b = [a[i] + v[i] / nv * ln for i in range(3)]
        add('random_world', a, b, ln * rnd.choice((0.5, 0.999, 1.001, 2.0)))
    for _ in range(n // 4):
        a = [rnd.uniform(-1e5, 1e5) for _ in range(3)]
        b = [rnd.uniform(-1e5, 1e5) for _ in range(3)]
        d = math.dist(a, b)
        add('large', a, b, d * rnd.choice((0.9, 1.1)))
        a = [rnd.uniform(-30, 30) for _ in range(3)]
        b = [rnd.uniform(-30, 30) for _ in range(3)]
        add('small', a, b, rnd.choice((5.0, 11.11, 25.0, 30.0, 300.0)))
        a = [rnd.uniform(-2e4, 2e4) for _ in range(3)]
        add('identical', a, list(a), rnd.choice((0.0, 1.0)))
        b = list(a)
        ax = rnd.randrange(3)
        b[ax] += rnd.choice((-1, 1)) * 10 ** rnd.uniform(-2, 3)
        add('axis', a, b, 10 ** rnd.uniform(-2, 3))
        # integer Pythagorean quadruples: exact in f32, so the comparison at d == distance is judged strictly
        q = rnd.choice(((3, 4, 0, 5), (1, 2, 2, 3), (2, 3, 6, 7), (1, 4, 8, 9), (4, 4, 7, 9), (2, 6, 9, 11), (6, 6, 7, 11), (3, 4, 12, 13), (0, 0, 1, 1)))
        k = rnd.choice((1, 2, 3, 5, 8, 16))
        a = [float(rnd.randrange(-2000, 2000)) for _ in range(3)]
        perm = rnd.sample(range(3), 3)
        b = [a[i] + rnd.choice((-1, 1)) * k * q[perm[i]] for i in range(3)]
        for d in (k * q[3], k * q[3] + 1, k * q[3] - 0.5):
            add('pythagorean_exact', a, b, float(d))
    return cs


def judge_dist(chk, cases, e, stats, replay=False):
    n = len(cases)
    if e is None or e.get('result') != 'ok' or e.get('n') != n:
        if e and e.get('result') in ('panic', 'abort', 'timeout'):
            chk.count(chk.violation({'check': 'crash', 'api': 'geo.dist', 'result': e.get('result'), 'panic_at': e.get('panic_at')}, {'event': e}))
            return
        raise common.Inconclusive(f'geo.dist: unusable event {str(e)[:300]}')
    db = struct.unpack(f'<{n}f', bytes.fromhex(e['between']))
    d2 = struct.unpack(f'<{n}f', bytes.fromhex(e['d2']))
    for i, (cls, a, b, d) in enumerate(cases):
        dx, dy, dz = a[0] - b[0], a[1] - b[1], a[2] - b[2]
        e3 = math.sqrt(dx * dx + dy * dy + dz * dz)
        e2 = math.sqrt(dx * dx + dy * dy)
        for check, want, got in (('distance_between', e3, db[i]), ('distance_2d', e2, d2[i])):
            if got == got and abs(got - want) <= 1e-6 * want + 1e-12:
                chk.count('ok_' + check)
                chk.ok((check, cls, i if not replay else 0), sample={'check': check, 'from': a, 'to': b, 'f64': want, 'observed': got} if len(chk.samples) < 5 and i % 97 == 5 else None)
            else:
                obs = {'check': check, 'class': cls, 'error': 'nan' if got != got else ('too_small' if got < want else 'too_large')}
                chk.count(chk.violation(obs, {'dist_case': [cls, [bits(v) for v in a], [bits(v) for v in b], bits(d)], 'from': a, 'to': b,
                                              'expected': want, 'observed': got, 'tolerance': 'relative 1e-6', 'driver_cmd': 'python3 check.py C20 --replay <this file>'}))
        exact = dist_exact(dx, dy, dz)
        if exact or abs(e3 - d) > 4e-6 * max(e3, d) + 1e-12:
            want = e3 < d
            got = e['within'][i] == '1'
            if want == got:
                chk.count('ok_is_within_distance')
                chk.ok(('is_within_distance', cls, 'boundary' if e3 == d else want, i if not replay else 0))
            else:
                obs = {'check': 'is_within_distance_helper', 'class': cls, 'expected': want, 'observed': got, 'at_boundary': e3 == d}
                chk.count(chk.violation(obs, {'dist_case': [cls, [bits(v) for v in a], [bits(v) for v in b], bits(d)], 'from': a, 'to': b, 'distance_f64': e3,
                                              'limit': d, 'expected': want, 'observed': got, 'driver_cmd': 'python3 check.py C20 --replay <this file>'}))
        else:
            stats['dist_amb'] = stats.get('dist_amb', 0) + 1


def round_cases(cases):
    return [(c, [f32(v) for v in a], [f32(v) for v in b], f32(d)) for c, a, b, d in cases]


def dist_row(rid, cases):
    return [rid, 'geo.dist', b''.join(struct.pack('<7f', *a, *b, d) for _, a, b, d in cases).hex()]


# ------------------------------------------------------------------------------------------------

ASPECTS = ((1, 1), (1, 2), (2, 1), (1, 5), (5, 1), (1, 10), (10, 1), (1, 30), (30, 1), (1, 100), (100, 1), (3, 2))


def custom_shapes(rnd, maps_by_exp, tier):
    """-> [(exp, Shape, key)]"""
    out = []

    def centre():
        k = rnd.random()
        if k < 0.15:
            return [0.0, 0.0, 0.0]
        if k < 0.3:
            return [rnd.uniform(-100, 100) for _ in range(3)]
        return [rnd.uniform(-17000, 17000), rnd.uniform(-17000, 17000), rnd.uniform(-500, 3000)]

    def box(yaw, aspect, tag):
        exp = rnd.choice(EXPS)
        base = 10 ** rnd.uniform(0, 1.3)
        l, w = base * aspect[0], base * aspect[1]
        c = centre()
        sh = Shape('S', rnd.choice(maps_by_exp[exp]), f32(c[0]), f32(c[1]), f32(c[2]), 0.0, [f32(l), f32(w), f32(10 ** rnd.uniform(0, 2)), f32(yaw)], tag)
        out.append((exp, sh, tag))
    reps = 1 if tier == 'quick' else 8
    for rep in range(reps):
        for deg in range(360):
            box(math.radians(deg), ASPECTS[(deg + rep) % len(ASPECTS)], f'custom:yaw{deg}deg#{rep}')
    for k, yaw in enumerate((0.0, math.pi / 2, math.pi, 3 * math.pi / 2, TWO_PI, -math.pi / 2, 1e-3, math.pi / 4)):
        for a in ((1, 1), (1, 10), (10, 1)):
            box(yaw, a, f'custom:special{k}:{a[0]}x{a[1]}')
    for i in range(600 if tier == 'quick' else 25000):
        r = rnd.random()
        yaw = rnd.uniform(0, TWO_PI) if r < 0.85 else (rnd.uniform(-TWO_PI, 0) if r < 0.93 else rnd.uniform(TWO_PI, 2 * TWO_PI))
        a = rnd.choice(ASPECTS) if rnd.random() < 0.5 else (1, rnd.uniform(1, 100)) if rnd.random() < 0.5 else (rnd.uniform(1, 100), 1)
        box(yaw, a, f'custom:random{i}')
    for i in range(300 if tier == 'quick' else 6000):
        exp = rnd.choice(EXPS)
        if i % 3 == 0:       # integer circles: exact arithmetic, so the boundary itself is judged
            c = [float(rnd.randrange(-4000, 4000)) for _ in range(3)]
            r = float(rnd.choice((1, 2, 5, 8, 10, 25, 64, 100)))
        else:
            c = centre()
            r = 10 ** rnd.uniform(-0.3, 3)
        out.append((exp, Shape('C', rnd.choice(maps_by_exp[exp]), f32(c[0]), f32(c[1]), f32(c[2]), 0.0, [f32(r)], f'custom:circle{i}'), f'custom:circle{i}'))
    return out


def run(tier, replay=None):
    chk = common.Check('C20', tier, 'exploration',
                       'every trigger of the vanilla/tbc/wrath tables (verify_trigger scan of ids 0..65535, cross-checked with the table text) and seeded '
                       'boxes/circles built through the public enum, probed at points generated in the box frame (faces, corners, own axes, bounding-box gaps, '
                       'wrong map, random) against the f64 definition with a rounding margin; distance helpers against f64 Euclid; '
                       'distinct = (shape, probe class, function) triples judged + distance classes')
    binary = common.cargo_build('misc_driver')
    chk.assumptions += ['box frame = translate to the centre, rotate by -yaw about z; inside <=> |x| <= length/2+2, |y| <= width/2+2, |z| <= height/2+2 (faces themselves not judged)',
                        'probes closer to a face than max(1e-3, 64 ulp_f32(largest coordinate)) + 4 ulp_f32(max(|yaw|, 2pi)) * planar distance are not judged (f32 rounding of the code under test)',
                        'circle: inside <=> same map and distance < radius; the boundary itself is judged only where every f32 intermediate is exact',
                        'distance helpers: relative tolerance 1e-6 (+1e-12 absolute), coordinates 0 or 1e-3 <= |c| <= 1e5',
                        'the trigger tables are the entries of wow_world_base/src/extended/*/trigger/triggers.rs (ids and literals read as text)']
    stats = {}
    if replay:
        rp = json.load(open(replay))
        # a replay judges one case; the two markers only keep Check.finish from calling a single re-judged case "too little"
        chk.distinct.update({('replay', 'case'), ('replay', 'rejudged')})
        if 'dist_case' in rp:
            cls, a, b, d = rp['dist_case']
            cases = [(cls, [frombits(v) for v in a], [frombits(v) for v in b], frombits(d))]
            ev = common.run_driver(binary, [dist_row('r0', cases)], 'c20r', workers=1)
            judge_dist(chk, cases, ev.get('r0'), stats, replay=True)
            return chk.finish()
        if 'batch' not in rp or 'point' not in rp['batch']:
            raise common.Inconclusive('replay file holds no single probe (table-level observations are re-judged by a normal run)')
        bt = rp['batch']
        sh = Shape.from_list(rp['shape_bits'], rp['shape'].get('src'))
        mp, xb, yb, zb = bt['point']
        b = Batch('r0', bt['api'], bt['cols'], sh, [(bt['cls'], mp, frombits(xb), frombits(yb), frombits(zb))], 'replay')
        ev = common.run_driver(binary, [b.row()], 'c20r', workers=1)
        judge_batch(chk, b, ev.get('r0'), stats, replay_index=0)
        return chk.finish()

    rnd = random.Random(common.seed() * 7919 + 20)
    # ---- discovery through the public API
    extra = '65536,65537,100000,16777216,2147483647,2147483648,4294967295'
    rows = [[f'maps:{x}', 'maps', x] for x in EXPS] + [[f'scan:{x}', 'trig.scan', x, 0, 65536, extra] for x in EXPS]
    ev = common.run_driver(binary, rows, 'c20scan', timeout=120)
    maps_by_exp, tables = {}, {}
    for x in EXPS:
        em, es = ev.get(f'maps:{x}'), ev.get(f'scan:{x}')
        if not em or em.get('result') != 'ok' or not es or es.get('result') != 'ok':
            if es and es.get('result') in ('panic', 'abort', 'timeout'):
                chk.count(chk.violation({'check': 'crash', 'api': 'trig.scan', 'result': es.get('result'), 'panic_at': es.get('panic_at')}, {'event': es}))
                return chk.finish()
            raise common.Inconclusive(f'discovery failed for {x}: {str(em)[:200]} {str(es)[:200]}')
        maps_by_exp[x] = em['maps']
        tables[x] = {t[0]: Shape.from_list(t[2], f'{x}#{t[0]}') for t in es['found']}
        n_scanned = 65536 + 7
        if es['notfound'] + len(es['found']) != n_scanned or len(tables[x]) != len(es['found']):
            raise common.Inconclusive(f'scan of {x} is not conserved: {es["notfound"]} + {len(es["found"])} != {n_scanned}')
        # the table text: same ids, same shapes
        ents, dup = table_text(x)
        names = map_names(x)
        for tid in dup:
            chk.count(chk.violation({'check': 'table_duplicate_id', 'expansion': x}, {'id': tid, 'why': 'a second entry with this id can never be found'}))
        for tid in sorted(set(ents) | set(tables[x])):
            if tid not in tables[x]:
                chk.count(chk.violation({'check': 'verify_trigger_found', 'expansion': x, 'expected': 'found', 'observed': 'NotFound'},
                                        {'id': tid, 'table_entry': ents[tid], 'why': 'id is in the table but verify_trigger reports NotFound'}))
                continue
            if tid not in ents:
                chk.count(chk.violation({'check': 'verify_trigger_found', 'expansion': x, 'expected': 'NotFound', 'observed': 'found'},
                                        {'id': tid, 'shape': tables[x][tid].describe(), 'why': 'id is not in the table text but verify_trigger finds it'}))
                continue
            kind, mname, pos, p_ = ents[tid]
            sh = tables[x][tid]
            same = kind == sh.kind and pos == [sh.x, sh.y, sh.z, sh.o] and tuple(p_) == sh.p and (mname not in names or names[mname] == sh.map)
            if same:
                chk.count('table_entries_identical')
                chk.ok((x, tid, 'table'))
            else:
                chk.count(chk.violation({'check': 'table_shape', 'expansion': x}, {'id': tid, 'table_entry': ents[tid], 'map_value': names.get(mname),
                                                                                   'observed_shape': sh.describe()}))
        # ids that are not in the table must be NotFound: the scan visited all of them
        chk.count('ids_scanned', n_scanned)
        chk.evaluations += es['notfound']
    chk.extra['table_shapes'] = {x: {'circles': sum(1 for s in tables[x].values() if s.kind == 'C'), 'squares': sum(1 for s in tables[x].values() if s.kind == 'S'),
                                     'oblique_squares': sum(1 for s in tables[x].values() if s.yaw_class == 'oblique'), 'maps': len(maps_by_exp[x])} for x in EXPS}

    # ---- probes
    scale_t = 2 if tier == 'quick' else 12
    scale_c = 1 if tier == 'quick' else 2
    work = []     # (kind, exp, tid|None, shape, key)
    for x in EXPS:
        for tid, sh in sorted(tables[x].items()):
            work.append(('t', x, tid, sh, None))
    for exp, sh, key in custom_shapes(rnd, maps_by_exp, tier):
        work.append(('c', exp, None, sh, key))
    n_probes = 0
    CH = 1500
    t_gen = t_drv = t_judge = 0.0
    for lo in range(0, len(work), CH):
        t0 = time.time()
        batches = []
        for j, (k, exp, tid, sh, key) in enumerate(work[lo:lo + CH]):
            srnd = random.Random(f'{common.seed()}/{sh.src}')
            if k == 't':
                batches.append(table_batch(f'b{lo + j}', exp, tid, sh, srnd, maps_by_exp[exp], scale_t))
            else:
                batches.append(custom_batch(f'b{lo + j}', exp, sh, srnd, maps_by_exp[exp], scale_c, key))
        t1 = time.time()
        ev = common.run_driver(binary, (b.row() for b in batches), 'c20', timeout=60)
        t2 = time.time()
        for b in batches:
            judge_batch(chk, b, ev.get(b.bid), stats)
            n_probes += len(b.pts)
        t_gen += t1 - t0
        t_drv += t2 - t1
        t_judge += time.time() - t2
    common.log(f'[c20] {len(work)} shapes, {n_probes} probes; generate {t_gen:.1f}s, driver {t_drv:.1f}s, judge {t_judge:.1f}s')

    # ---- distance helpers
    cases = round_cases(dist_cases(rnd, 4000 if tier == 'quick' else 100000))
    rows = [dist_row(f'd{i}', cases[i:i + 2000]) for i in range(0, len(cases), 2000)]
    ev = common.run_driver(binary, rows, 'c20dist')
    for i in range(0, len(cases), 2000):
        judge_dist(chk, cases[i:i + 2000], ev.get(f'd{i}'), stats)

    chk.extra['shapes_probed'] = len(work)
    chk.extra['probes'] = n_probes
    chk.extra['probe_verdicts_by_oracle'] = {'robustly_inside': stats.get('in', 0), 'robustly_outside': stats.get('out', 0),
                                             'within_rounding_margin_not_judged': stats.get('amb', 0)}
    chk.extra['mismatches_by_sign_flipped_oracle'] = {k[14:]: v for k, v in stats.items() if k.startswith('mismatch_flip_')}
    chk.extra['distance_cases'] = len(cases)
    chk.extra['distance_limit_within_margin_not_judged'] = stats.get('dist_amb', 0)
    return chk.finish()
