"""C09: computed minimum/maximum sizes bound every valid encoding."""
import json, os, re, glob, math
from lib import common, gen, judge
from monitors import genrun, vecs as V
from ref import model, codec, sizes, neutral, canon

GUARD_RES = [
    (re.compile(r'if body_size != (\d+) \{'), lambda m: (int(m.group(1)), int(m.group(1)))),
    (re.compile(r'if !\((\d+)\.\.=(\d+)\)\.contains\(&body_size\)'), lambda m: (int(m.group(1)), int(m.group(2)))),
    (re.compile(r'if body_size > (\d+) \{'), lambda m: (0, int(m.group(1)))),
    (re.compile(r'if body_size < (\d+) \{'), lambda m: (int(m.group(1)), math.inf)),
]


def frame_limit(version, kind):
    """largest body a message of this kind can have in any direction it travels (protocol documents)"""
    lim = 0
    if kind in ('cmsg', 'msg'):
        lim = max(lim, 10240)   # client buffer limit (assumption of the oracle, DESIGN.md 2.1)
    if kind in ('smsg', 'msg'):
        lim = max(lim, (0x7FFFFF - 2) if version == 'wrath' else (0xFFFF - 2))
    return lim


def scrape_guards(tree):
    """-> {(expansion or 'shared:<file>', message name): (lo, hi)} from regenerated world read_inner functions"""
    out = {}
    base = os.path.join(tree, 'wow_world_messages', 'src', 'world')
    for path in glob.glob(os.path.join(base, '*', '*.rs')):
        exp = os.path.basename(os.path.dirname(path))
        src = open(path, errors='replace').read()
        m = re.search(r'pub struct (\w+)', src)
        if not m:
            continue
        name = m.group(1)
        k = src.find('fn read_inner(')
        if k < 0:
            continue
        head = src[k:k + 600]
        for rx, f in GUARD_RES:
            g = rx.search(head)
            if g:
                vers = re.findall(r'#\[cfg\(feature = "(vanilla|tbc|wrath)"\)\]\nimpl crate::(?:vanilla|tbc|wrath)::(?:Client|Server)Message', src)
                out[(exp, os.path.basename(path), name)] = (f(g), sorted(set(vers)))
                break
    return out


def run(tier, replay=None):
    chk = common.Check('C09', tier, 'exploration',
                       'per container: exact interval evaluation of the encoded length over the whole conditional structure (ref/sizes.py: if-variables '
                       'enumerated over enumerators / relevant flag-bit subsets, optional absent/present, array counts 0..max of the count type, documented '
                       'leaf bounds) compared with sizes{minimum,maximum,constant_sized} of the freshly emitted IR and with the guard literal scraped from every '
                       'regenerated read_inner; plus every canonical vector length checked against the IR interval and the real decoders run on them; '
                       'distinct = containers compared')
    binary, tree, res = genrun.pristine_run()
    try:
        if res['exit'] != 0:
            chk.violation({'check': 'generator-exit', 'exit': res['exit']}, {'stderr': res['stderr'][-3000:]})
            return chk.finish()
        ir = genrun.load_ir(tree)
        guards = scrape_guards(tree)
    finally:
        gen.drop(tree)
    corpus = model.Corpus(model.default_root())
    irrec = neutral.from_ir(ir)
    by_key = {}
    for o in corpus.objs:
        if o.family != 'none':
            by_key[(o.name, neutral.vkey(o.family, o.versions))] = o
    approx = 0
    truth = {}
    for key, rec in sorted(irrec.items()):
        if rec['kind'] in ('enum', 'flag'):
            continue
        o = by_key.get(key)
        if o is None:
            continue
        env = None
        for e in corpus.envs.values():
            if e.containers.get(o.name) is o:
                env = e
                break
        if env is None:
            chk.count('not-in-a-generated-flavour')
            continue
        cdc = codec.Codec(env)
        try:
            lo, hi = sizes.extent(cdc, o)
        except sizes.Approx:
            approx += 1
            continue
        except codec.RefError as e:
            chk.count('model-cannot-size')
            continue
        truth[key] = (lo, hi, env)
        s = rec['sizes']
        kind = rec['kind']
        lim = frame_limit(env.version, kind) if kind != 'struct' and env.family == 'world' else None
        need_hi = hi if lim is None else min(hi, lim)
        probs = []
        if s['minimum_size'] > lo:
            probs.append(('min-too-large', f'IR minimum {s["minimum_size"]} > true minimum {lo}'))
        if need_hi != math.inf and s['maximum_size'] < need_hi and not (kind == 'struct' and hi > 65535):
            probs.append(('max-too-small', f'IR maximum {s["maximum_size"]} < {"frame limit" if hi > need_hi else "true maximum"} {need_hi}'))
        if s['constant_sized'] and (lo != hi or s['minimum_size'] != lo):
            probs.append(('constant-wrong', f'constant_sized with IR {s["minimum_size"]} but true interval [{lo},{hi}]'))
        if not s['constant_sized'] and lo == hi and kind != 'struct':
            chk.count('constant-but-not-flagged')   # informational: not a bound violation
        if not probs:
            chk.ok(('ir',) + key, sample={'object': key, 'true': [lo, str(hi)], 'ir': s})
        for pk, detail in probs:
            chk.violation({'check': 'ir-sizes', 'problem': pk, 'kind': kind, 'flavour': env.key, 'unbounded': hi == math.inf,
                           'object': key[0], 'ir_max': s['maximum_size']},
                          {'object': key, 'true_interval': [lo, str(hi)], 'ir_sizes': s, 'detail': detail, 'frame_limit': lim})
    chk.extra['containers_with_too_many_flag_bits_for_exact_evaluation'] = approx
    # guards in regenerated decoders
    ng = 0
    for (exp, fname, name), ((glo, ghi), vers) in sorted(guards.items()):
        flavours = vers or ([exp] if exp in ('vanilla', 'tbc', 'wrath') else [])
        for fl in flavours:
            env = corpus.envs.get(f'world:{fl}')
            o = env.containers.get(name) if env else None
            if o is None or o.kind == 'struct':
                continue
            try:
                lo, hi = sizes.extent(codec.Codec(env), o)
            except (sizes.Approx, codec.RefError):
                continue
            lim = frame_limit(fl, o.kind)
            need_hi = min(hi, lim)
            ng += 1
            if glo > lo or ghi < need_hi:
                chk.violation({'check': 'guard', 'flavour': fl, 'object': name, 'problem': 'min-too-large' if glo > lo else 'max-too-small',
                               'unbounded': hi == math.inf, 'guard_max': ghi if ghi != math.inf else None},
                              {'file': f'{exp}/{fname}', 'guard': [glo, str(ghi)], 'true_interval': [lo, str(hi)], 'needed_max': need_hi})
            else:
                chk.ok(('guard', fl, name))
    chk.extra['guards_compared'] = ng
    # canonical vectors against the IR interval, and the real decoders on them
    corpus2, sv, vectors, stats = V.build(tier, k=1 if tier == 'quick' else 8)
    ir_by_name = {}
    for key, rec in irrec.items():
        ir_by_name.setdefault(key[0], []).append((key[1], rec))
    binary = common.cargo_build('codec_driver')
    ev = common.run_driver(binary, ([v['id'], 'W.dec' if v['family'] == 'world' else 'L.dec', v['version'], v['dir'], v['hex']] for v in vectors), 'c09')
    nv = 0
    for v in vectors:
        e = ev.get(v['id']) or {}
        blen = len(v['hex']) // 2 - v['hdr']
        env = corpus.env(v['family'], v['version'])
        o = env.containers[v['object']]
        rec = irrec.get((o.name, neutral.vkey(o.family, o.versions)))
        nv += 1
        if rec is not None and not (rec['sizes']['minimum_size'] <= blen <= rec['sizes']['maximum_size']):
            chk.violation({'check': 'vector-outside-ir-interval', 'flavour': env.key, 'object': o.name},
                          {'vector': v['id'], 'body_len': blen, 'ir_sizes': rec['sizes'], 'hex': v['hex'][:200]})
        elif e.get('result') == 'err' and e.get('err_kind') == 'InvalidSize':
            chk.violation({'check': 'canonical-rejected-invalid-size', 'flavour': env.key, 'object': o.name},
                          {'vector': v['id'], 'body_len': blen, 'event': e, 'hex': v['hex'][:200]})
        elif e.get('result') == 'err' and e.get('err_kind') == 'AllocationTooLarge':
            # the allocation guards multiply a count by a derived element size: a canonical encoding must pass them too
            chk.violation({'check': 'canonical-rejected-allocation-guard', 'flavour': env.key, 'object': o.name},
                          {'vector': v['id'], 'body_len': blen, 'event': e, 'hex': v['hex'][:200]})
        else:
            chk.count('vector-within-bounds')
    chk.extra['canonical_vectors_checked'] = nv
    chk.evaluations += nv
    chk.assumptions += ['leaf bounds from the type documents / canonical limits (CString <= 256 incl. NUL, SizedCString <= 4+8000, PackedGuid 1..9, masks per types/*.md)',
                        'a message maximum only needs to reach the frame limit of its direction/expansion (client messages <= 10240 bytes: the client buffer limit the generator quotes from three emulators; server body <= 0xFFFD, Wrath server <= 0x7FFFFD)']
    return chk.finish()
