"""C07: the generator compiles any valid wowm program (from the feature subset the corpus uses) to a codec
implementing it.  Random programs are transplanted onto existing leaf messages in a scratch copy of the tree,
the real generator regenerates the crates, the codec driver is built against them and the C01 workload and
oracle run over the scratch definitions."""
import json, os, random, re, shutil, subprocess, time
from lib import common, gen, judge
from monitors import vecs as V
from ref import model, codec, randprog, canon

SLOT = os.path.join(os.environ.get('TMPDIR', '/tmp'), f'wowverif-{os.getpid()}-c07-slot')   # per process: two runs may overlap


def letters(n):
    out = ''
    while True:
        out = 'abcdefghijklmnopqrstuvwxyz'[n % 26] + out
        n //= 26
        if n == 0:
            return out.capitalize()


def known_classes():
    p = os.path.join(common.VERIF, 'known_findings.json')
    out = {}
    if os.path.exists(p):
        for k in json.load(open(p)).get('findings', []):
            if k.get('property') == 'C07' and k.get('status') == 'open' and k.get('class'):
                out[k['class']] = k
    return out


def handwritten_text():
    txt = ''
    for d in ['wow_world_messages/src/helper/update_mask_common', 'wow_world_messages/src/manual', 'wow_world_messages/src/util', 'wow_world_messages/src/traits', 'examples']:
        p = os.path.join(common.REPO, d)
        for root, _, fs in os.walk(p):
            for f in fs:
                if f.endswith('.rs'):
                    txt += open(os.path.join(root, f), errors='replace').read()
    txt += open(os.path.join(common.HARNESS, 'codec_driver', 'src', 'main.rs')).read()   # messages the driver itself names
    return txt


def choose_hosts(corpus, n, rng):
    hand = handwritten_text()
    tests = {t['name'] for t in corpus.raw_tests}
    count = {}
    for o in corpus.objs:
        count[o.name] = count.get(o.name, 0) + 1
    seen, hosts = set(), []
    for o in corpus.objs:
        if o.family != 'world' or o.kind not in ('cmsg', 'smsg') or 'paste_versions' in o.tags or o.name in tests or o.name.startswith('MSG_'):
            continue
        # one host per message NAME: blame and vector attribution are keyed on the name
        if o.name in seen or re.search(r'\b' + o.name + r'\b', hand):
            continue
        seen.add(o.name)
        exps = [e for e, t in model.EXPANSIONS.items() if any(model.covers(v, t) for v in o.versions)]
        if exps and not codec.info(o).compressed:
            hosts.append((o, exps))
    hosts.sort(key=lambda h: h[0].name)
    rng.shuffle(hosts)
    return hosts[:n]


class LoginHost:
    """a NEW login message (login messages are all named by hand-written code, so none can be a transplant host)"""
    family = 'login'

    def __init__(s, i, batch):
        s.kind = ('slogin', 'clogin')[i % 2]
        # not version 8: its opcode enum dispatches through the hand-written collective layer, which a new message does not have
        s.version = (2, 3, 5, 6, 7)[(i // 2) % 5]
        s.name = f'CMD_VERIF_{letters(batch)}{letters(i)}'.upper()
        s.raw = {'opcode_raw': hex(0x40 + i // 2), 'tags': [('login_versions', str(s.version))]}
        s.file = None


LOGIN_FILE = os.path.join('wow_message_parser', 'wowm', 'login', 'verif_programs.wowm')


def render(host, prog):
    o = host
    own = [(k, v) for k, v in o.raw['tags'] if k in ('versions', 'login_versions')]
    tags = (' {\n' + ''.join(f'    {k} = "{v}";\n' for k, v in own) + '}') if own else ''
    txt = f"{o.kind} {o.name} = {o.raw['opcode_raw']} {{\n{prog['body']}\n}}{tags}\n"
    for name, h in prog['helpers']:
        txt += '\n' + h + tags + '\n'
    return txt


def transplant(tree, placed):
    """placed: list of (host Obj, program). Rewrites the wowm files of the scratch tree."""
    by_file = {}
    login = [render(host, prog) for host, prog in placed if isinstance(host, LoginHost)]
    if login:
        open(os.path.join(tree, LOGIN_FILE), 'w').write('\n'.join(login))
    for host, prog in placed:
        if isinstance(host, LoginHost):
            continue
        rel = os.path.relpath(host.file, common.REPO)
        by_file.setdefault(rel, []).append((host, prog))
    for rel, items in by_file.items():
        path = os.path.join(tree, rel)
        lines = open(os.path.join(common.REPO, rel)).read().split('\n')
        for host, prog in sorted(items, key=lambda x: -x[0].raw['line']):
            a, b = host.raw['line'] - 1, host.raw['end_line']
            while a > 0 and lines[a - 1].strip().startswith('///'):
                a -= 1
            lines[a:b] = render(host, prog).split('\n')
        open(path, 'w').write('\n'.join(lines))


def prepare_slot():
    # the target directory of the regenerated crates collects the artefacts of every scratch tree ever built: keep it below ~12 GiB
    tdir = os.path.join(common.BUILD, 'c07-target')
    try:
        used = int(subprocess.run(['du', '-sk', tdir], stdout=subprocess.PIPE, stderr=subprocess.DEVNULL, text=True).stdout.split()[0])
        if used > 12 * 1024 * 1024:
            shutil.rmtree(tdir, ignore_errors=True)
    except (IndexError, ValueError):
        pass
    shutil.rmtree(SLOT, ignore_errors=True)
    os.makedirs(SLOT)
    tree = os.path.join(SLOT, 'repo')
    subprocess.run(['rsync', '-a', '--exclude', '/target', '--exclude', '/.git', common.REPO.rstrip('/') + '/', tree + '/'], check=True)
    h = os.path.join(SLOT, 'harness')
    os.makedirs(h)
    for c in ('mon', 'codec_driver', '.cargo'):
        subprocess.run(['rsync', '-a', os.path.join(common.HARNESS, c), h + '/'], check=True)
    for root, _, fs in os.walk(h):
        for f in fs:
            if f in ('Cargo.toml', 'build.rs', 'config.toml'):
                p = os.path.join(root, f)
                s = open(p).read().replace('"/repo', f'"{tree}').replace(f'"{common.REPO}', f'"{tree}')
                s = re.sub(r'target-dir = ".*"', f'target-dir = "{os.path.join(common.BUILD, "c07-target")}"', s)
                open(p, 'w').write(s)
    return tree, h


def build_driver(tree, harness):
    env = dict(common.ENV)
    env['WOWM_REPO'] = tree
    env['CARGO_TARGET_DIR'] = os.path.join(common.BUILD, 'c07-target')
    t0 = time.time()
    p = subprocess.run(['cargo', 'build', '--offline'], cwd=os.path.join(harness, 'codec_driver'), env=env,
                       stdout=subprocess.PIPE, stderr=subprocess.PIPE, text=True)
    common.log(f'[c07] cargo build of regenerated crates -> {p.returncode} in {time.time() - t0:.0f}s')
    if p.returncode == 0:
        # the login crate emits a blocking, a tokio and an async-std reader per message: compile all three copies
        t0 = time.time()
        q = subprocess.run(['cargo', 'check', '--offline', '-p', 'wow_login_messages', '--features', 'sync,tokio,async-std'], cwd=tree, env=env,
                           stdout=subprocess.PIPE, stderr=subprocess.PIPE, text=True)
        common.log(f'[c07] cargo check of wow_login_messages with sync,tokio,async-std -> {q.returncode} in {time.time() - t0:.0f}s')
        if q.returncode != 0:
            return q.returncode, q.stderr, None
    return p.returncode, p.stderr, os.path.join(common.BUILD, 'c07-target', 'debug', 'codec_driver')


def blame(stderr, placed):
    """-> ({index: first rustc error text naming one of the program's generated files}, files)"""
    blocks = re.split(r'\n(?=error(?:\[E\d+\])?: )', stderr)
    out = {}
    files = set()
    for b in blocks:
        m = re.search(r'-->\s+(\S+?\.rs):\d+', b)
        if not m or not b.startswith('error'):
            continue
        f = m.group(1)
        files.add(f)
        base = os.path.basename(f)[:-3].lower().replace('_', '')
        for i, (host, prog) in enumerate(placed):
            keys = [host.name.lower().replace('_', '')] + [n.lower().replace('_', '') for n, _ in prog['helpers']]
            if any(base == k or base.startswith(k + 'vanilla') or base.startswith(k + 'tbc') or base.startswith(k + 'wrath') for k in keys):
                out.setdefault(i, b[:500])
    return out, sorted(files)[:10]


def run(tier, replay=None):
    chk = common.Check('C07', tier, 'exploration',
                       'random wowm programs (enums/flags with dec/hex/bin values, structs, fixed/variable/endless arrays, if / else-if / else on enums '
                       '(==, ||, !=) and flags (&), nesting, optional tails, constants, upcasts, built-in types) transplanted onto existing leaf messages; '
                       'the real generator must accept them, the emitted crates must compile, and every canonical encoding from the reference model must '
                       'round-trip through the freshly generated codecs; dedicated probe programs exercise construct classes listed as known findings; '
                       'distinct = (program, branch signature) pairs decoded')
    rng = random.Random(common.seed() * 104729 + 11)
    corpus, sv = V.load_model()
    known = known_classes()
    avoid = set(known)
    n_prog = 70 if tier == 'quick' else 240
    batches = 1 if tier == 'quick' else 3
    binary = gen.build_generator()
    for batch in range(batches):
        only = set(filter(None, os.environ.get('C07_ONLY', '').split(',')))   # development aid: probes,sys,matrix,random,login
        mx = randprog.matrix_programs(lambda i: 'Vm' + letters(i), chunk=int(os.environ.get('C07_CHUNK', '4')), avoid=avoid) if batch == 0 and not replay and (not only or 'matrix' in only) else []
        hosts = choose_hosts(corpus, n_prog // batches + len(randprog.PROBES) + (48 if batch == 0 else 0) + len(mx), rng)
        placed = []
        hi = 0
        for cls, mk in randprog.PROBES.items():
            if only and 'probes' not in only:
                break
            host = hosts[hi]
            hi += 1
            prog = mk('Vp' + letters(batch) + letters(hi))
            prog['classes'] = [cls]
            prog['probe'] = cls
            if prog.get('family') == 'login':
                lh = LoginHost(125 - len([1 for h in placed if isinstance(h[0], LoginHost)]), batch)   # from the top of the opcode range
                host = (lh, [lh.version])
            placed.append(host + (prog,))
        if batch == 0 and not replay and (not only or 'sys' in only):
            sysprogs = randprog.systematic_programs(lambda i: 'Vs' + letters(i))
            for prog in sysprogs:
                placed.append(hosts[hi] + (prog,))
                hi += 1
        for prog in mx:
            placed.append(hosts[hi] + (prog,))
            hi += 1
        if not replay and (not only or 'login' in only):
            lprogs = []
            if batch == 0:
                lprogs += randprog.matrix_programs(lambda i: 'Vl' + letters(i), family='login', chunk=int(os.environ.get('C07_CHUNK', '4')), avoid=avoid)
            nl = 12 if tier == 'quick' else 30
            lprogs += [randprog.make_program('Vq' + letters(batch) + letters(k), f'{common.seed()}:login:{batch}:{k}', avoid=avoid, family='login') for k in range(nl)]
            for i, prog in enumerate(lprogs[:120]):
                lh = LoginHost(i, batch)
                placed.append((lh, [lh.version], prog))
        for k, host in enumerate(hosts[hi:] if not only or 'random' in only else []):
            prog = randprog.make_program('Vr' + letters(batch) + letters(k), f'{common.seed()}:{batch}:{k}', avoid=avoid)
            placed.append(host + (prog,))
        if replay:
            rp = json.load(open(replay))
            cand = [h for h in placed if h[0].name == rp['host']] or placed[:1]
            placed = [(cand[0][0], cand[0][1], rp['program'])]
        run_batch(chk, corpus, binary, placed, batch)
        if replay:
            break
    chk.extra['known_classes_avoided_in_random_programs'] = sorted(avoid)
    chk.assumptions += ['random programs are drawn from the feature subset the corpus uses; construct classes recorded as open known findings are kept out of the '
                        'random batches and exercised by one probe program each',
                        'canonical encodings and the oracle are those of C01 applied to the scratch definitions']
    return chk.finish()


def sync_wowm(tree):
    subprocess.run(['rsync', '-a', '--delete', os.path.join(common.REPO, 'wow_message_parser', 'wowm') + '/',
                    os.path.join(tree, 'wow_message_parser', 'wowm') + '/'], check=True)


def run_batch(chk, corpus, binary, placed, batch):
    tree, harness = prepare_slot()
    try:
        active = list(range(len(placed)))
        failed = {}     # index -> (stage, detail[, vector])
        drv = None
        for rnd in range(5):
            sync_wowm(tree)
            transplant(tree, [(placed[i][0], placed[i][2]) for i in active])
            res = gen.run_generator(binary, tree)
            if res['exit'] != 0:
                named = [i for i in active if re.search(r'\b' + placed[i][0].name + r'\b', res['stderr'])
                         or any(re.search(r'\b' + n + r'\b', res['stderr']) for n, _ in placed[i][2]['helpers'])]
                if not named:
                    named = bisect_generator(binary, tree, placed, active)
                if not named:
                    raise common.Inconclusive('generator fails on the transplanted tree and the failure cannot be attributed: ' + res['stderr'][-500:])
                for i in named:
                    k = res['stderr'].find('panicked at')
                    failed[i] = ('generator', f"exit {res['exit']}: " + (res['stderr'][k:k + 500] if k >= 0 else res['stderr'][-400:]))
                active = [i for i in active if i not in named]
                continue
            rc, stderr, drv = build_driver(tree, harness)
            if rc != 0:
                cul, files = blame(stderr, [(placed[i][0], placed[i][2]) for i in active])
                culprits = [active[c] for c in cul]
                if not culprits:
                    raise common.Inconclusive('regenerated crates do not compile and no program can be blamed: ' + stderr[-1500:])
                for c, msg in cul.items():
                    failed[active[c]] = ('compile', msg)
                active = [i for i in active if i not in culprits]
                continue
            break
        else:
            raise common.Inconclusive('no compiling batch after 5 rounds')
        root = os.path.join(tree, 'wow_message_parser', 'wowm')
        names = {(placed[i][0].name, e) for i in active for e in placed[i][1]}
        sc = model.Corpus(root)
        vecs = []
        for key in ('world:vanilla', 'world:tbc', 'world:wrath') + tuple(f'login:{n}' for n in (2, 3, 5, 6, 7, 8)):
            env = sc.envs[key]
            cdc = codec.Codec(env)
            for c in env.messages():
                if (c.name, env.version) not in names:
                    continue
                try:
                    for klass, vals in canon.vectors_for(cdc, c, common.seed(), 6 if chk.tier == 'quick' else 24, extremes=True):
                        try:
                            body, fmap, sig, payloads = cdc.encode(c, vals)
                        except codec.NotCanonical:
                            chk.count('values-without-canonical-encoding')
                            continue
                        for d in cdc.directions(c):
                            try:
                                frame = cdc.canonical_frame(c, body, d)
                            except codec.RefError:
                                continue    # beyond the frame limits of this direction: not canonical
                            hl = len(frame) - len(body)
                            vecs.append({'id': f'{key}.{d[0].upper()}.{c.name}#{klass}', 'family': env.family, 'version': env.version, 'dir': d,
                                         'object': c.name, 'opcode': c.raw['opcode'], 'hex': frame.hex(), 'hdr': hl,
                                         'sig': sig, 'feat': cdc.last_feat, 'fmap': [[r[0], r[1] + hl] + r[2:] for r in fmap], 'payloads': []})
                except codec.RefError as e:
                    raise common.Inconclusive(f'reference model cannot handle its own random program {c.name}: {e}')
        ev = common.run_driver(drv, (V.driver_row(v) for v in vecs), 'c07')
        byname = {placed[i][0].name: i for i in active}
        bad = {}
        for v in vecs:
            e = ev.get(v['id'])
            if e is None:
                chk.inconclusive.append(f'{v["id"]}: no event')
                continue
            why = judge.judge_roundtrip(v, e)
            i = byname[v['object']]
            if why is None:
                chk.count('vectors-ok')
                if i not in bad:
                    chk.ok((v['object'], batch, tuple(v['sig'])), sample={'host': v['object'], 'program': placed[i][2]['body'][:400], 'vector': v['hex'][:80]})
            else:
                chk.count('vectors-bad')
                bad.setdefault(i, (why, v))
        for i, (why, v) in bad.items():
            failed[i] = ('roundtrip', json.dumps({k: str(x)[:160] for k, x in why.items()}), v)
        for i, f in failed.items():
            host, exps, prog = placed[i]
            stage, detail = f[0], f[1]
            cls = prog.get('probe')
            obs = {'check': 'probe' if cls else 'random-program', 'class': cls, 'stage': stage}
            if not cls:
                obs['classes'] = ','.join(prog['classes'])
            chk.violation(obs, {'host': host.name, 'expansions': exps, 'program': prog, 'wowm': render(host, prog), 'stage': stage, 'detail': detail,
                                'vector': f[2] if len(f) > 2 else None})
        for i in range(len(placed)):
            if i not in failed and placed[i][2].get('probe'):
                chk.count('probe-passes:' + placed[i][2]['probe'])
        chk.count('programs', len(placed))
        chk.count('programs_failed', len(failed))
    finally:
        shutil.rmtree(SLOT, ignore_errors=True)


def bisect_generator(binary, tree, placed, active):
    """find programs the generator rejects by halving"""
    bad = []

    def fails(subset):
        sync_wowm(tree)
        transplant(tree, [(placed[i][0], placed[i][2]) for i in subset])
        return gen.run_generator(binary, tree)['exit'] != 0

    def rec(subset):
        if not subset or not fails(subset):
            return
        if len(subset) == 1:
            bad.append(subset[0])
            return
        mid = len(subset) // 2
        rec(subset[:mid])
        rec(subset[mid:])
    rec(list(active))
    return bad
