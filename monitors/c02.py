"""C02: framing is exact (header size/opcode = bytes written, right header form) and streams stay aligned."""
import json, random
from lib import common, judge
from monitors import vecs as V, seqs as S
from ref import model, codec

KEY = '00112233445566778899aabbccddeeff00112233445566778899aabbccddeeff0011223344556677'


def lengths(version, direction, tier):
    lim = S.max_body(version, direction)
    ls = set(range(0, 5)) | set(range(0x7FF0, 0x8011)) | set(range(0xFFF0, 0x10011)) | {0x7FFFFD - 2, 0x7FFFFD - 1, 0x7FFFFD}
    if tier == 'thorough':
        ls |= set(range(0x7F00, 0x8100, 7)) | set(range(0xFF00, 0x10100, 5)) | {0x100000, 0x400000}
    ls = sorted(x for x in ls if x <= lim)
    # always include the exact top of the expressible range
    for x in (lim, lim - 1, lim - 2, lim - 3):
        if x >= 0 and x not in ls:
            ls.append(x)
    return sorted(ls)


def run(tier, replay=None):
    chk = common.Check('C02', tier, 'exploration',
                       '(a) header of every re-encoded canonical vector parsed and compared with the bytes that follow; (b) elastic '
                       '{S,C}MSG_WARDEN_DATA built as typed values for every boundary body length and written with plain and encrypted writers, '
                       'read back through opcode-enum readers, typed expect helpers and their encrypted variants; (c) random histories of messages '
                       'on one stream read to EOF with a position-tracking reader; distinct = (flavour, direction, object/length/sequence shape)')
    rng = random.Random(common.seed())
    binary = common.cargo_build('codec_driver')
    corpus, sv, vectors, stats = V.build(tier, k=1 if tier == 'quick' else 8)
    if replay:
        rp = json.load(open(replay))
    # ---- (a) headers of all re-encoded vectors
    ev = common.run_driver(binary, (V.driver_row(v) for v in vectors), 'c02a')
    for v in vectors:
        e = ev.get(v['id'])
        if e is not None and e.get('result') == 'panic' and '/traits/' in (e.get('panic_at') or ''):
            # the writer aborted on its size assertion: declared size != bytes written
            chk.count('a:write-panic')
            chk.violation({'check': 'header', 'family': v['family'], 'version': v['version'], 'dir': v['dir'], 'object': v['object'],
                           'why_class': 'write panic', 'flag_elseif_taken': 'flag-elseif-taken' in (v.get('feat') or []),
                           'panic_at': (e.get('panic_at') or '').replace(common.REPO, '')},
                          {'vector': v, 'event': e, 'why': 'writer aborted: ' + str(e.get('panic_msg'))[:200]})
            continue
        if e is None or e.get('result') != 'ok':
            chk.count('a:not-decoded')   # decode failures are C01's business
            continue
        out = judge.out_bytes(e)
        if out is None:
            chk.count('a:large-skipped')
            continue
        why = judge.header_ok(v['family'], v['version'], v['dir'], out, v['opcode'])
        if why is None and e.get('consumed') != len(bytes.fromhex(v['hex'])):
            why = f'reader consumed {e.get("consumed")} of {len(v["hex"]) // 2} bytes'
        chk.count('a:ok' if why is None else 'a:bad')
        if why is None:
            chk.ok(('a', v['version'], v['dir'], v['object'], len(out) > 0x7FFF), sample={'id': v['id'], 'header': out[:6].hex(), 'len': len(out)})
        else:
            chk.violation({'check': 'header', 'family': v['family'], 'version': v['version'], 'dir': v['dir'], 'object': v['object'],
                           'why_class': why.split(' ')[0] + ' ' + why.split(' ')[1]}, {'vector': v, 'event': e, 'why': why})
    # ---- (b) boundary lengths through typed construction
    rows, meta = [], {}
    for version in ('vanilla', 'tbc', 'wrath'):
        for d in ('client', 'server'):
            for L in lengths(version, d, tier):
                for crypt in ('plain', 'enc:' + KEY):
                    fid = f'build.{version}.{d}.{L}.{crypt[:3]}'
                    rows.append([fid, 'W.build', version, d, 'warden', L, crypt])
                    meta[fid] = (version, d, L, crypt)
    evb = common.run_driver(binary, rows, 'c02b', workers=8, timeout=120, budget=3 << 30)
    for fid, (version, d, L, crypt) in meta.items():
        e = evb.get(fid)
        if e is None:
            chk.inconclusive.append(f'{fid}: no event')
            continue
        ref = bytes.fromhex(S.warden_vector(corpus, version, d, L)['hex'])
        hl = len(ref) - L
        probs = []
        if e.get('result') != 'done':
            probs.append(('write-' + str(e.get('result')), str(e.get('panic_at') or e.get('alloc_refused') or '')))
        else:
            size_key = 'server_size' if d == 'server' else 'client_size'
            if e.get(size_key) != len(ref):
                probs.append(('declared-size', f'{size_key}={e.get(size_key)} for a {len(ref)} byte message'))
            plain = judge.out_bytes(e, 'plain')
            if plain is not None:
                if plain != ref:
                    probs.append(('plain-bytes', f'header {plain[:6].hex()} expected {ref[:hl].hex()}, length {len(plain)}/{len(ref)}'))
            elif e.get('plain_len') != len(ref) or e.get('plain_fnv') != judge.fnv(ref):
                probs.append(('plain-bytes', f'len {e.get("plain_len")} expected {len(ref)}, head {e.get("plain_head")} expected {ref[:8].hex()}'))
            readers = ['rb_enum', 'rb_expect'] + (['rb_enc', 'rb_enc_expect'] if crypt != 'plain' else [])
            for rb in readers:
                r = e.get(rb) or {}
                if r.get('result') != 'ok':
                    probs.append((rb + ':' + str(r.get('err_kind') or r.get('result')) + ('' if r.get('pos') == len(ref) else ':misaligned'),
                                  f'{r.get("err_kind")} {r.get("io_kind") or ""} pos {r.get("pos")}'))
                elif r.get('pos') != len(ref):
                    probs.append((rb + '-position', f'reader at {r.get("pos")}, frame is {len(ref)} bytes'))
                elif not r.get('eq'):
                    probs.append((rb + '-value', 'decoded value differs from the written one'))
            if crypt != 'plain':
                enc = judge.out_bytes(e, 'enc')
                if enc is not None:
                    if len(enc) != len(ref) or enc[hl:] != ref[hl:]:
                        probs.append(('enc-bytes', f'encrypted length {len(enc)} vs {len(ref)} or body differs'))
                elif e.get('enc_len') != len(ref):
                    probs.append(('enc-bytes', f'encrypted length {e.get("enc_len")} vs {len(ref)}'))
        chk.count('b:ok' if not probs else 'b:bad')
        if not probs:
            chk.ok(('b', version, d, L, crypt[:3]), sample={'id': fid, 'event': {k: str(x)[:80] for k, x in e.items()}})
        for kind, detail in probs:
            chk.violation({'check': 'boundary', 'version': version, 'dir': d, 'crypt': crypt[:3], 'problem': kind, 'len': L,
                           'body_over_64k': L > 0xFFFF,
                           'from_top': S.max_body(version, d) - L, 'panic_at': (e.get('panic_at') or '').replace(common.REPO, '')},
                          {'row': [fid, 'W.build', version, d, 'warden', L, crypt], 'event': e, 'detail': detail})
    # ---- (c) histories
    cand = [v for v in vectors if v['family'] == 'world' and len(v['hex']) < 4000]
    pool = S.good_pool(binary, cand)
    n_seq, max_len = (200, 12) if tier == 'quick' else (12000, 40)
    seqs = S.make_sequences(corpus, pool, n_seq, max_len, rng)
    rows = []
    pool_names = {k: sorted({(v['object'], v['opcode']) for v in vs}) for k, vs in pool.items()}
    mism = {}
    for si, s in enumerate(seqs):
        stream = ''.join(v['hex'] for v in s['frames'])
        rows.append([s['id'] + '.enum', 'W.stream', s['version'], s['dir'], 'enum', 'plain', '-', stream])
        names = ','.join(v['object'] for v in s['frames'])
        rows.append([s['id'] + '.expect', 'W.stream', s['version'], s['dir'], 'expect', 'plain', names, stream])
        if tier == 'thorough' and si % 3:
            continue        # the variants below for every third history of the (long) thorough histories: the workload has to stay runnable
        # the same history over a blocking transport that delivers short reads (a socket may return fewer bytes than asked for)
        rows.append([s['id'] + '.enum-short', 'W.stream', s['version'], s['dir'], 'enum', 'plain;chunk=' + S.chunk_pattern(rng), '-', stream])
        rows.append([s['id'] + '.expect-short', 'W.stream', s['version'], s['dir'], 'expect', 'plain;chunk=' + S.chunk_pattern(rng), names, stream])
        # typed readers asked for a different message: Opcode error, and the rejected frame is consumed all the same
        mnames, mis = S.mismatch_names(s, pool_names[(s['version'], s['dir'])], rng)
        if mis:
            mism[s['id']] = mis
            rows.append([s['id'] + '.expect-mismatch', 'W.stream', s['version'], s['dir'], 'expect', 'plain', mnames, stream])
    added = {r[0] for r in rows}
    evc = common.run_driver(binary, rows, 'c02c', timeout=60)
    for s in seqs:
        for reader in ('enum', 'expect', 'enum-short', 'expect-short', 'expect-mismatch'):
            if reader == 'expect-mismatch' and s['id'] not in mism:
                continue
            if f"{s['id']}.{reader}" not in added:
                continue
            e = evc.get(f"{s['id']}.{reader}")
            if e is None:
                chk.inconclusive.append(f"{s['id']}.{reader}: no event")
                continue
            if e.get('result') != 'done':
                why = {'reason': str(e.get('result')), 'detail': str(e.get('panic_at') or '')}
            else:
                why = S.judge_stream(s, e.get('msgs') or [], mismatched=mism.get(s['id'], ()) if reader == 'expect-mismatch' else ())
            chk.count(f'c:{reader}:' + ('ok' if why is None else 'bad'))
            shape = tuple(min(len(v['hex']) // 2, 0x10000) >> 8 for v in s['frames'])
            if why is None:
                chk.ok(('c', s['version'], s['dir'], reader, shape), sample={'id': s['id'], 'reader': reader, 'objects': [v['object'] for v in s['frames']][:8]})
            else:
                at = why.get('at')
                obj = s['frames'][at]['object'] if isinstance(at, int) and 0 <= at < len(s['frames']) else None
                big = isinstance(at, int) and 0 <= at < len(s['frames']) and len(s['frames'][at]['hex']) // 2 > 0x7FFF
                chk.violation({'check': 'history', 'version': s['version'], 'dir': s['dir'], 'reader': reader, 'reason': why['reason'],
                               'object_at': obj, 'large_frame_at': big},
                              {'sequence': [(v['object'], len(v['hex']) // 2) for v in s['frames']], 'why': why,
                               'row': [r for r in rows if r[0] == f"{s['id']}.{reader}"][0][:7]})
    chk.assumptions += ['frame limits from ir/implementing_world.md: 2-byte size field (client: size = body+4, server: body+2), Wrath server 3-byte form iff size value > 0x7FFF, at most 0x7FFFFF',
                        'sequences are composed of frames that round-trip on their own in the same run (C01 judges the rest)']
    return chk.finish()
