"""C01: every canonical encoding decodes and re-encodes to the same bytes."""
import json
from lib import common, judge
from monitors import vecs as V


def run(tier, replay=None):
    chk = common.Check('C01', tier, 'exploration',
                       'canonical encodings from the reference wowm model (policy variants, each-choice branch plans, '
                       'seeded random, captured vectors) pushed through read_unencrypted/read -> write -> read -> write; '
                       'distinct = (flavour, direction, object, branch signature) pairs judged')
    if replay:
        rp = json.load(open(replay))
        vectors = [rp['vector']]
        stats, sv = {}, {}
        corpus = None
    else:
        corpus, sv, vectors, stats = V.build(tier)
    if not replay and corpus is not None:
        # encodings whose length sits at the edges of the header forms (elastic WARDEN_DATA; `u32 n; T[n]` messages beyond 64 KiB)
        from monitors import seqs as S
        for version in ('vanilla', 'tbc', 'wrath'):
            for d in ('client', 'server'):
                # the top two lengths of the 2-byte server form make the writers panic (C02's known finding size-u16-overflow-top-of-range)
                lim = min(S.max_body(version, d) - (2 if d == 'server' else 0), 10240 - 6 if d == 'client' else 1 << 30)
                for L in sorted({0, 1, 255, 256, lim} | set(range(0x7FF8, 0x8006)) | set(range(0xFFF8, 0xFFFE))):
                    if L <= lim and not (version == 'wrath' and d == 'server' and L > 0xFFFD):   # known: Wrath size model capped at 64 KiB
                        vectors.append({**S.warden_vector(corpus, version, d, L), 'kind': 'edge'})
        for c in S.elastic_messages(corpus, 'wrath', 'server'):
            w = S.ELEM_WIDTH[c.raw['members'][1]['ty']]
            for n in ((0x10000 - 4) // w, (0x10000 - 4) // w + 1, 80000 // w):
                vectors.append({**S.elastic_vector(corpus, 'wrath', 'server', c, n), 'kind': 'edge'})
    binary = common.cargo_build('codec_driver')
    ev = common.run_driver(binary, (V.driver_row(v) for v in vectors), 'c01')
    # the typed entry points: expect_{client,server}_message::<M> (login and world) and read_initial_message
    rows2 = []
    for v in vectors:
        if v['family'] == 'login':
            rows2.append([v['id'] + '/expect', 'L.expect', v['version'], v['dir'], v['object'], v['hex']])
            if v['object'] in ('CMD_AUTH_LOGON_CHALLENGE_Client', 'CMD_AUTH_RECONNECT_CHALLENGE_Client') and v['version'] == 2:
                rows2.append([v['id'] + '/initial', 'L.initial', v['hex']])
        elif v['kind'].startswith(('policy', 'captured', 'rand')) or tier == 'thorough':
            rows2.append([v['id'] + '/expect', 'W.stream', v['version'], v['dir'], 'expect', 'plain', v['object'], v['hex']])
    ev2 = common.run_driver(binary, rows2, 'c01x')
    known_bad = set()
    missing = 0
    for v in vectors:
        e = ev.get(v['id'])
        if e is None:
            missing += 1
            continue
        why = judge.judge_roundtrip(v, e)
        key = (v['version'], v['dir'], v['object'], tuple(v['sig']))
        if why is None:
            chk.count('ok')
            chk.ok(key, sample={'id': v['id'], 'hex': v['hex'][:120], 'sig': v['sig'][:6], 'event': {k: (str(x)[:80]) for k, x in e.items()}})
        else:
            obs = {'check': 'roundtrip', 'family': v['family'], 'version': v['version'], 'dir': v['dir'], 'object': v['object'],
                   'flag_elseif_taken': 'flag-elseif-taken' in (v.get('feat') or []),
                   'detail_class': str(why.get('detail') or '').split(':')[0].split(' at ')[0][:40],
                   **{k: x for k, x in why.items() if k in ('stage', 'reason', 'err_kind', 'panic_at')}}
            r = chk.violation(obs, {'vector': v, 'event': e, 'why': why,
                                    'driver_cmd': 'python3 check.py C01 --replay <this file>'})
            chk.count(r)
    # judge the typed entry points against the same reference bytes (only for vectors the enum path handles:
    # a vector that fails there is already reported above)
    byid = {v['id']: v for v in vectors}
    for rid, e in ev2.items():
        vid, api = rid.rsplit('/', 1)
        v = byid.get(vid)
        if v is None or judge.judge_roundtrip(v, ev.get(vid) or {}) is not None:
            continue
        ref = bytes.fromhex(v['hex'])
        why = None
        if api == 'expect' and v['family'] == 'world':
            msgs = e.get('msgs') or []
            if e.get('result') != 'done' or len(msgs) != 1 or msgs[0].get('result') != 'ok':
                why = {'reason': 'typed-read-failed', 'detail': str(msgs[:1] or e)[:300]}
            elif msgs[0].get('pos') != len(ref):
                why = {'reason': 'consumed', 'detail': f"{msgs[0].get('pos')} of {len(ref)}"}
            else:
                out = judge.out_bytes(msgs[0])
                if out is not None and 'nonfixed-spline' not in (v.get('feat') or []) and judge.same_message(v, out):
                    why = {'reason': 'bytes', 'detail': judge.same_message(v, out)}
        else:
            if e.get('result') != 'ok':
                why = {'reason': 'typed-read-failed', 'detail': {k: str(x)[:120] for k, x in e.items()}}
            elif e.get('consumed') != len(ref):
                why = {'reason': 'consumed', 'detail': f"{e.get('consumed')} of {len(ref)}"}
            elif judge.out_bytes(e) != ref:
                why = {'reason': 'bytes', 'detail': 'typed write differs from the reference encoding'}
        if why is None:
            chk.count('typed-ok')
            chk.ok(('typed', api, v['version'], v['dir'], v['object']))
        else:
            chk.count('typed-bad')
            chk.violation({'check': 'typed-entry', 'api': api, 'family': v['family'], 'version': v['version'], 'dir': v['dir'], 'object': v['object'],
                           'reason': why['reason']}, {'vector': v, 'event': e, 'why': why})
    if missing:
        chk.inconclusive.append(f'{missing} vectors have no event (BEGIN/END conservation broken)')
    chk.extra['selfval'] = {k: v for k, v in sv.items() if k not in ('failures', 'skipped')}
    chk.extra['per_flavour'] = {k: {'messages': s['messages'], 'vectors': s['vectors'], 'branch_signatures': s['sigs'],
                                    'skipped': s['skipped']} for k, s in stats.items()}
    chk.assumptions += ['canonical leaf limits of DESIGN.md 2.1 (strings <= 255 bytes, Bool in {0,1}, finite floats, '
                        'DateTime a real instant, packed spline points fixed points of the documented pack/unpack pair)',
                        'AddonArray messages are exempt (encode-only by the type documentation)',
                        'compressed members are compared by inflated payload, never by compressed bytes']
    return chk.finish()
