"""C01: every canonical encoding decodes and re-encodes to the same bytes."""
import json
from lib import common, judge
from monitors import vecs as V


def run(tier, replay=None):
    chk = common.Check('C01', tier, 'exploration',
                       'canonical encodings from the reference wowm model (policy variants, each-choice branch plans, '
                       'seeded random, captured vectors) pushed through read_unencrypted/read -> write -> read -> write; '
                       'distinct = (flavour, direction, object, branch signature) pairs judged')
    if replay:
        rp = json.load(open(replay))
        vectors = [rp['vector']]
        stats, sv = {}, {}
    else:
        corpus, sv, vectors, stats = V.build(tier)
    binary = common.cargo_build('codec_driver')
    ev = common.run_driver(binary, (V.driver_row(v) for v in vectors), 'c01')
    missing = 0
    for v in vectors:
        e = ev.get(v['id'])
        if e is None:
            missing += 1
            continue
        why = judge.judge_roundtrip(v, e)
        key = (v['version'], v['dir'], v['object'], tuple(v['sig']))
        if why is None:
            chk.count('ok')
            chk.ok(key, sample={'id': v['id'], 'hex': v['hex'][:120], 'sig': v['sig'][:6], 'event': {k: (str(x)[:80]) for k, x in e.items()}})
        else:
            obs = {'check': 'roundtrip', 'family': v['family'], 'version': v['version'], 'dir': v['dir'], 'object': v['object'],
                   'flag_elseif_taken': 'flag-elseif-taken' in (v.get('feat') or []),
                   'detail_class': str(why.get('detail') or '').split(':')[0].split(' at ')[0][:40],
                   **{k: x for k, x in why.items() if k in ('stage', 'reason', 'err_kind', 'panic_at')}}
            r = chk.violation(obs, {'vector': v, 'event': e, 'why': why,
                                    'driver_cmd': 'python3 check.py C01 --replay <this file>'})
            chk.count(r)
    if missing:
        chk.inconclusive.append(f'{missing} vectors have no event (BEGIN/END conservation broken)')
    chk.extra['selfval'] = {k: v for k, v in sv.items() if k not in ('failures', 'skipped')}
    chk.extra['per_flavour'] = {k: {'messages': s['messages'], 'vectors': s['vectors'], 'branch_signatures': s['sigs'],
                                    'skipped': s['skipped']} for k, s in stats.items()}
    chk.assumptions += ['canonical leaf limits of DESIGN.md 2.1 (strings <= 255 bytes, Bool in {0,1}, finite floats, '
                        'DateTime a real instant, packed spline points fixed points of the documented pack/unpack pair)',
                        'AddonArray messages are exempt (encode-only by the type documentation)',
                        'compressed members are compared by inflated payload, never by compressed bytes']
    return chk.finish()
