"""C17: the generated Wireshark dissector fragments walk every message exactly to its end.

Pipeline: build the CURRENT generator -> run it on a scratch tree -> take tests/wireshark/*.txt as emitted ->
compile them (clang, ASan+UBSan) around csrc/ws_shim.c -> feed canonical vectors of the reference model
(all Vanilla world messages, login protocol versions 2,3,5,6,7,8) -> compare the recorded event stream of every
frame with the vector's field map.  The C side has no expectations; everything is judged here.
"""
import json, os, re, subprocess, sys, time, zlib, concurrent.futures
from lib import common, gen, wsfrag
from monitors import vecs as V
from ref import model, codec
from ref.model import INT_TYPES, ALIASES

ENVS = ['world:vanilla'] + [f'login:{n}' for n in model.LOGIN_VERSIONS]
CHUNK = 300
CHUNK_TIMEOUT = 240
NUMERIC_FT = {'FT_CHAR', 'FT_UINT8', 'FT_UINT16', 'FT_UINT24', 'FT_UINT32', 'FT_UINT40', 'FT_UINT48', 'FT_UINT56', 'FT_UINT64',
              'FT_INT8', 'FT_INT16', 'FT_INT24', 'FT_INT32', 'FT_INT40', 'FT_INT48', 'FT_INT56', 'FT_INT64', 'FT_FLOAT',
              'FT_BOOLEAN'}


def clean(name):
    return name.replace('_Server', '').replace('_Client', '')


def norm(path):
    return re.sub(r'\[\d+\]', '[]', path)


# ------------------------------------------------------------------------------------------------
# running the harness

def _run_chunk(binary, rows, tag):
    """-> (events {id: [cols...]}, hf lines, crashes [(id, kind, stderr)], missing ids)"""
    d = os.path.join(common.BUILD, 'run')
    os.makedirs(d, exist_ok=True)
    events, hf, crashes = {}, [], []
    pending = list(rows)
    env = dict(os.environ)
    env['ASAN_OPTIONS'] = 'detect_leaks=0:abort_on_error=0:exitcode=97:allocator_may_return_null=1'
    env['UBSAN_OPTIONS'] = 'print_stacktrace=1:halt_on_error=1:exitcode=98'
    attempt = 0
    while pending:
        attempt += 1
        inp = os.path.join(d, f'c17.{os.getpid()}.{tag}.{attempt}.tsv')
        with open(inp, 'w') as f:
            for r in pending:
                f.write('\t'.join(str(x) for x in r) + '\n')
        try:
            p = subprocess.run([binary, inp], stdout=subprocess.PIPE, stderr=subprocess.PIPE, env=env, timeout=CHUNK_TIMEOUT)
            out, err, rc, timed_out = p.stdout, p.stderr, p.returncode, False
        except subprocess.TimeoutExpired as e:
            out, err, rc, timed_out = e.stdout or b'', e.stderr or b'', None, True
        finally:
            try:
                os.remove(inp)
            except OSError:
                pass
        cur, open_id, done = None, None, set()
        for line in out.decode('utf-8', 'replace').split('\n'):
            if not line:
                continue
            c = line.split('\t')
            if c[0] == 'B' and len(c) > 1:
                open_id, cur = c[1], []
            elif c[0] == 'E' and len(c) > 2 and open_id == c[1]:
                cur.append(c)
                events[open_id] = cur
                done.add(open_id)
                open_id, cur = None, None
            elif cur is not None:
                cur.append(c)
            elif c[0].startswith('HF'):
                hf.append(c)
        if rc == 0 and not timed_out:
            break
        # the frame whose B has no E took the process down
        ids = [r[0] for r in pending]
        if open_id is None:
            nxt = [i for i in ids if i not in done]
            if rc is not None and not nxt:
                break
            culprit = nxt[0] if nxt else None
            kind = 'died-between-frames'
        else:
            culprit, kind = open_id, 'timeout' if timed_out else f'exit {rc}'
        if culprit is None:
            break
        crashes.append((culprit, kind, err.decode('utf-8', 'replace')[-6000:], cur or []))
        k = ids.index(culprit)
        pending = pending[k + 1:]
        if attempt > 40:
            crashes.append((None, 'too many crashes in one chunk', '', []))
            break
    return events, hf, crashes


def run_harness(binary, rows):
    chunks = [rows[i:i + CHUNK] for i in range(0, len(rows), CHUNK)]
    events, hf, crashes = {}, [], []
    t0 = time.time()
    with concurrent.futures.ThreadPoolExecutor(max_workers=max(2, common.NCPU)) as ex:
        for i, (e, h, c) in enumerate(ex.map(lambda a: _run_chunk(binary, a[1], a[0]), list(enumerate(chunks)))):
            events.update(e)
            if i == 0:
                hf = h
            crashes += c
    common.log(f'[driver] c17: {len(rows)} frames -> {len(events)} event streams, {len(crashes)} crashes in {time.time() - t0:.1f}s')
    return events, hf, crashes


def harness_row(v):
    fam = 'W' if v['family'] == 'world' else 'L'
    ver = v['version'] if v['family'] == 'login' else 0
    return [v['id'], fam, 'S' if v['dir'] == 'server' else 'C', v['opcode'], ver, v['hdr'], v['hex']]


# ------------------------------------------------------------------------------------------------
# oracle

def row_big_endian(row, env):
    leaf = row[3]
    t = ALIASES.get(leaf, leaf)
    if t in INT_TYPES:
        return INT_TYPES[t][2]
    if len(row) > 5 and isinstance(row[5], dict) and row[5].get('definer') in env.definers:
        base = env.definers[row[5]['definer']].raw['ty']
        if base in INT_TYPES:
            return INT_TYPES[base][2]
    return False


def expected(v):
    """-> {tvb index: dict(start, end, rows)}; tvb 0 = frame, tvb k = k-th compressed payload (1-based)."""
    frame = bytes.fromhex(v['hex'])
    rows = [(r[1], 0, r) for r in v['fmap'] if r[2] > 0]
    out = {}
    for i, p in enumerate(v.get('payloads') or []):
        raw = frame[p['data_off']:]
        used = 0
        if raw:
            d = zlib.decompressobj()
            try:
                d.decompress(raw)
                used = len(raw) - len(d.unused_data)
            except zlib.error:
                raise common.Inconclusive(f'{v["id"]}: the reference vector carries a broken zlib stream')
        if used:
            rows.append((p['data_off'], 1, [f'<compressed stream {i}>', p['data_off'], used, 'zlib', 'compressed-stream']))
        out[i + 1] = {'start': 0, 'end': len(p['payload']) // 2, 'rows': [r for r in p['fmap'] if r[2] > 0]}
    rows.sort(key=lambda x: (x[0], x[1]))
    out[0] = {'start': v['hdr'], 'end': len(frame), 'rows': [r for _, _, r in rows]}
    return out


def segments(ev):
    """event list -> (per-tvb segment lists, z-events, abort event or None, done event or None)"""
    segs, zs, abort, done = {}, [], None, None
    tvbmap = {0: 0}
    for c in ev:
        k = c[0]
        try:
            if k in ('A', 'R'):
                segs.setdefault(tvbmap.get(int(c[2]), ('?', c[2])), []).append(
                    {'off': int(c[3]), 'len': int(c[4]), 'kind': 'item', 'enc': int(c[5], 16), 'hf': c[6], 'ft': c[7],
                     'val': c[8], 'warn': c[9], 'call': 'ptvcursor_add_ret_uint' if k == 'R' else 'ptvcursor_add'})
            elif k == 'H':
                segs.setdefault(tvbmap.get(int(c[3]), ('?', c[3])), []).append(
                    {'off': int(c[4]), 'len': int(c[5]), 'kind': c[1], 'hf': c[6], 'detail': c[7], 'call': 'add_' + c[1]})
            elif k == 'Z':
                z = {'src': int(c[1]), 'off': int(c[2]), 'len': int(c[3]), 'new': int(c[4]), 'inflated': int(c[5]),
                     'consumed': int(c[6]), 'rc': c[7], 'index': len(zs) + 1}
                zs.append(z)
                if z['new'] >= 0:
                    tvbmap[z['new']] = z['index']
                segs.setdefault(tvbmap.get(z['src'], ('?', z['src'])), []).append(
                    {'off': z['off'], 'len': max(z['len'], 0), 'kind': 'uncompress', 'z': z, 'hf': '-', 'call': 'tvb_uncompress'})
            elif k == 'X':
                abort = {'kind': c[1], 'call': c[2], 'tvb': tvbmap.get(int(c[3]), -1) if c[3] != '-1' else -1, 'off': int(c[4]),
                         'len': int(c[5]), 'tvb_len': int(c[6]), 'detail': c[7] if len(c) > 7 else ''}
            elif k == 'D':
                done = {'tvb': int(c[2]), 'off': int(c[3]), 'depth': int(c[4])}
        except (ValueError, IndexError):
            raise common.Inconclusive(f'malformed event line from the harness: {c}')
    return segs, zs, abort, done


def _prefix_ok(rows, suffix):
    p = rows[0][0]
    if not p.endswith(suffix):
        return False
    p = p[:-len(suffix)]
    return all(r[0].startswith(p) and r[0][len(p):len(p) + 1] in ('.', '[') for r in rows[1:])


def kind_problem(seg, rows, env):
    """Does this one call legitimately stand for these definition leaves?  -> None or (check, detail dict)."""
    k = seg['kind']
    r0 = rows[0]
    if k == 'item':
        if seg['ft'] in NUMERIC_FT:
            if len(rows) != 1:
                return 'grouping', {'covers_leaves': len(rows)}
            if seg['len'] > 1:
                be = row_big_endian(r0, env)
                little = bool(seg['enc'] & 0x80000000)
                if be == little:
                    return 'endianness', {'definition': 'big' if be else 'little',
                                          'encoding': 'ENC_LITTLE_ENDIAN' if little else 'ENC_BIG_ENDIAN(=ENC_NA)'}
            return None
        if seg['ft'] == 'FT_BYTES':
            pre = r0[0].rsplit('[', 1)[0]
            if len(rows) > 1 and not all(r[4] == 'elem' and r[0].rsplit('[', 1)[0] == pre for r in rows):
                return 'grouping', {'covers_leaves': len(rows)}
            return None
        return None
    if k == 'cstring':
        ok = len(rows) == 1 and r0[4] == 'cstring'
    elif k == 'string':
        ok = r0[4] == 'string-len' and r0[2] == 1 and (len(rows) == 1 or (len(rows) == 2 and rows[1][4] == 'string'))
    elif k == 'sized_cstring':
        ok = len(rows) == 2 and r0[4] == 'string-len' and r0[2] == 4 and rows[1][4] == 'cstring'
    elif k == 'packed_guid':
        ok = len(rows) == 1 and r0[4] == 'packed-guid'
    elif k == 'aura_mask':
        ok = r0[4] == 'mask-pattern' and _prefix_ok(rows, '.pattern')
    elif k == 'update_mask':
        ok = _prefix_ok(rows, '.blocks')
    elif k == 'spline':
        ok = _prefix_ok(rows, '.count')
    elif k == 'uncompress':
        ok = len(rows) == 1 and r0[4] == 'compressed-stream'
    elif k == 'advance':
        ok = True
    else:
        ok = False
    return None if ok else ('kind_mismatch', {'covers_leaves': len(rows), 'first_role': r0[4]})


def tile(segs, exp, env, soft):
    """Compare one buffer's calls with its definition leaves.  -> (problem | None, index of next unconsumed row, pos).
    A wrong endianness flag does not disturb the alignment: it is appended to `soft` and the walk goes on."""
    rows = exp['rows']
    pos, i = exp['start'], 0
    for s in segs:
        if s['len'] == 0:
            if s['off'] != pos:
                return ('cursor_jump', s, None, {'at': s['off'], 'expected_at': pos}), i, pos
            continue
        if s['off'] != pos:
            return ('cursor_jump', s, rows[i] if i < len(rows) else None, {'at': s['off'], 'expected_at': pos}), i, pos
        got = []
        j = i
        while j < len(rows) and rows[j][1] < pos + s['len']:
            got.append(rows[j])
            j += 1
        if not got:
            return ('extra_call', s, None, {'event_len': s['len']}), i, pos
        if got[0][1] != pos:
            raise common.Inconclusive('field map is not contiguous (reference model problem)')
        end = got[-1][1] + got[-1][2]
        if end != pos + s['len']:
            return ('width_mismatch', s, got[0], {'def_width': got[0][2], 'event_len': s['len']}), i, pos
        kp = kind_problem(s, got, env)
        if kp and kp[0] == 'endianness':
            soft.append((kp[0], s, got[0], kp[1]))
        elif kp:
            return (kp[0], s, got[0], kp[1]), i, pos
        if s['kind'] == 'uncompress':
            z = s['z']
            if z['new'] < 0:
                return ('uncompress_failed', s, got[0], {'rc': z['rc']}), i, pos
        i, pos = j, pos + s['len']
    return None, i, pos


def _why(prob, t):
    check, s, row, extra = prob
    return {'check': check, 'buffer': t, 'field': norm(row[0]) if row else '<past the last field>',
            'leaf': row[3] if row else '-', 'event': s['hf'] if s['hf'] != '-' else s['kind'], 'call': s['call'],
            'at': s['off'], **extra}


def judge(v, ev, env):
    """-> list of dict(check=..., ...): everything that refutes the property for this vector (empty = held).
    Per buffer: every wrong endianness flag, then the first misalignment (after which offsets mean nothing)."""
    exp = expected(v)
    segs, zs, abort, done = segments(ev)
    bad_tvb = [k for k in segs if not isinstance(k, int)]
    if bad_tvb:
        raise common.Inconclusive(f'{v["id"]}: event refers to an unknown buffer {bad_tvb}')
    order = sorted(set(exp) | set(segs))
    results, out = {}, []
    for t in order:
        if t not in exp:
            return [{'check': 'extra_buffer', 'field': '<none>', 'buffer': t, 'event': segs[t][0]['hf'], 'call': segs[t][0]['call']}]
        soft = []
        results[t] = tile(segs.get(t, []), exp[t], env, soft)
        out += [_why(p, t) for p in soft]
    # inflated size must be the payload the vector carries (otherwise the inner comparison is meaningless)
    for z in zs:
        if z['new'] >= 0 and z['index'] in exp and z['inflated'] != exp[z['index']]['end'] and z['off'] == v['payloads'][z['index'] - 1]['data_off']:
            raise common.Inconclusive(f'{v["id"]}: shim inflated {z["inflated"]} bytes, reference payload has {exp[z["index"]]["end"]}')
    hard = False
    for t in order:
        prob, i, pos = results[t]
        if prob:
            out.append(_why(prob, t))
            hard = True
    if hard:
        return out
    if abort:
        t = abort['tvb']
        _, i, pos = results.get(t, (None, 0, 0))
        rows = exp.get(t, {'rows': []})['rows']
        row = rows[i] if i < len(rows) else None
        out.append({'check': 'abort_' + abort['kind'].lower(), 'buffer': t, 'field': norm(row[0]) if row else '<past the last field>',
                    'leaf': row[3] if row else '-', 'call': abort['call'], 'at': abort['off'], 'want_len': abort['len'],
                    'buffer_len': abort['tvb_len'], 'detail': abort['detail']})
        return out
    if done is None:
        raise common.Inconclusive(f'{v["id"]}: body function neither finished nor aborted')
    for t in order:
        _, i, pos = results[t]
        rows = exp[t]['rows']
        if i < len(rows) or pos != exp[t]['end']:
            row = rows[i] if i < len(rows) else None
            out.append({'check': 'stops_short', 'buffer': t, 'field': norm(row[0]) if row else '<trailing bytes>',
                        'leaf': row[3] if row else '-', 'stopped_at': pos, 'end': exp[t]['end'],
                        'calls_made': len(segs.get(t, []))})
    return out


# ------------------------------------------------------------------------------------------------

def opcodes_from_model(corpus):
    ops = {'world': {}, 'login': {}}
    for m in corpus.envs['world:vanilla'].messages():
        ops['world'][clean(m.name)] = m.raw['opcode']
    for k in model.LOGIN_VERSIONS:
        for m in corpus.envs[f'login:{k}'].messages():
            n = clean(m.name)
            if ops['login'].get(n, m.raw['opcode']) != m.raw['opcode']:
                raise common.Inconclusive(f'login opcode of {n} differs between protocol versions')
            ops['login'][n] = m.raw['opcode']
    return ops


def classify_compile_errors(errors, ops):
    """-> (violations [(obs, text)], infra [text])"""
    viol, infra = [], []
    for f, line, msg, unit in errors:
        half = 'world' if 'world' in unit or f.startswith('world_') else 'login' if 'login' in unit or f.startswith('login_') else unit
        m = re.search(r"use of undeclared identifier '(\w+)'", msg)
        if m:
            ident = m.group(1)
            if re.match(r'^(CMSG|SMSG|MSG|CMD)_', ident) and ident not in ops.get(half, {}):
                infra.append(f'{f}:{line}: case label {ident} is not a message of the reference model')
                continue
            kind = 'hf' if ident.startswith('hf_') else 'value_string' if ident.endswith('_strings') else \
                'enumerator' if ident.upper() == ident else 'variable'
            viol.append(({'check': 'undeclared', 'half': half, 'kind': kind, 'identifier': ident, 'file': f}, f'{f}:{line}: {msg}'))
            continue
        if 'implicit declaration of function' in msg or 'implicitly declaring' in msg:
            infra.append(f'{f}:{line}: the shim lacks a function the fragments call: {msg}')
            continue
        if f.endswith('.inc'):
            viol.append(({'check': 'does_not_compile', 'half': half, 'file': f, 'message': re.sub(r"'[^']*'", "'…'", msg)[:120]},
                         f'{f}:{line}: {msg}'))
        else:
            infra.append(f'{f}:{line}: {msg}')
    return viol, infra


def covered(labels, v):
    half = 'world' if v['family'] == 'world' else 'login'
    cov = labels[half].get(clean(v['object']))
    if cov is None:
        return False, 'no case label'
    if cov['versions'] is not None:
        if v['version'] not in cov['versions']:
            return False, f'no case for protocol version {v["version"]}'
        dirs = cov['versions'][v['version']]
    else:
        dirs = cov['dirs']
    if v['dir'] not in dirs:
        return False, f'no code for direction {v["dir"]}'
    return True, ''


def oracle_selftest(v, ev, env):
    """Negative controls: the oracle must reject three doctored copies of an accepted event stream."""
    idx = [i for i, c in enumerate(ev) if c[0] in ('A', 'R') and c[7] in NUMERIC_FT and int(c[4]) in (2, 4, 8)]
    if not idx or judge(v, ev, env):
        return None
    i = idx[-1]
    fails = []
    a = [list(c) for c in ev]
    a[i][4] = str(int(a[i][4]) // 2)
    for c in a[i + 1:]:
        pass
    if not any(w['check'] in ('width_mismatch', 'cursor_jump') for w in judge(v, a, env)):
        fails.append('halved width accepted')
    b = [list(c) for c in ev]
    b[i][5] = '%08x' % (int(b[i][5], 16) ^ 0x80000000)
    if not any(w['check'] == 'endianness' for w in judge(v, b, env)):
        fails.append('flipped endianness accepted')
    last = max(j for j, c in enumerate(ev) if c[0] in ('A', 'R', 'H'))
    c2 = [list(c) for j, c in enumerate(ev) if j != last]
    if not any(w['check'] in ('stops_short', 'cursor_jump') for w in judge(v, c2, env)):
        fails.append('dropped last call accepted')
    return fails


def fmt_events(ev, limit=40):
    return ['\t'.join(c) for c in ev[:limit]] + (['... %d more' % (len(ev) - limit)] if len(ev) > limit else [])


def run(tier, replay=None):
    chk = common.Check('C17', tier, 'exploration',
                       'fragments regenerated by the current generator, compiled (clang ASan+UBSan) around a recording epan '
                       'stand-in, run over canonical vectors (each-choice branch plans + seeded random + captured) of every '
                       'Vanilla world message and login protocol versions 2,3,5,6,7,8; event stream tiled against the '
                       "vector's field map (order, offsets, widths, endianness flag, stop at body end, inner buffers of "
                       'compressed data); static + compile-time declared/registered cross-check; '
                       'distinct = (flavour, direction, message, branch signature) walked to the end')
    rp = json.load(open(replay)) if replay else None
    try:
        return _run(chk, tier, rp)
    except wsfrag.FragmentError as e:
        return common.write_inconclusive('C17', tier, 'exploration', f'fragment files have an unknown shape: {e}')


def _run(chk, tier, rp):
    t_start = time.time()
    gen.sweep_stale()
    binary = gen.build_generator()
    tree = gen.scratch_tree()
    try:
        r = gen.run_generator(binary, tree)
        if r['exit'] != 0:
            raise common.Inconclusive(f'generator exit {r["exit"]} on an unmodified scratch copy: {r["stderr"][-1500:]}')
        frags = wsfrag.read(tree)
    finally:
        gen.drop(tree)
    repo_frags = wsfrag.read(common.REPO)
    differ = [f for f in wsfrag.FILES if frags[f] != repo_frags[f]]
    chk.extra['fragments'] = {'source': 'regenerated by the generator built from ' + common.REPO, 'sha256': wsfrag.digest(frags),
                              'generator_wall_s': round(r['wall_s'], 1),
                              'differ_from_checked_in_files': differ or 'no (byte-identical to tests/wireshark/*.txt)'}
    parts = wsfrag.split(frags)
    corpus, sv = V.load_model()
    for key, e in corpus.envs.items():
        if key in ENVS:
            for o in e.containers.values():
                for d in codec.walk_defs(o.raw['members']):
                    if d['upcast'] and d['upcast'].endswith('_be'):
                        raise common.Inconclusive(f'{key} {o.name}.{d["name"]}: upcast to a big-endian type is not modelled by this oracle')
    ops = opcodes_from_model(corpus)
    labels = {'world': wsfrag.labels(parts['world']['parser'], 'WOWW_SERVER_TO_CLIENT'),
              'login': wsfrag.labels(parts['login']['parser'], 'WOW_SERVER_TO_CLIENT')}

    # ---- declared & registered (static) ----------------------------------------------------------
    static = {}
    for half in ('world', 'login'):
        sr = wsfrag.static_refs(parts[half])
        static[half] = {k: (len(x) if k in ('used', 'declared', 'registered') else x) for k, x in sr.items()}
        for rel in ('used_not_declared', 'used_not_registered', 'declared_not_registered', 'registered_twice'):
            if sr[rel]:
                for name in sr[rel]:
                    res = chk.violation({'check': 'static', 'relation': rel, 'half': half, 'hf': name},
                                        {'static': True, 'relation': rel, 'hf': name,
                                         'how': 'python3 check.py C17 --replay <this file> (re-runs generator + static checks)'})
                    chk.count(res)
            else:
                chk.ok(('static', half, rel))
    chk.extra['static'] = static

    # ---- compile -----------------------------------------------------------------------------------
    b = wsfrag.build(frags, parts, ops)
    chk.extra['build'] = {'cached': b['cached'], 'wall_s': round(b['wall_s'], 1), 'warnings': b['warnings'], 'errors': len(b['errors']),
                          'flags': ' '.join(wsfrag.CFLAGS), 'split_notes': parts['notes']}
    if b['errors']:
        viol, infra = classify_compile_errors(b['errors'], ops)
        for obs, text in viol:
            res = chk.violation(obs, {'static': True, 'compiler_message': text, 'build_dir': b['dir'],
                                      'how': 'python3 check.py C17 --replay <this file>'})
            chk.count(res)
        if infra and not viol:
            raise common.Inconclusive('C17 harness does not compile: ' + '; '.join(infra[:5]))
        if not viol and not infra:
            raise common.Inconclusive('C17 harness does not compile: ' + b['stderr'][-1500:])
        chk.extra['compile_errors'] = [f'{f}:{l}: {m}' for f, l, m, _ in b['errors'][:20]]
        chk.inconclusive = []
        return chk.finish()
    chk.ok(('compile', 'world+login', '-Werror=implicit-function-declaration, no undeclared identifiers'))

    # ---- workload ----------------------------------------------------------------------------------
    if rp is not None and rp.get('vector'):
        vectors, stats = [rp['vector']], {}
    elif rp is not None:
        vectors, stats = [], {}
    else:
        k = 6 if tier == 'quick' else 128
        _, _, vectors, stats = V.build(tier, k=k, envs=ENVS)
        cap = [v for v in V.captured_vectors(corpus) if f'{v["family"]}:{v["version"]}' in ENVS]
        vectors += cap
        chk.extra['workload'] = {'k_random_per_message': k, 'captured_vectors': len(cap),
                                 'per_flavour': {e: {'messages': s['messages'], 'vectors': s['vectors'], 'branch_signatures': s['sigs'],
                                                     'skipped': s['skipped']} for e, s in stats.items()}}
    ids = set()
    for v in vectors:
        if v['id'] in ids:
            raise common.Inconclusive(f'duplicate vector id {v["id"]}')
        ids.add(v['id'])
    rows = [harness_row(v) for v in vectors]
    events, hf_lines, crashes = run_harness(b['binary'], rows) if rows else ({}, [], [])

    # ---- register array as walked at start-up ------------------------------------------------------
    if rows:
        reg = {'woww': 0, 'wow': 0, 'dup': [], 'null': []}
        for c in hf_lines:
            if c[0] == 'HF':
                reg[c[1]] += 1
            elif c[0] == 'HFDUP':
                reg['dup'].append(c[2])
            elif c[0] == 'HFNULL':
                reg['null'].append(c[2])
        chk.extra['register_walk'] = reg
        if reg['woww'] != static['world']['registered'] or reg['wow'] != static['login']['registered']:
            if not reg['dup']:
                raise common.Inconclusive(f'register walk saw {reg["woww"]}+{reg["wow"]} entries, text has '
                                          f'{static["world"]["registered"]}+{static["login"]["registered"]}')

    # ---- judge -------------------------------------------------------------------------------------
    crashed = {c[0]: c for c in crashes if c[0]}
    for c in crashes:
        if c[0] is None:
            chk.inconclusive.append(c[1])
    not_covered, walked_msgs, all_msgs, empty_msgs, refuted_msgs = {}, set(), set(), set(), set()
    sample_cats, selftests = set(), 0
    type_len_warn = {}
    unbalanced = 0
    for v in vectors:
        envkey = f'{v["family"]}:{v["version"]}'
        env = corpus.envs[envkey]
        mkey = (envkey, v['dir'], v['object'])
        all_msgs.add(mkey)
        base = {'family': v['family'], 'version': v['version'], 'dir': v['dir'], 'object': v['object']}
        if v['id'] in crashed:
            _, kind, err, partial = crashed[v['id']]
            if kind == 'timeout':
                chk.inconclusive.append(f'{v["id"]}: harness timed out in this frame')
                continue
            san = re.search(r'(ERROR: AddressSanitizer: [\w-]+|runtime error: [^\n]*|SUMMARY: [^\n]*)', err)
            res = chk.violation({'check': 'sanitizer_or_crash', **base, 'report': (san.group(1) if san else kind)[:100]},
                                {'vector': v, 'exit': kind, 'stderr': err, 'events_before_crash': fmt_events(partial, 200),
                                 'how': 'python3 check.py C17 --replay <this file>'})
            chk.count(res)
            continue
        ev = events.get(v['id'])
        if ev is None:
            chk.inconclusive.append(f'{v["id"]}: no event stream')
            continue
        body_len = len(v['hex']) // 2 - v['hdr']
        is_cov, why_not = covered(labels, v)
        if not is_cov and body_len > 0:
            not_covered.setdefault(f'{envkey} {v["dir"]} {v["object"]}', why_not)
            chk.count('not_covered_vectors')
            if why_not.startswith(('no case for protocol version', 'no code for direction')):
                # the dissector has code for this message, but its version switch has no arm for a version the definition covers
                # (or the arm has no code for a direction the definition covers):
                # the walk consumes nothing of a non-empty body
                res = chk.violation({'check': 'version_not_dissected', **base, 'buffer': 0},
                                    {'vector': {k: x for k, x in v.items() if k not in ('fmap', 'payloads')}, 'why': why_not,
                                     'how': 'python3 check.py C17 --replay <this file>'})
                chk.count(res)
            continue
        for c in ev:
            if c[0] in ('A', 'R') and len(c) > 9 and c[9] != '-':
                type_len_warn[f'{c[6]} {c[7]} len {c[4]}'] = c[9]
            if c[0] == 'D' and c[4] != '0':
                unbalanced += 1
        whys = judge(v, ev, env)
        if not whys:
            chk.count('ok')
            if body_len == 0:
                chk.count('ok_empty_body')
                empty_msgs.add(mkey)
                chk.ok(None)
                continue
            walked_msgs.add(mkey)
            if selftests < 25 and len(ev) > 6:
                st = oracle_selftest(v, ev, env)
                if st is not None:
                    selftests += 1
                    if st:
                        raise common.Inconclusive(f'oracle self-test failed on {v["id"]}: {st}')
            sample = None
            cat = 'login' if v['family'] == 'login' else 'compressed' if any(p['payload'] for p in v.get('payloads') or []) else \
                'composite' if any(c[0] == 'H' and c[1] in ('aura_mask', 'update_mask', 'spline') for c in ev) else \
                'branches' if len(v['sig']) >= 3 else 'plain'
            if cat not in sample_cats and 6 < len(ev) < 70:
                sample_cats.add(cat)
                sample = {'id': v['id'], 'category': cat, 'hex': v['hex'][:400], 'sig': v['sig'][:8], 'events': fmt_events(ev, 70)}
            chk.ok((envkey, v['dir'], v['object'], tuple(v['sig'])), sample=sample)
            continue
        refuted_msgs.add(mkey)
        for why in whys:
            obs = {**base, **{k: x for k, x in why.items() if k in ('check', 'field', 'leaf', 'event', 'call', 'def_width', 'event_len',
                                                                    'definition', 'encoding', 'covers_leaves', 'buffer', 'detail')}}
            if 'detail' in obs:
                obs['detail'] = str(obs['detail'])[:60]
            res = chk.violation(obs, {'vector': v, 'why': why, 'all_findings_for_this_vector': whys, 'events': fmt_events(ev, 400),
                                      'fragments_sha256': wsfrag.digest(frags),
                                      'how': 'python3 check.py C17 --replay <this file>  (regenerates the fragments, rebuilds the '
                                             'harness, walks this one vector); event grammar: csrc/ws_shim.c'})
            chk.count(res)
            chk.count('refuted:' + why['check'])
    chk.extra['messages'] = {'with_vectors': len(all_msgs), 'walked_to_the_end_at_least_once': len(walked_msgs),
                             'empty_body_only (nothing to walk)': len(empty_msgs - walked_msgs - refuted_msgs),
                             'refuted_at_least_once': sorted(' '.join(map(str, m)) for m in refuted_msgs),
                             'never_walked_to_the_end': sorted(' '.join(map(str, m)) for m in all_msgs - walked_msgs - empty_msgs),
                             'not_covered_by_the_dissector': not_covered}
    chk.extra['login_versions_dissected'] = sorted({n for c in labels['login'].values() if c['versions'] for n in c['versions']})
    chk.extra['case_labels'] = {h: len(labels[h]) for h in labels}
    chk.extra['selfval'] = {k: x for k, x in sv.items() if k not in ('failures', 'skipped')}
    chk.extra['epan_type_length_warnings'] = type_len_warn
    chk.extra['frames_ending_with_open_subtrees'] = unbalanced
    chk.extra['oracle_negative_controls'] = {'streams_doctored': selftests, 'doctorings_each': 3, 'all_rejected': True}
    chk.extra['sanitizer_crashes'] = len([c for c in crashes if c[0] and c[1] != 'timeout'])
    chk.assumptions += [
        'helper functions of the hand-written plugin (add_cstring, add_string, add_sized_cstring, add_packed_guid, add_aura_mask, '
        'add_update_mask, add_monster_move_spline) are modelled from lang-spec.md and types/*.md (Vanilla layouts), not from Wireshark',
        'epan behaviour modelled: cursor arithmetic, bounds (exception on overrun), ENC_* values (ENC_NA == big endian), '
        'ptvcursor_add_ret_uint rejecting non-32-bit-unsigned fields, tvb_uncompress returning NULL for an empty range; '
        'type/length mismatches that epan only warns about are reported as information, not as violations',
        'a compressed stream counts as consumed by tvb_uncompress(range to body end); its inflated buffer must be walked exactly',
        'opcode names come from the reference model (the real plugin has a hand-written enum)',
        'same branches = same byte tiling; hf names are not compared with member names',
        'canonical leaf limits of DESIGN.md 2.1']
    chk.extra['wall_total_s'] = round(time.time() - t_start, 1)
    return chk.finish()
