"""C16: ill-formed wowm is rejected with the exit status of the rule it breaks; the unmodified tree is accepted.

Fault injection on the source tree.  ref/mutate.py holds an independent reading of the static rules of the language
(lang-spec.md, tags.md, versioning-with-tags.md) and one textual mutation operator per rule; a mutant is executed only
if that reference checker says it breaks exactly the intended rule.  The system under test is the real generator
binary (hook H1: WOWM_VERIF_WORKSPACE) run on scratch copies of the repository.
"""
import collections, concurrent.futures, json, os, re, subprocess, threading, time
from lib import common, gen
from ref import mutate

# rule -> (exit status, name of the constant).  Transcribed once from wow_message_parser/src/error_printer/mod.rs
# (the documentation does not publish the numbers: stated assumption).  If the repository renumbers a rule the
# mutants of that rule are reported as 'wrong-status', which is the intended behaviour.
STATUS = collections.OrderedDict([
    ('unknown-type', (1, 'COMPLEX_NOT_FOUND')),
    ('recursive', (2, 'RECURSIVE_TYPE')),
    ('missing-enumerator', (3, 'MISSING_ENUMERATOR')),
    ('enum-and', (4, 'ENUM_HAS_BITWISE_AND')),
    ('flag-equals', (5, 'FLAG_HAS_EQUALS')),
    ('no-version', (6, 'NO_VERSIONS')),
    ('opcode-mismatch', (7, 'INCORRECT_OPCODE_FOR_MESSAGE')),
    ('self-size', (9, 'INVALID_SELF_SIZE')),
    ('bad-value', (10, 'INVALID_DEFINER_VALUE')),
    ('dup-value', (11, 'DUPLICATE_DEFINER_VALUES')),
    ('bad-int-type', (12, 'INVALID_INTEGER_TYPE')),
    ('if-vars', (13, 'NON_MATCHING_IF_VARIABLES')),
    ('upcast-unsupported', (14, 'UNSUPPORTED_UPCAST')),
    ('overlap-names', (15, 'OVERLAPPING_VERSIONS')),
    ('both-versions', (16, 'BOTH_LOGIN_AND_WORLD_VERSIONS')),
    ('dup-field', (17, 'DUPLICATE_FIELD_NAMES')),
    ('not-in-index', (18, 'MESSAGE_NOT_IN_INDEX')),
    ('name-mismatch', (19, 'OPCODE_HAS_INCORRECT_NAME')),
    ('upcast-same', (20, 'TYPE_IS_UPCAST_TO_SAME')),
    ('flag-signed', (21, 'FLAG_WITH_SIGNED_TYPE')),
    ('range-value', (22, 'DEFINER_WITH_INVALID_VALUE')),
    ('overlap-tags', (23, 'VERSION_TAGS_OVERLAP')),
])
CODE_TO_RULE = {c: r for r, (c, _) in STATUS.items()}
CONST_TO_RULE = {n: r for r, (_, n) in STATUS.items()}
# rules 7/18/19 are checked by the generator after everything was printed: they cost a full run each
LATE = ('opcode-mismatch', 'name-mismatch', 'not-in-index')
PER_RULE = {'quick': 8, 'thorough': 60}
WORKERS = 16
RSYNC = ['rsync', '-a', '--delete', '-i', '--exclude', '/target', '--exclude', '/.git', '--exclude', '*/target']


class Worker:
    """one scratch tree; apply -> run -> restore"""

    def __init__(s, binary):
        s.binary = binary
        s.tree = gen.scratch_tree()

    def sync(s):
        """restore the tree from the repository; -> relative paths that had to be restored"""
        p = subprocess.run(RSYNC + [common.REPO.rstrip('/') + '/', s.tree + '/'], stdout=subprocess.PIPE, stderr=subprocess.PIPE, text=True)
        if p.returncode != 0:
            raise common.Inconclusive('rsync failed: ' + p.stderr[-500:])
        out = []
        for line in p.stdout.splitlines():
            m = re.match(r'^(\S{11})\s+(.*)$', line)
            if m and not m.group(2).endswith('/'):
                out.append((m.group(1)[:2].strip('*'), m.group(2)))
            elif line.startswith('*deleting'):
                out.append(('del', line.split(None, 1)[1]))
        return out

    def run(s, edits, extra_files=None):
        touched = set()
        by_file = collections.defaultdict(list)
        for e in edits:
            by_file[e['file']].append(e)
        for rel, es in by_file.items():
            with open(os.path.join(common.REPO, rel)) as f:
                text = f.read()
            text = mutate.apply_edits(text, es)
            with open(os.path.join(s.tree, rel), 'w') as f:
                f.write(text)
            touched.add(rel)
        for rel, text in (extra_files or {}).items():
            with open(os.path.join(s.tree, rel), 'w') as f:
                f.write(text)
            touched.add(rel)
        r = gen.run_generator(s.binary, s.tree, timeout=180)
        restored = s.sync()
        r['outputs_changed'] = sorted(p for k, p in restored if p not in touched)
        r['stderr'] = r['stderr'].replace(s.tree, '<tree>')
        return r


def outcome_of(exit_code, expected):
    if exit_code is None:
        return 'timeout'
    if exit_code == expected:
        return 'status-ok'
    if exit_code == 0:
        return 'accepted'
    if exit_code == 101:
        return 'panic'
    if exit_code < 0 or exit_code in (134, 139):
        return 'crash'
    return 'wrong-status'


def panic_at(stderr):
    m = re.search(r"panicked at ([^\n]*?)(?::\n|\n|$)", stderr)
    if not m:
        return None
    loc = m.group(1).strip()
    loc = re.sub(r"^'.*?', ", '', loc)
    return re.sub(r':\d+:\d+$', '', loc)[-80:]


def judge(mut, res):
    """-> (holds, obs) ; obs is the flat observation used for known-finding matching"""
    expected = STATUS[mut['rule']][0]
    oc = outcome_of(res['exit'], expected)
    named = any(n and n in res['stderr'] for n in mut['names'])
    if oc == 'status-ok' and not named:
        oc = 'status-ok-object-not-named'
    obs = {'rule': mut['rule'], 'variant': mut['variant'], 'site': mut['site'], 'object': mut['object'],
           'file': mut['file'], 'expected': expected, 'exit': res['exit'], 'outcome': oc}
    if oc == 'wrong-status':
        obs['status_of_rule'] = CODE_TO_RULE.get(res['exit'], 'none')
    if oc == 'panic':
        obs['panic_at'] = panic_at(res['stderr'])
    if oc == 'crash':
        obs['crash'] = 'stack overflow' if 'overflowed its stack' in res['stderr'] else f'signal {-res["exit"] if res["exit"] < 0 else res["exit"]}'
    return oc == 'status-ok', obs


def stderr_head(s, n=700):
    lines = [l for l in s.splitlines() if l.strip()]
    return '\n'.join(lines[:12])[:n]


def diff_of(mut):
    out = []
    for e in mut['edits']:
        with open(os.path.join(common.REPO, e['file'])) as f:
            text = f.read()
        line = text.count('\n', 0, e['pos']) + 1
        old = e['old'] if len(e['old']) < 160 else e['old'][:70] + ' ... ' + e['old'][-70:]
        out.append(f'{e["file"]}:{line}: -{old!r} +{e["new"]!r}')
    return out


def must_err_pairs():
    """the project's own rule tests: tests/must_err/<file>.wowm <-> constant named in the same #[test] of src/test.rs"""
    src = open(os.path.join(common.REPO, 'wow_message_parser', 'src', 'test.rs')).read()
    pairs = []
    for block in src.split('#[test]')[1:]:
        f = re.search(r'must_err_load\("([^"]+)"\)', block)
        c = [x for x in re.findall(r'\b([A-Z][A-Z_0-9]{3,})\b', block) if x not in ('WOWM_PRINT_TEST_ERRORS',)]
        if f and c and 'should_panic' in block:
            pairs.append((f.group(1), c[-1]))
    return pairs


def run(tier, replay=None):
    chk = common.Check('C16', tier, 'fault_enumeration',
                       'textual mutants of the real wowm corpus, one operator per static rule, each confirmed by an independent '
                       'reference checker to break exactly that rule, run through the real generator in scratch trees; judged: '
                       'exit status == the rule\'s status and stderr names the mutated object; the unmodified tree must exit 0; '
                       'distinct = (rule, file, site class)')
    gen.sweep_stale()
    t0 = time.time()
    tree = mutate.Tree(common.REPO)
    base_viol = mutate.check_all(tree)
    if base_viol:
        raise common.Inconclusive(f'reference checker flags the unmodified corpus: {base_viol[:5]}')
    facts = mutate.Facts(tree)

    sel_stats = {}
    if replay:
        rp = json.load(open(replay))
        muts = [rp['mutant']]
    else:
        per_rule = PER_RULE[tier]
        muts = []
        for rule in mutate.OPERATORS:
            n = per_rule if rule not in LATE or tier == 'quick' else per_rule // 2
            if rule in ('enum-and', 'flag-equals', 'missing-enumerator', 'unknown-type', 'if-vars', 'opcode-mismatch'):
                n = max(n, 20)
            if rule == 'upcast-unsupported':
                n = max(n, 28)   # one variant per built-in type   # their variants carry the statement context (top / if / else-if / else / optional / nested-*): each at least once
            muts += mutate.select(tree, facts, rule, n, common.seed(), sel_stats)
        for i, m in enumerate(muts):
            m['id'] = f'm{i:04d}'
    common.log(f'[c16] {len(muts)} mutants selected and classified in {time.time() - t0:.1f}s')

    binary = gen.build_generator()
    nworkers = 1 if replay else min(WORKERS, max(1, len(muts)))
    local = threading.local()
    workers = []
    wlock = threading.Lock()

    def worker():
        if not hasattr(local, 'w'):
            local.w = Worker(binary)
            with wlock:
                workers.append(local.w)
        return local.w

    def do_mut(m):
        return m, worker().run(m['edits'])

    def do_base(_):
        w = worker()
        r = gen.run_generator(binary, w.tree, timeout=300)
        r['outputs_changed'] = sorted(p for _, p in w.sync())
        return r

    def do_cross(pair):
        fname, const = pair
        text = open(os.path.join(common.REPO, 'wow_message_parser', 'tests', 'must_err', fname)).read()
        r = worker().run([], {os.path.join('wow_message_parser', 'wowm', 'world', 'verif_must_err.wowm'): text})
        return fname, const, r

    pairs = [] if replay else must_err_pairs()
    results, cross = [], []
    try:
        with concurrent.futures.ThreadPoolExecutor(nworkers) as ex:
            fb = ex.submit(do_base, None)
            fc = [ex.submit(do_cross, p) for p in pairs]
            fm = [ex.submit(do_mut, m) for m in muts]
            base = fb.result()
            cross = [f.result() for f in fc]
            results = [f.result() for f in fm]
    finally:
        for w in workers:
            gen.drop(w.tree)

    # ---- the unmodified tree
    chk.extra['unmodified_tree'] = {'exit': base['exit'], 'wall_s': round(base['wall_s'], 1), 'files_changed_by_the_run': base['outputs_changed'][:10],
                                    'stderr_head': stderr_head(base['stderr'], 300)}
    if base['exit'] != 0:
        if base['exit'] in CODE_TO_RULE and 'WOWM ERROR' in base['stderr']:
            r = chk.violation({'rule': 'unmodified-tree', 'outcome': 'rejected', 'exit': base['exit'], 'status_of_rule': CODE_TO_RULE[base['exit']]},
                              {'stderr': base['stderr'][:3000], 'how': 'run the generator on an unmodified copy of the repository'})
            chk.count('unmodified:' + r)
        else:
            raise common.Inconclusive(f'the generator does not finish on the unmodified tree (exit {base["exit"]}): {base["stderr"][-600:]}')
    else:
        chk.ok(('unmodified-tree',), sample={'case': 'unmodified tree', 'exit': 0, 'files_changed_by_the_run': len(base['outputs_changed'])})
        chk.count('unmodified:accepted')

    # ---- cross-check of the table against the project's own must_err tests (informative)
    cc = []
    for fname, const, r in cross:
        rule = CONST_TO_RULE.get(const)
        want = STATUS[rule][0] if rule else None
        cc.append({'file': fname, 'constant': const, 'table': want, 'observed_exit': r['exit'],
                   'agrees': want is not None and r['exit'] == want})
    chk.extra['table_crosscheck'] = {'pairs': len(cc), 'agree': sum(1 for c in cc if c['agrees']),
                                     'constants_not_in_table': sorted({c['constant'] for c in cc if c['table'] is None}),
                                     'rules_without_must_err_file': sorted(set(STATUS) - {CONST_TO_RULE.get(c['constant']) for c in cc}),
                                     'disagreements': [c for c in cc if not c['agrees']],
                                     'note': 'each must_err file is dropped into wowm/world/ of an otherwise unmodified tree; the files were written to be '
                                             'loaded alone, so a different rule may fire first in the full corpus (e.g. a name that already exists)'}

    # ---- mutants
    per_rule = collections.defaultdict(collections.Counter)
    per_variant = collections.defaultdict(collections.Counter)
    demo_written = set()
    pairs_seen = set()
    late_outputs = collections.Counter()
    samples_by_rule = {}
    for m, res in results:
        if res['exit'] is None:
            chk.inconclusive.append(f'generator timed out on mutant {m["rule"]} {m["file"]}')
            continue
        holds, obs = judge(m, res)
        per_rule[m['rule']][obs['outcome']] += 1
        per_variant[f'{m["rule"]}/{m["variant"]}'][obs['outcome']] += 1
        pairs_seen.add((m['rule'], m['site']))
        sample = {'rule': m['rule'], 'variant': m['variant'], 'site': m['site'], 'mutation': diff_of(m)[:3], 'what': m['desc'],
                  'expected_exit': STATUS[m['rule']][0], 'exit': res['exit'], 'stderr_head': stderr_head(res['stderr'], 400),
                  'outputs_already_rewritten': len(res['outputs_changed'])}
        if holds:
            chk.count('ok')
            if res['outputs_changed']:
                late_outputs[m['rule']] += 1
            if m['rule'] not in samples_by_rule:
                samples_by_rule[m['rule']] = sample
            chk.ok((m['rule'], m['file'], m['site']), sample=sample if samples_by_rule[m['rule']] is sample else None)
        else:
            r = chk.violation(obs, {'mutant': m, 'expected_exit': STATUS[m['rule']][0], 'observed_exit': res['exit'],
                                    'stderr': res['stderr'][:3000], 'mutation': diff_of(m), 'reference_checker': m.get('ref_violations'),
                                    'outputs_already_rewritten': res['outputs_changed'][:20],
                                    'how': 'python3 check.py C16 --replay <this file>'})
            chk.count(r)
            if r == 'known':
                chk.distinct.add((m['rule'], m['file'], m['site']))
                k = common.match_known(chk.known, obs)
                if k is not None and k['id'] not in demo_written and not replay:
                    # one replayable demonstration per recorded defect (known findings get no replay file otherwise)
                    demo_written.add(k['id'])
                    with open(os.path.join(common.REPLAYS, 'C16', f'known-{k["id"]}.json'), 'w') as f:
                        json.dump({'property': 'C16', 'tier': tier, 'seed': common.seed(), 'finding': k['id'], 'observation': obs, 'mutant': m,
                                   'expected_exit': STATUS[m['rule']][0], 'observed_exit': res['exit'], 'stderr': res['stderr'][:3000],
                                   'mutation': diff_of(m), 'reference_checker': m.get('ref_violations'),
                                   'how': 'python3 check.py C16 --replay <this file>'}, f, indent=1, default=str)
    chk.extra['mutants_per_rule'] = {r: {'status': STATUS[r][0], 'executed': sum(c.values()), **dict(c)} for r, c in per_rule.items()}
    chk.extra['outcomes_per_rule_and_variant'] = {k: dict(c) for k, c in sorted(per_variant.items())}
    chk.extra['rule_site_class_pairs'] = len(pairs_seen)
    chk.extra['site_classes_per_rule'] = {r: len({s for rr, s in pairs_seen if rr == r}) for r in per_rule}
    chk.extra['selection'] = sel_stats
    chk.extra['rules_firing_after_outputs_were_rewritten'] = dict(late_outputs)
    chk.extra['one_sample_per_rule'] = [samples_by_rule[r] for r in STATUS if r in samples_by_rule][:22]
    chk.extra['status_table'] = {r: c for r, (c, _) in STATUS.items()}
    missing = [r for r in STATUS if r not in per_rule] if not replay else []
    if missing:
        chk.inconclusive.append(f'no mutant executed for rules {missing}')
    chk.assumptions += [
        'rule -> exit status table transcribed from wow_message_parser/src/error_printer/mod.rs (not published in the documentation); '
        'cross-checked per run against tests/must_err/*.wowm <-> src/test.rs (see table_crosscheck)',
        'a mutant counts only if the independent reference checker (ref/mutate.py, written from lang-spec.md, tags.md, '
        'versioning-with-tags.md) finds exactly the intended rule broken and nothing else; the same checker finds no rule broken in the unmodified corpus',
        'u48 is accepted as a definer base type (used by the corpus, absent from the spec list); optional-statement names and field names are '
        'treated as separate namespaces because the corpus itself uses `optional action_bars { ... u32[10] action_bars; }` (SMSG_PET_SPELLS) although '
        'lang-spec.md says they share one',
        'overlap-tags (status 23: one object listing overlapping versions) and flag-signed (21) are judged although only the latter is spelled out in the spec',
        'members of tested login containers are mutated together with the removal of the tests that describe them (tests are optional statements)',
    ]
    return chk.finish()
