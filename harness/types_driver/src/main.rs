//! types_driver: calls the public API of the repository's generated enum and flag types and logs
//! what they returned.  Contains no expectations: which values are declared, what a constant
//! should be, what `set_x` should produce is decided offline (monitors/c11.py, c12.py) from the
//! wowm text.  The type tables (src/gen/*.rs) are GENERATED from the scraped API surface.
//!
//! Summaries only group observations by input-relative quantities (error value minus input,
//! result minus input, position of the input relative to the base type's range) or digest result
//! streams (CRC-32); the classes and digests are judged in Python.
//!
//! apis (columns after id, api):
//!   enum_meta   type
//!   enum_vals   type src v,v,...          per-input results (src = from_int | u8 | ... | usize)
//!   enum_sweep  type src lo hi            every input in [lo, hi]
//!   enum_rand   type src seed n a,a,...   n pseudo random inputs shaped around the anchors
//!   flag_meta   type
//!   flag_vals   type raw,raw,...          (hex) every accessor / operator per raw value
//!   flag_bulk   type file n               raw values from a lane file; CRC-32 per result stream
//!   flag_conv_vals  type src v,v,...
//!   flag_conv_sweep type src lo hi
//!   flag_conv_rand  type src seed n
#![allow(clippy::all)]
#![allow(non_snake_case, non_camel_case_types, dead_code, unused_macros, unused_imports)]

use mon::jstr;
use std::collections::BTreeMap;
use std::fmt::Write as _;

// ------------------------------------------------------------------------------------------------
// type-erased descriptors filled in by the generated tables

pub struct Res {
    pub ok: bool,
    /// Ok: `as_int()` of the returned variant (i128::MIN when `as_int` is not public); Err: error value
    pub val: i128,
    /// Ok: position of the returned variant in `variants()` (-1: not listed)
    pub idx: i32,
    /// Debug text of the returned variant when it is not listed in `variants()`
    pub dbg: Option<String>,
}

pub type EnumConv = fn(i128) -> Option<Res>;

pub struct EnumDesc {
    pub id: &'static str,
    pub base: &'static str,
    pub variants: fn() -> Vec<(String, i128)>,
    pub conv: &'static [(&'static str, EnumConv)],
}

pub trait ErrLike {
    fn value(&self) -> i128;
}
impl ErrLike for wow_world_base::EnumError {
    fn value(&self) -> i128 {
        self.value
    }
}
impl ErrLike for wow_login_messages::errors::EnumError {
    fn value(&self) -> i128 {
        self.value
    }
}

pub const NO_INT: i128 = i128::MIN;

pub fn erase<T: PartialEq + std::fmt::Debug, E: ErrLike, const N: usize>(r: Result<T, E>, variants: fn() -> [T; N], as_int: fn(&T) -> i128) -> Res {
    match r {
        Ok(v) => {
            let idx = variants().iter().position(|x| *x == v).map(|p| p as i32).unwrap_or(-1);
            let dbg = if idx < 0 { Some(format!("{:?}", v)) } else { None };
            Res { ok: true, val: as_int(&v), idx, dbg }
        }
        Err(e) => Res { ok: false, val: e.value(), idx: -1, dbg: None },
    }
}

pub fn no_int<T>(_: &T) -> i128 {
    NO_INT
}

/// result of a flag integer conversion
pub enum CRes {
    Ok(u128),
    Err(i128),
}

pub type FlagConv = fn(i128) -> Option<CRes>;

pub struct Acc {
    /// accessor suffix (`is_<fname>` ...), label of the argument used (else-if enum variant) or ""
    pub fname: &'static str,
    pub label: &'static str,
    /// value of the associated constant when the type has one
    pub cval: Option<u128>,
    /// 0/1 for bool queries, 2/3 for None/Some getters
    pub is: Option<fn(u128) -> u8>,
    pub new: Option<fn() -> (u128, u8)>,
    /// (returned value, receiver afterwards, query on the returned value)
    pub set: Option<fn(u128) -> (u128, u128, u8)>,
    pub clear: Option<fn(u128) -> (u128, u128, u8)>,
}

pub struct FlagDesc {
    pub id: &'static str,
    pub carrier: &'static str,
    pub bits: u32,
    /// new(raw) observed again
    pub new_get: fn(u128) -> u128,
    pub empty: Option<fn() -> u128>,
    pub is_empty: Option<fn(u128) -> bool>,
    pub all: Option<fn() -> u128>,
    pub default: Option<fn() -> u128>,
    pub consts: &'static [(&'static str, u128)],
    pub acc: &'static [Acc],
    pub ops: &'static [(&'static str, fn(u128, u128) -> u128)],
    pub conv: &'static [(&'static str, &'static str, FlagConv)],
}

/// Extracts the integer printed after `inner: ` from a derived Debug impl without formatting the rest.
pub struct InnerSink {
    state: u8,
    matched: usize,
    pub value: u128,
    pub found: bool,
}
impl InnerSink {
    pub fn new() -> Self {
        InnerSink { state: 0, matched: 0, value: 0, found: false }
    }
}
const INNER_PAT: &[u8] = b"inner: ";
impl std::fmt::Write for InnerSink {
    fn write_str(&mut self, s: &str) -> std::fmt::Result {
        for &b in s.as_bytes() {
            match self.state {
                0 => {
                    if b == INNER_PAT[self.matched] {
                        self.matched += 1;
                        if self.matched == INNER_PAT.len() {
                            self.state = 1;
                        }
                    } else {
                        self.matched = if b == INNER_PAT[0] { 1 } else { 0 };
                    }
                }
                1 => {
                    if b.is_ascii_digit() {
                        self.value = self.value * 10 + (b - b'0') as u128;
                        self.found = true;
                    } else {
                        self.state = 2;
                        return Err(std::fmt::Error);
                    }
                }
                _ => return Err(std::fmt::Error),
            }
        }
        Ok(())
    }
}

pub fn dbg_inner<T: std::fmt::Debug>(x: &T) -> u128 {
    let mut s = InnerSink::new();
    let _ = write!(s, "{:?}", x);
    if s.found {
        s.value
    } else {
        u128::MAX
    }
}

pub fn hex_inner<T: std::fmt::LowerHex>(x: &T) -> u128 {
    u128::from_str_radix(&format!("{:x}", x), 16).unwrap_or(u128::MAX)
}

// ------------------------------------------------------------------------------------------------
// generated tables

#[cfg(has_gen)]
mod gen;
#[cfg(not(has_gen))]
mod gen {
    pub fn enums() -> Vec<&'static [crate::EnumDesc]> {
        Vec::new()
    }
    pub fn flags() -> Vec<&'static [crate::FlagDesc]> {
        Vec::new()
    }
}

fn find_enum(id: &str) -> Option<&'static EnumDesc> {
    for t in gen::enums() {
        for d in t.iter() {
            if d.id == id {
                return Some(d);
            }
        }
    }
    None
}

fn find_flag(id: &str) -> Option<&'static FlagDesc> {
    for t in gen::flags() {
        for d in t.iter() {
            if d.id == id {
                return Some(d);
            }
        }
    }
    None
}

// ------------------------------------------------------------------------------------------------
// helpers

fn splitmix(state: &mut u64) -> u64 {
    *state = state.wrapping_add(0x9E3779B97F4A7C15);
    let mut z = *state;
    z = (z ^ (z >> 30)).wrapping_mul(0xBF58476D1CE4E5B9);
    z = (z ^ (z >> 27)).wrapping_mul(0x94D049BB133111EB);
    z ^ (z >> 31)
}

fn int_range(ty: &str) -> (i128, i128) {
    match ty {
        "u8" => (0, u8::MAX as i128),
        "u16" => (0, u16::MAX as i128),
        "u32" => (0, u32::MAX as i128),
        "u64" => (0, u64::MAX as i128),
        "usize" => (0, usize::MAX as i128),
        "i8" => (i8::MIN as i128, i8::MAX as i128),
        "i16" => (i16::MIN as i128, i16::MAX as i128),
        "i32" => (i32::MIN as i128, i32::MAX as i128),
        "i64" => (i64::MIN as i128, i64::MAX as i128),
        _ => (0, 0),
    }
}

fn region(v: i128, range: (i128, i128)) -> i8 {
    if v < range.0 {
        -1
    } else if v > range.1 {
        1
    } else {
        0
    }
}

fn parse_list(s: &str) -> Vec<i128> {
    s.split(',').filter(|x| !x.is_empty()).filter_map(|x| x.trim().parse::<i128>().ok()).collect()
}

fn crc_table() -> &'static [u32; 256] {
    static T: std::sync::OnceLock<[u32; 256]> = std::sync::OnceLock::new();
    T.get_or_init(|| {
        let mut t = [0u32; 256];
        for i in 0..256u32 {
            let mut c = i;
            for _ in 0..8 {
                c = if c & 1 != 0 { 0xEDB88320 ^ (c >> 1) } else { c >> 1 };
            }
            t[i as usize] = c;
        }
        t
    })
}

struct Crc(u32);
impl Crc {
    fn new() -> Self {
        Crc(0xFFFF_FFFF)
    }
    fn lane(&mut self, v: u128, lane: usize) {
        let t = crc_table();
        let b = v.to_le_bytes();
        let mut c = self.0;
        for &x in &b[..lane] {
            c = t[((c ^ x as u32) & 0xFF) as usize] ^ (c >> 8);
        }
        self.0 = c;
    }
    fn get(&self) -> u32 {
        self.0 ^ 0xFFFF_FFFF
    }
}

// ------------------------------------------------------------------------------------------------
// enums

#[derive(Default)]
struct EnumSummary {
    n: u64,
    acc: BTreeMap<i128, (i32, i128, u64)>,
    acc_overflow: u64,
    unk: Vec<(i128, String)>,
    rej: u64,
    rejc: BTreeMap<(i128, i8), (u64, i128, i128)>,
    rejc_overflow: u64,
    unsupported: u64,
    /// class of the most recent rejections, not yet merged into `rejc` (consecutive inputs mostly share it)
    last: Option<((i128, i8), (u64, i128, i128))>,
}

impl EnumSummary {
    #[inline(always)]
    fn add(&mut self, input: i128, r: Option<Res>, cap: usize, base_range: (i128, i128)) {
        // hot path: a rejection of the same class as the previous one
        if let Some(Res { ok: false, val, .. }) = &r {
            if let Some((k, e)) = self.last.as_mut() {
                if k.0 == val.wrapping_sub(input) && k.1 == region(input, base_range) {
                    self.n += 1;
                    self.rej += 1;
                    e.0 += 1;
                    if input < e.1 {
                        e.1 = input;
                    }
                    if input > e.2 {
                        e.2 = input;
                    }
                    return;
                }
            }
        }
        self.add_slow(input, r, cap, base_range)
    }
    #[inline(never)]
    fn add_slow(&mut self, input: i128, r: Option<Res>, cap: usize, base_range: (i128, i128)) {
        let Some(r) = r else {
            self.unsupported += 1;
            return;
        };
        self.n += 1;
        if r.ok {
            if let Some(d) = r.dbg {
                if self.unk.len() < 8 {
                    self.unk.push((input, d));
                }
            }
            if let Some(e) = self.acc.get_mut(&input) {
                if e.0 == r.idx && e.1 == r.val {
                    e.2 += 1;
                } else {
                    // the same input gave two different results
                    self.acc_overflow += 1;
                }
            } else if self.acc.len() < cap {
                self.acc.insert(input, (r.idx, r.val, 1));
            } else {
                self.acc_overflow += 1;
            }
        } else {
            self.rej += 1;
            let key = (r.val.wrapping_sub(input), region(input, base_range));
            self.flush();
            self.last = Some((key, (1, input, input)));
        }
    }
    fn flush(&mut self) {
        if let Some((key, (cnt, lo, hi))) = self.last.take() {
            if let Some(e) = self.rejc.get_mut(&key) {
                e.0 += cnt;
                e.1 = e.1.min(lo);
                e.2 = e.2.max(hi);
            } else if self.rejc.len() < 64 {
                self.rejc.insert(key, (cnt, lo, hi));
            } else {
                self.rejc_overflow += cnt;
            }
        }
    }
    fn json(&mut self) -> String {
        self.flush();
        let mut s = format!("\"result\":\"ok\",\"n\":{},\"unsupported\":{},\"acc\":[", self.n, self.unsupported);
        for (i, (inp, (idx, val, cnt))) in self.acc.iter().enumerate() {
            if i > 0 {
                s.push(',');
            }
            let _ = write!(s, "[{},{},{},{}]", inp, idx, val, cnt);
        }
        let _ = write!(s, "],\"acc_overflow\":{},\"unk\":[", self.acc_overflow);
        for (i, (inp, d)) in self.unk.iter().enumerate() {
            if i > 0 {
                s.push(',');
            }
            let _ = write!(s, "[{},{}]", inp, jstr(d));
        }
        let _ = write!(s, "],\"rej\":{},\"rejc\":[", self.rej);
        for (i, ((d, reg), (cnt, lo, hi))) in self.rejc.iter().enumerate() {
            if i > 0 {
                s.push(',');
            }
            let _ = write!(s, "[{},{},{},{},{}]", d, reg, cnt, lo, hi);
        }
        let _ = write!(s, "],\"rejc_overflow\":{}", self.rejc_overflow);
        s
    }
}

fn enum_conv(d: &'static EnumDesc, src: &str) -> Option<EnumConv> {
    d.conv.iter().find(|(n, _)| *n == src).map(|(_, f)| *f)
}

fn enum_api(api: &str, cols: &[&str]) -> String {
    let Some(d) = cols.first().and_then(|id| find_enum(id)) else {
        return "\"result\":\"no_such_type\"".to_string();
    };
    if api == "enum_meta" {
        let vs = (d.variants)();
        let mut s = format!("\"result\":\"ok\",\"base\":{},\"variants\":[", jstr(d.base));
        for (i, (n, v)) in vs.iter().enumerate() {
            if i > 0 {
                s.push(',');
            }
            if *v == NO_INT {
                let _ = write!(s, "[{},null]", jstr(n));
            } else {
                let _ = write!(s, "[{},{}]", jstr(n), v);
            }
        }
        s.push_str("],\"srcs\":[");
        for (i, (n, _)) in d.conv.iter().enumerate() {
            if i > 0 {
                s.push(',');
            }
            s.push_str(&jstr(n));
        }
        s.push(']');
        return s;
    }
    let src = cols.get(1).copied().unwrap_or("");
    let Some(f) = enum_conv(d, src) else {
        return "\"result\":\"no_such_conversion\"".to_string();
    };
    let base_range = int_range(d.base);
    match api {
        "enum_vals" => {
            let mut s = String::from("\"result\":\"ok\",\"r\":[");
            for (i, v) in parse_list(cols.get(2).copied().unwrap_or("")).into_iter().enumerate() {
                if i > 0 {
                    s.push(',');
                }
                match f(v) {
                    None => {
                        let _ = write!(s, "[{},-1,0,-1,null]", v);
                    }
                    Some(r) => {
                        let val = if r.val == NO_INT { "null".to_string() } else { r.val.to_string() };
                        let dbg = r.dbg.as_deref().map(jstr).unwrap_or_else(|| "null".to_string());
                        let _ = write!(s, "[{},{},{},{},{}]", v, r.ok as u8, val, r.idx, dbg);
                    }
                }
            }
            s.push(']');
            s
        }
        "enum_sweep" => {
            let lo: i128 = cols.get(2).and_then(|x| x.parse().ok()).unwrap_or(0);
            let hi: i128 = cols.get(3).and_then(|x| x.parse().ok()).unwrap_or(-1);
            let cap = (d.variants)().len() * 2 + 64;
            let mut sm = EnumSummary::default();
            let mut v = lo;
            while v <= hi {
                sm.add(v, f(v), cap, base_range);
                v += 1;
            }
            sm.json()
        }
        "enum_rand" => {
            let mut st: u64 = cols.get(2).and_then(|x| x.parse().ok()).unwrap_or(1);
            let n: u64 = cols.get(3).and_then(|x| x.parse().ok()).unwrap_or(0);
            let anchors = parse_list(cols.get(4).copied().unwrap_or(""));
            let (slo, shi) = int_range(if src == "from_int" { d.base } else { src });
            let span = (shi - slo + 1) as u128;
            let amax = anchors.iter().copied().max().unwrap_or(0).max(16);
            let cap = (d.variants)().len() * 2 + 64;
            let mut sm = EnumSummary::default();
            for _ in 0..n {
                let r = splitmix(&mut st);
                let r2 = splitmix(&mut st);
                let v: i128 = match r & 3 {
                    // uniform over the whole source type
                    0 | 1 => slo + (((r2 as u128) | ((r as u128) << 64)) % span) as i128,
                    // small values around the declared range
                    2 => (r2 % ((amax as u64).saturating_mul(2).saturating_add(8))) as i128 - 4,
                    // a declared value plus a multiple of 2^8 / 2^16 / 2^32 or a small offset
                    _ => {
                        let a = if anchors.is_empty() { 0 } else { anchors[(r2 % anchors.len() as u64) as usize] };
                        let k = ((r2 >> 20) & 0xFFFF) as i128 + 1;
                        match (r >> 2) & 7 {
                            0 => a + (k << 8),
                            1 => a + (k << 16),
                            2 => a + (k << 32),
                            3 => a - (k << 8),
                            4 => a - (k << 32),
                            5 => a + (k & 3) - 1,
                            6 => a + (1i128 << 64) * (k & 1) + (k << 48),
                            _ => -a,
                        }
                    }
                };
                let v = v.clamp(slo, shi);
                sm.add(v, f(v), cap, base_range);
            }
            sm.json()
        }
        _ => "\"result\":\"no_such_api\"".to_string(),
    }
}

// ------------------------------------------------------------------------------------------------
// flags

fn opt_u128(v: Option<u128>) -> String {
    v.map(|x| x.to_string()).unwrap_or_else(|| "null".to_string())
}

fn lane_of(d: &FlagDesc) -> usize {
    (d.bits / 8) as usize + 1
}

#[derive(Default)]
struct ConvSummary {
    n: u64,
    unsupported: u64,
    classes: BTreeMap<(u8, i128, i8), (u64, i128, i128)>,
    overflow: u64,
}
impl ConvSummary {
    fn add(&mut self, input: i128, r: Option<CRes>, carrier_range: (i128, i128)) {
        let Some(r) = r else {
            self.unsupported += 1;
            return;
        };
        self.n += 1;
        let (kind, d) = match r {
            CRes::Ok(v) => (0u8, (v as i128).wrapping_sub(input)),
            CRes::Err(e) => (1u8, e.wrapping_sub(input)),
        };
        let key = (kind, d, region(input, carrier_range));
        if let Some(e) = self.classes.get_mut(&key) {
            e.0 += 1;
            e.1 = e.1.min(input);
            e.2 = e.2.max(input);
        } else if self.classes.len() < 64 {
            self.classes.insert(key, (1, input, input));
        } else {
            self.overflow += 1;
        }
    }
    fn json(&self) -> String {
        let mut s = format!("\"result\":\"ok\",\"n\":{},\"unsupported\":{},\"classes\":[", self.n, self.unsupported);
        for (i, ((k, d, reg), (cnt, lo, hi))) in self.classes.iter().enumerate() {
            if i > 0 {
                s.push(',');
            }
            let _ = write!(s, "[{},{},{},{},{},{}]", k, d, reg, cnt, lo, hi);
        }
        let _ = write!(s, "],\"overflow\":{}", self.overflow);
        s
    }
}

fn flag_api(api: &str, cols: &[&str]) -> String {
    let Some(d) = cols.first().and_then(|id| find_flag(id)) else {
        return "\"result\":\"no_such_type\"".to_string();
    };
    let carrier_range = int_range(d.carrier);
    match api {
        "flag_meta" => {
            let mut s = format!(
                "\"result\":\"ok\",\"carrier\":{},\"bits\":{},\"empty\":{},\"all\":{},\"default\":{},\"consts\":[",
                jstr(d.carrier),
                d.bits,
                opt_u128(d.empty.map(|f| f())),
                opt_u128(d.all.map(|f| f())),
                opt_u128(d.default.map(|f| f()))
            );
            for (i, (n, v)) in d.consts.iter().enumerate() {
                if i > 0 {
                    s.push(',');
                }
                let _ = write!(s, "[{},{}]", jstr(n), v);
            }
            s.push_str("],\"acc\":[");
            for (i, a) in d.acc.iter().enumerate() {
                if i > 0 {
                    s.push(',');
                }
                let new = a.new.map(|f| f());
                let _ = write!(
                    s,
                    "{{\"fname\":{},\"label\":{},\"cval\":{},\"has\":[{},{},{},{}],\"new\":{}}}",
                    jstr(a.fname),
                    jstr(a.label),
                    opt_u128(a.cval),
                    a.is.is_some() as u8,
                    a.new.is_some() as u8,
                    a.set.is_some() as u8,
                    a.clear.is_some() as u8,
                    new.map(|(v, q)| format!("[{},{}]", v, q)).unwrap_or_else(|| "null".to_string())
                );
            }
            s.push_str("],\"ops\":[");
            for (i, (n, _)) in d.ops.iter().enumerate() {
                if i > 0 {
                    s.push(',');
                }
                s.push_str(&jstr(n));
            }
            s.push_str("],\"conv\":[");
            for (i, (n, k, _)) in d.conv.iter().enumerate() {
                if i > 0 {
                    s.push(',');
                }
                let _ = write!(s, "[{},{}]", jstr(n), jstr(k));
            }
            s.push(']');
            s
        }
        "flag_vals" => {
            let raws: Vec<u128> = cols
                .get(1)
                .copied()
                .unwrap_or("")
                .split(',')
                .filter(|x| !x.is_empty())
                .filter_map(|x| u128::from_str_radix(x, 16).ok())
                .collect();
            let mut s = String::from("\"result\":\"ok\",\"r\":[");
            for (i, &raw) in raws.iter().enumerate() {
                if i > 0 {
                    s.push(',');
                }
                let partner = raws[(i + 1) % raws.len()];
                let _ = write!(
                    s,
                    "{{\"raw\":{},\"new_get\":{},\"is_empty\":{},\"acc\":[",
                    raw,
                    (d.new_get)(raw),
                    d.is_empty.map(|f| (f(raw) as u8).to_string()).unwrap_or_else(|| "null".to_string())
                );
                for (k, a) in d.acc.iter().enumerate() {
                    if k > 0 {
                        s.push(',');
                    }
                    let is = a.is.map(|f| f(raw).to_string()).unwrap_or_else(|| "null".to_string());
                    let set = a.set.map(|f| f(raw)).map(|(r, me, q)| format!("[{},{},{}]", r, me, q)).unwrap_or_else(|| "null".to_string());
                    let clr = a.clear.map(|f| f(raw)).map(|(r, me, q)| format!("[{},{},{}]", r, me, q)).unwrap_or_else(|| "null".to_string());
                    let _ = write!(s, "[{},{},{}]", is, set, clr);
                }
                let _ = write!(s, "],\"partner\":{},\"ops\":[", partner);
                for (k, (_, f)) in d.ops.iter().enumerate() {
                    if k > 0 {
                        s.push(',');
                    }
                    let _ = write!(s, "{}", f(raw, partner));
                }
                s.push_str("]}");
            }
            s.push(']');
            s
        }
        "flag_bulk" => {
            let path = cols.get(1).copied().unwrap_or("");
            let n: usize = cols.get(2).and_then(|x| x.parse().ok()).unwrap_or(0);
            let lane = lane_of(d);
            let Ok(bytes) = std::fs::read(path) else {
                return "\"result\":\"no_raw_file\"".to_string();
            };
            if bytes.len() < n * lane {
                return "\"result\":\"short_raw_file\"".to_string();
            }
            let raws: Vec<u128> = (0..n)
                .map(|i| {
                    let mut b = [0u8; 16];
                    b[..lane].copy_from_slice(&bytes[i * lane..(i + 1) * lane]);
                    u128::from_le_bytes(b)
                })
                .collect();
            let mut s = format!("\"result\":\"ok\",\"n\":{},\"lane\":{},\"crc\":{{", n, lane);
            let mut first = true;
            let mut put = |s: &mut String, key: &str, c: &Crc| {
                if !first {
                    s.push(',');
                }
                first = false;
                let _ = write!(s, "{}:{}", jstr(key), c.get());
            };
            let mut c = Crc::new();
            for &r in &raws {
                c.lane((d.new_get)(r), lane);
            }
            put(&mut s, "new_get", &c);
            if let Some(f) = d.is_empty {
                let mut c = Crc::new();
                for &r in &raws {
                    c.lane(f(r) as u128, lane);
                }
                put(&mut s, "is_empty", &c);
            }
            for (k, a) in d.acc.iter().enumerate() {
                if let Some(f) = a.is {
                    let mut c = Crc::new();
                    for &r in &raws {
                        c.lane(f(r) as u128, lane);
                    }
                    put(&mut s, &format!("{}:is", k), &c);
                }
                if let Some(f) = a.set {
                    let (mut c1, mut c2) = (Crc::new(), Crc::new());
                    for &r in &raws {
                        let (ret, me, _) = f(r);
                        c1.lane(ret, lane);
                        c2.lane(me, lane);
                    }
                    put(&mut s, &format!("{}:set_ret", k), &c1);
                    put(&mut s, &format!("{}:set_self", k), &c2);
                }
                if let Some(f) = a.clear {
                    let (mut c1, mut c2) = (Crc::new(), Crc::new());
                    for &r in &raws {
                        let (ret, me, _) = f(r);
                        c1.lane(ret, lane);
                        c2.lane(me, lane);
                    }
                    put(&mut s, &format!("{}:clear_ret", k), &c1);
                    put(&mut s, &format!("{}:clear_self", k), &c2);
                }
            }
            for (name, f) in d.ops.iter() {
                let mut c = Crc::new();
                for i in 0..n {
                    c.lane(f(raws[i], raws[(i + 1) % n]), lane);
                }
                put(&mut s, &format!("op:{}", name), &c);
            }
            s.push('}');
            s
        }
        "flag_conv_vals" | "flag_conv_sweep" | "flag_conv_rand" => {
            let src = cols.get(1).copied().unwrap_or("");
            let Some(f) = d.conv.iter().find(|(n, _, _)| *n == src).map(|(_, _, f)| *f) else {
                return "\"result\":\"no_such_conversion\"".to_string();
            };
            if api == "flag_conv_vals" {
                let mut s = String::from("\"result\":\"ok\",\"r\":[");
                for (i, v) in parse_list(cols.get(2).copied().unwrap_or("")).into_iter().enumerate() {
                    if i > 0 {
                        s.push(',');
                    }
                    match f(v) {
                        None => {
                            let _ = write!(s, "[{},-1,0]", v);
                        }
                        Some(CRes::Ok(x)) => {
                            let _ = write!(s, "[{},0,{}]", v, x);
                        }
                        Some(CRes::Err(e)) => {
                            let _ = write!(s, "[{},1,{}]", v, e);
                        }
                    }
                }
                s.push(']');
                return s;
            }
            let mut sm = ConvSummary::default();
            if api == "flag_conv_sweep" {
                let lo: i128 = cols.get(2).and_then(|x| x.parse().ok()).unwrap_or(0);
                let hi: i128 = cols.get(3).and_then(|x| x.parse().ok()).unwrap_or(-1);
                let mut v = lo;
                while v <= hi {
                    sm.add(v, f(v), carrier_range);
                    v += 1;
                }
            } else {
                let mut st: u64 = cols.get(2).and_then(|x| x.parse().ok()).unwrap_or(1);
                let n: u64 = cols.get(3).and_then(|x| x.parse().ok()).unwrap_or(0);
                let (slo, shi) = int_range(src);
                let span = (shi - slo + 1) as u128;
                for _ in 0..n {
                    let r = splitmix(&mut st);
                    let r2 = splitmix(&mut st);
                    let v: i128 = match r & 3 {
                        0 | 1 => slo + (((r2 as u128) | ((r as u128) << 64)) % span) as i128,
                        2 => (r2 % 70000) as i128 - 300,
                        _ => {
                            // around the carrier's limits
                            let k = (r2 % 2048) as i128 - 1024;
                            if r & 4 != 0 {
                                carrier_range.1 + k
                            } else {
                                (carrier_range.1 >> 1) + k
                            }
                        }
                    };
                    let v = v.clamp(slo, shi);
                    sm.add(v, f(v), carrier_range);
                }
            }
            sm.json()
        }
        _ => "\"result\":\"no_such_api\"".to_string(),
    }
}

fn handler(_id: &str, api: &str, cols: &[&str]) -> String {
    if api == "inventory" {
        let mut s = String::from("\"result\":\"ok\",\"enums\":[");
        let mut first = true;
        for t in gen::enums() {
            for d in t.iter() {
                if !first {
                    s.push(',');
                }
                first = false;
                s.push_str(&jstr(d.id));
            }
        }
        s.push_str("],\"flags\":[");
        first = true;
        for t in gen::flags() {
            for d in t.iter() {
                if !first {
                    s.push(',');
                }
                first = false;
                s.push_str(&jstr(d.id));
            }
        }
        s.push(']');
        return s;
    }
    if api.starts_with("enum_") {
        enum_api(api, cols)
    } else if api.starts_with("flag_") {
        flag_api(api, cols)
    } else {
        "\"result\":\"no_such_api\"".to_string()
    }
}

fn main() {
    mon::main(handler);
}
