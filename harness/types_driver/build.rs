// Tells main.rs whether the generated tables (src/gen/mod.rs, written by monitors/typesgen.py) exist.
fn main() {
    println!("cargo:rerun-if-changed=src/gen");
    println!("cargo:rerun-if-changed=build.rs");
    println!("cargo:rustc-check-cfg=cfg(has_gen)");
    if std::path::Path::new("src/gen/mod.rs").exists() {
        println!("cargo:rustc-cfg=has_gen");
    }
}
