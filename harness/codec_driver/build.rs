// Scrapes the *API surface* (variant and type names of the opcode enums) from the repository's
// generated sources so the driver can name every message type.  No expected values come from here.
use std::fmt::Write as _;
use std::path::PathBuf;

fn variants(src: &str, enum_name: &str) -> Vec<(String, Option<String>)> {
    let mut out = Vec::new();
    let start = match src.find(&format!("pub enum {} {{", enum_name)) {
        Some(s) => s,
        None => return out,
    };
    for line in src[start..].lines().skip(1) {
        let t = line.trim();
        if t.starts_with('}') {
            break;
        }
        if t.is_empty() || t.starts_with("//") || t.starts_with('#') {
            continue;
        }
        let t = t.trim_end_matches(',');
        if let Some(p) = t.find('(') {
            let name = t[..p].to_string();
            let mut ty = t[p + 1..t.len() - 1].to_string();
            if let Some(inner) = ty.strip_prefix("Box<") {
                ty = inner.trim_end_matches('>').to_string();
            }
            out.push((name, Some(ty)));
        } else {
            out.push((t.to_string(), None));
        }
    }
    out
}

fn main() {
    let repo = PathBuf::from(std::env::var("WOWM_REPO").unwrap_or_else(|_| "/repo".into()));
    println!("cargo:rerun-if-env-changed=WOWM_REPO");
    let mut g = String::new();
    for exp in ["vanilla", "tbc", "wrath"] {
        // only expansions enabled as cargo features of this driver get a table (C19 builds subsets)
        if std::env::var_os(format!("CARGO_FEATURE_{}", exp.to_uppercase())).is_none() {
            continue;
        }
        let p = repo.join(format!("wow_world_messages/src/world/{}/opcodes.rs", exp));
        println!("cargo:rerun-if-changed={}", p.display());
        let src = std::fs::read_to_string(&p).unwrap_or_default();
        let _ = write!(g, "world_table!({}", exp);
        for en in ["ClientOpcodeMessage", "ServerOpcodeMessage"] {
            let _ = writeln!(g, ", [");
            let pat = format!(" for {} {{", en);
            for line in src.lines() {
                if let Some(rest) = line.strip_prefix("impl From<") {
                    if let Some(p) = rest.find('>') {
                        if rest[p..].contains(&pat) {
                            let _ = writeln!(g, "    {},", &rest[..p]);
                        }
                    }
                }
            }
            let _ = write!(g, "]");
        }
        let _ = writeln!(g, ");");
    }
    for v in [2, 3, 5, 6, 7, 8] {
        let p = repo.join(format!("wow_login_messages/src/logon/version_{}/opcodes.rs", v));
        println!("cargo:rerun-if-changed={}", p.display());
        let src = std::fs::read_to_string(&p).unwrap_or_default();
        let _ = write!(g, "login_table!(version_{}, {}", v, v);
        for en in ["ClientOpcodeMessage", "ServerOpcodeMessage"] {
            let vs = variants(&src, en);
            let _ = writeln!(g, ", [");
            for (name, ty) in &vs {
                if let Some(ty) = ty {
                    let _ = writeln!(g, "    ({}, {}),", name, ty);
                }
            }
            let _ = writeln!(g, "], [");
            for (name, ty) in &vs {
                if ty.is_none() {
                    let _ = writeln!(g, "    {},", name);
                }
            }
            let _ = write!(g, "]");
        }
        let _ = writeln!(g, ");");
    }
    let out = PathBuf::from(std::env::var("OUT_DIR").unwrap()).join("tables.rs");
    std::fs::write(out, g).unwrap();
}
