//! codec_driver: runs the repository's sync codecs on inputs named in a TSV file and logs
//! observations.  Contains no expectations.
//!
//! apis (columns after id, api):
//!   W.read    exp dir hex                 opcode-enum read_unencrypted -> write -> second cycle
//!   W.stream  exp dir reader crypt names hex
//!             reader = enum | expect ; crypt = plain | enc:<40-byte key hex> ; names = a,b,c | -
//!   W.build   exp dir kind len crypt      typed construction of an elastic message, all writers + read back
//!   L.read    ver dir hex                 login opcode-enum read -> write -> second cycle
//!   L.expect  ver dir name hex            typed expect_{client,server}_message -> write
//!   L.initial hex                         helper::read_initial_message
#![allow(clippy::all)]
#![allow(non_snake_case)]

use mon::{hex, jstr, unhex};
use std::io::Cursor;

// ------------------------------------------------------------------------------------------------
// error description (values come from the error value itself, never from message text, except the
// coarse kind of source-less world errors)

/// name of the ParseErrorKind variant, taken from the derived Debug rendering (`kind: InvalidSize`): the field is private and
/// the Display wording is free to change
fn debug_kind(dbg: &str) -> Option<&str> {
    let i = dbg.find("kind: ")? + 6;
    let rest = &dbg[i..];
    let end = rest.find(|c: char| !(c.is_ascii_alphanumeric() || c == '_')).unwrap_or(rest.len());
    if end == 0 { None } else { Some(&rest[..end]) }
}

fn world_parse_err(pe: &wow_world_messages::errors::ParseError) -> String {
    let text = format!("{}", pe);
    let dbg = format!("{:?}", pe);
    let dk = debug_kind(&dbg);
    let src = std::error::Error::source(pe);
    let (kind, extra) = match src {
        Some(s) => {
            if let Some(en) = s.downcast_ref::<wow_world_messages::errors::EnumError>() {
                ("Enum".to_string(), format!(",\"err_value\":{},\"err_enum\":{}", en.value, jstr(en.name)))
            } else if s.is::<std::string::FromUtf8Error>() {
                ("String".to_string(), String::new())
            } else if let Some(io) = s.downcast_ref::<std::io::Error>() {
                let k = match dk { Some("BufferSizeTooSmall") => "BufferSizeTooSmall", Some("Io") => "Io", _ => if text.contains("buffer too small") { "BufferSizeTooSmall" } else { "Io" } };
                (k.to_string(), format!(",\"io_kind\":\"{:?}\"", io.kind()))
            } else {
                ("DateTime".to_string(), String::new())
            }
        }
        None => {
            if dk == Some("InvalidSize") {
                ("InvalidSize".to_string(), String::new())
            } else if dk == Some("AllocationTooLargeError") {
                ("AllocationTooLarge".to_string(), String::new())
            } else if text.contains("invalid size") {
                ("InvalidSize".to_string(), String::new())
            } else if text.contains("attempts to allocate") {
                ("AllocationTooLarge".to_string(), String::new())
            } else {
                ("Unknown".to_string(), String::new())
            }
        }
    };
    format!("\"result\":\"err\",\"err_kind\":\"{}\"{},\"err_text\":{}", kind, extra, jstr(&text))
}

pub fn world_err(e: &wow_world_messages::errors::ExpectedOpcodeError) -> String {
    use wow_world_messages::errors::ExpectedOpcodeError as E;
    match e {
        E::Opcode { opcode, size, .. } => {
            format!("\"result\":\"err\",\"err_kind\":\"Opcode\",\"err_value\":{},\"err_size\":{}", opcode, size)
        }
        E::Io(io) => format!("\"result\":\"err\",\"err_kind\":\"Io\",\"io_kind\":\"{:?}\"", io.kind()),
        E::Parse(pe) => world_parse_err(pe),
    }
}

fn login_parse_err(pe: &wow_login_messages::errors::ParseError) -> String {
    let text = format!("{}", pe);
    let src = std::error::Error::source(pe);
    let (kind, extra) = match src {
        Some(s) => {
            if let Some(en) = s.downcast_ref::<wow_login_messages::errors::EnumError>() {
                ("Enum", format!(",\"err_value\":{},\"err_enum\":{}", en.value, jstr(en.name)))
            } else if s.is::<std::string::FromUtf8Error>() {
                ("String", String::new())
            } else if let Some(io) = s.downcast_ref::<std::io::Error>() {
                ("Io", format!(",\"io_kind\":\"{:?}\"", io.kind()))
            } else {
                ("Unknown", String::new())
            }
        }
        None => ("Unknown", String::new()),
    };
    format!("\"result\":\"err\",\"err_kind\":\"{}\"{},\"err_text\":{}", kind, extra, jstr(&text))
}

pub fn login_err(e: &wow_login_messages::errors::ExpectedOpcodeError) -> String {
    use wow_login_messages::errors::ExpectedOpcodeError as E;
    match e {
        E::Opcode(o) => format!("\"result\":\"err\",\"err_kind\":\"Opcode\",\"err_value\":{}", o),
        E::Io(io) => format!("\"result\":\"err\",\"err_kind\":\"Io\",\"io_kind\":\"{:?}\"", io.kind()),
        E::Parse(pe) => login_parse_err(pe),
    }
}

fn io_err(e: &std::io::Error) -> String {
    format!("\"write_err\":{}", jstr(&format!("{:?}", e.kind())))
}

/// hex for small outputs, length + fnv digest for big ones (the checker recomputes the digest)
pub fn out_field(name: &str, b: &[u8]) -> String {
    if b.len() <= 400000 {
        format!("\"{}\":\"{}\"", name, hex(b))
    } else {
        let mut h: u64 = 0xcbf29ce484222325;
        for &x in b {
            h ^= x as u64;
            h = h.wrapping_mul(0x100000001b3);
        }
        format!("\"{}_len\":{},\"{}_fnv\":\"{:016x}\",\"{}_head\":\"{}\"", name, b.len(), name, h, name, hex(&b[..16]))
    }
}

pub fn key40(s: &str) -> [u8; 40] {
    let v = unhex(s);
    let mut k = [0u8; 40];
    for (i, b) in v.iter().take(40).enumerate() {
        k[i] = *b;
    }
    k
}

// ------------------------------------------------------------------------------------------------
// header crypto construction through wow_srp's public constructors

#[cfg(feature = "encryption")]
pub mod crypto {
    use wow_srp::normalized_string::NormalizedString;
    #[cfg(feature = "vanilla")]
    pub mod vanilla {
        use super::NormalizedString;
        use wow_srp::vanilla_header::{DecrypterHalf, EncrypterHalf, ProofSeed};
        pub type CE = EncrypterHalf;
        pub type CD = DecrypterHalf;
        pub type SE = EncrypterHalf;
        pub type SD = DecrypterHalf;
        pub fn make(key: [u8; 40]) -> (CE, CD, SE, SD) {
            let user = NormalizedString::new("A").unwrap();
            let cs = ProofSeed::new();
            let ss = ProofSeed::new();
            let cseed = cs.seed();
            let (proof, cc) = cs.into_client_header_crypto(&user, key, ss.seed());
            let sc = ss.into_server_header_crypto(&user, key, proof, cseed).expect("proof");
            let (ce, cd) = cc.split();
            let (se, sd) = sc.split();
            (ce, cd, se, sd)
        }
    }
    #[cfg(feature = "tbc")]
    pub mod tbc {
        use super::NormalizedString;
        use wow_srp::tbc_header::{DecrypterHalf, EncrypterHalf, ProofSeed};
        pub type CE = EncrypterHalf;
        pub type CD = DecrypterHalf;
        pub type SE = EncrypterHalf;
        pub type SD = DecrypterHalf;
        pub fn make(key: [u8; 40]) -> (CE, CD, SE, SD) {
            let user = NormalizedString::new("A").unwrap();
            let cs = ProofSeed::new();
            let ss = ProofSeed::new();
            let cseed = cs.seed();
            let (proof, cc) = cs.into_client_header_crypto(&user, key, ss.seed());
            let sc = ss.into_server_header_crypto(&user, key, proof, cseed).expect("proof");
            let (ce, cd) = cc.split();
            let (se, sd) = sc.split();
            (ce, cd, se, sd)
        }
    }
    #[cfg(feature = "wrath")]
    pub mod wrath {
        use super::NormalizedString;
        use wow_srp::wrath_header::{ClientDecrypterHalf, ClientEncrypterHalf, ProofSeed, ServerDecrypterHalf, ServerEncrypterHalf};
        pub type CE = ClientEncrypterHalf;
        pub type CD = ClientDecrypterHalf;
        pub type SE = ServerEncrypterHalf;
        pub type SD = ServerDecrypterHalf;
        pub fn make(key: [u8; 40]) -> (CE, CD, SE, SD) {
            let user = NormalizedString::new("A").unwrap();
            let cs = ProofSeed::new();
            let ss = ProofSeed::new();
            let cseed = cs.seed();
            let (proof, cc) = cs.into_client_header_crypto(&user, key, ss.seed());
            let sc = ss.into_server_header_crypto(&user, key, proof, cseed).expect("proof");
            let (ce, cd) = cc.split();
            let (se, sd) = sc.split();
            (ce, cd, se, sd)
        }
    }
}

// ------------------------------------------------------------------------------------------------
// a blocking transport that may deliver short reads (as a socket does): at most `max` bytes per read call (0 = no limit),
// cycling through `pattern` when one is given

pub struct Src<'a> {
    buf: &'a [u8],
    pos: usize,
    pattern: Vec<usize>,
    k: usize,
    pub reads: usize,
}

impl<'a> Src<'a> {
    pub fn new(buf: &'a [u8], pattern: Vec<usize>) -> Self { Src { buf, pos: 0, pattern, k: 0, reads: 0 } }
    pub fn position(&self) -> u64 { self.pos as u64 }
}

impl<'a> std::io::Read for Src<'a> {
    fn read(&mut self, out: &mut [u8]) -> std::io::Result<usize> {
        let mut n = out.len().min(self.buf.len() - self.pos);
        if !self.pattern.is_empty() && n > 0 {
            let lim = self.pattern[self.k % self.pattern.len()].max(1);
            self.k += 1;
            n = n.min(lim);
        }
        out[..n].copy_from_slice(&self.buf[self.pos..self.pos + n]);
        self.pos += n;
        self.reads += 1;
        Ok(n)
    }
}

/// `plain`, `enc:<key>`, each optionally followed by `;chunk=a.b.c` (sizes of successive short reads, cycled)
pub fn split_crypt(crypt: &str) -> (&str, Vec<usize>) {
    match crypt.split_once(";chunk=") {
        Some((c, p)) => (c, p.split('.').filter_map(|x| x.parse().ok()).collect()),
        None => (crypt, vec![]),
    }
}

// ------------------------------------------------------------------------------------------------
// world tables

macro_rules! world_table {
    ($exp:ident, [$($c:ident,)*], [$($s:ident,)*]) => {
        pub mod $exp {
            #![allow(unused)]
            use super::super::*;
            use wow_world_messages::$exp as X;
            use X::opcodes::{ClientOpcodeMessage, ServerOpcodeMessage};
            use X::{ClientMessage, ServerMessage};
            #[cfg(feature = "encryption")]
            use crate::crypto::$exp::{self as K, CE, CD, SE, SD};

            /// opcode-enum read -> write -> read -> write
            pub fn read_rt(dir: &str, buf: &[u8]) -> String {
                macro_rules! rt { ($E:ident, $w:ident) => {{
                    let mut c = Cursor::new(buf);
                    match $E::read_unencrypted(&mut c) {
                        Err(e) => format!("{},\"consumed\":{}", world_err(&e), c.position()),
                        Ok(m) => {
                            let consumed = c.position();
                            if crate::READ_ONLY.load(std::sync::atomic::Ordering::Relaxed) {
                                return format!("\"result\":\"ok\",\"consumed\":{}", consumed);
                            }
                            let mut out = Vec::new();
                            let w1 = m.$w(&mut out);
                            let mut s = format!("\"result\":\"ok\",\"consumed\":{},{}", consumed, out_field("out", &out));
                            if let Err(e) = w1 { s.push_str(&format!(",{}", io_err(&e))); }
                            let mut c2 = Cursor::new(&out[..]);
                            match $E::read_unencrypted(&mut c2) {
                                Err(e) => s.push_str(&format!(",\"cycle2\":{{{}}}", world_err(&e))),
                                Ok(m2) => {
                                    let mut out2 = Vec::new();
                                    let _ = m2.$w(&mut out2);
                                    s.push_str(&format!(",\"cycle2\":{{\"result\":\"ok\",\"consumed\":{},\"eq\":{},\"same_bytes\":{},{}}}",
                                        c2.position(), m == m2, out == out2,
                                        if out == out2 { "\"out\":null".to_string() } else { out_field("out", &out2) }));
                                }
                            }
                            s
                        }
                    }
                }}}
                match dir {
                    "client" => rt!(ClientOpcodeMessage, write_unencrypted_client),
                    _ => rt!(ServerOpcodeMessage, write_unencrypted_server),
                }
            }

            #[cfg(feature = "encryption")]
            fn one_c<M: ClientMessage>(c: &mut Src, d: Option<&mut SD>) -> Result<Vec<u8>, String> {
                let r = match d {
                    None => X::expect_client_message::<M, _>(c),
                    Some(d) => X::expect_client_message_encryption::<M, _>(c, d),
                };
                match r {
                    Ok(m) => { let mut o = Vec::new(); let _ = m.write_unencrypted_client(&mut o); Ok(o) }
                    Err(e) => Err(world_err(&e)),
                }
            }
            #[cfg(feature = "encryption")]
            fn one_s<M: ServerMessage>(c: &mut Src, d: Option<&mut CD>) -> Result<Vec<u8>, String> {
                let r = match d {
                    None => X::expect_server_message::<M, _>(c),
                    Some(d) => X::expect_server_message_encryption::<M, _>(c, d),
                };
                match r {
                    Ok(m) => { let mut o = Vec::new(); let _ = m.write_unencrypted_server(&mut o); Ok(o) }
                    Err(e) => Err(world_err(&e)),
                }
            }
            #[cfg(feature = "encryption")]
            fn expect_client(name: &str, c: &mut Src, d: Option<&mut SD>) -> Option<Result<Vec<u8>, String>> {
                match name { $( stringify!($c) => Some(one_c::<X::$c>(c, d)), )* _ => None }
            }
            #[cfg(feature = "encryption")]
            fn expect_server(name: &str, c: &mut Src, d: Option<&mut CD>) -> Option<Result<Vec<u8>, String>> {
                match name { $( stringify!($s) => Some(one_s::<X::$s>(c, d)), )* _ => None }
            }

            /// read a whole stream message by message
            #[cfg(feature = "encryption")]
            pub fn stream(dir: &str, reader: &str, crypt: &str, names: &str, plain: &[u8]) -> String {
                let (crypt, pattern) = split_crypt(crypt);
                let key = crypt.strip_prefix("enc:").map(key40);
                let mut s = String::new();
                let names: Vec<&str> = if names == "-" { vec![] } else { names.split(',').collect() };
                // produce the stream to read
                let mut data: Vec<u8> = plain.to_vec();
                let mut halves = key.map(K::make);
                if let Some((ce, _cd, se, _sd)) = halves.as_mut() {
                    // plaintext -> values (enum reader) -> encrypted writer
                    let mut enc = Vec::new();
                    let mut plain2: Vec<u8> = Vec::new();
                    let mut c = Cursor::new(plain);
                    let mut n = 0;
                    while (c.position() as usize) < plain.len() {
                        if dir == "client" {
                            match ClientOpcodeMessage::read_unencrypted(&mut c) {
                                Ok(m) => { let _ = m.write_encrypted_client(&mut enc, ce); let _ = m.write_unencrypted_client(&mut plain2); }
                                Err(e) => { s.push_str(&format!("\"prep_err\":{{{},\"at\":{}}},", world_err(&e), n)); break; }
                            }
                        } else {
                            match ServerOpcodeMessage::read_unencrypted(&mut c) {
                                Ok(m) => { let _ = m.write_encrypted_server(&mut enc, se); let _ = m.write_unencrypted_server(&mut plain2); }
                                Err(e) => { s.push_str(&format!("\"prep_err\":{{{},\"at\":{}}},", world_err(&e), n)); break; }
                            }
                        }
                        n += 1;
                    }
                    s.push_str(&format!("{},{},", out_field("enc", &enc), out_field("plain2", &plain2)));
                    data = enc;
                }
                let mut c = Src::new(&data[..], pattern);
                let mut msgs = String::new();
                let mut i = 0usize;
                let mut count = 0usize;
                loop {
                    if c.position() as usize >= data.len() { break; }
                    if reader == "expect" && i >= names.len() { break; }
                    let r: Result<Vec<u8>, String> = if reader == "enum" {
                        if dir == "client" {
                            let r = match halves.as_mut() { None => ClientOpcodeMessage::read_unencrypted(&mut c), Some(h) => ClientOpcodeMessage::read_encrypted(&mut c, &mut h.3) };
                            r.map(|m| { let mut o = Vec::new(); let _ = m.write_unencrypted_client(&mut o); o }).map_err(|e| world_err(&e))
                        } else {
                            let r = match halves.as_mut() { None => ServerOpcodeMessage::read_unencrypted(&mut c), Some(h) => ServerOpcodeMessage::read_encrypted(&mut c, &mut h.1) };
                            r.map(|m| { let mut o = Vec::new(); let _ = m.write_unencrypted_server(&mut o); o }).map_err(|e| world_err(&e))
                        }
                    } else {
                        // a name prefixed with '!' is a deliberate mismatch: the helper is asked for a message that is not the next one
                        let nm = names[i].trim_start_matches('!');
                        let r = if dir == "client" {
                            expect_client(nm, &mut c, halves.as_mut().map(|h| &mut h.3))
                        } else {
                            expect_server(nm, &mut c, halves.as_mut().map(|h| &mut h.1))
                        };
                        match r { Some(r) => r, None => Err(format!("\"result\":\"noapi\",\"name\":{}", jstr(names[i]))) }
                    };
                    if count > 0 { msgs.push(','); }
                    count += 1;
                    match r {
                        Ok(o) => msgs.push_str(&format!("{{\"result\":\"ok\",\"pos\":{},{}}}", c.position(), out_field("out", &o))),
                        Err(e) => {
                            msgs.push_str(&format!("{{{},\"pos\":{}}}", e, c.position()));
                            let deliberate = reader == "expect" && names[i].starts_with('!') && e.contains("\"err_kind\":\"Opcode\"");
                            if !deliberate { break; }
                        }
                    }
                    i += 1;
                }
                s.push_str(&format!("\"result\":\"done\",\"stream_len\":{},\"reads\":{},\"msgs\":[{}]", data.len(), c.reads, msgs));
                s
            }
        }
    };
}

macro_rules! login_table {
    ($ver:ident, $n:expr, [$(($cv:ident, $ct:ident),)*], [$($cu:ident,)*], [$(($sv:ident, $st:ident),)*], [$($su:ident,)*]) => {
        pub mod $ver {
            #![allow(unused)]
            use super::super::*;
            use wow_login_messages::$ver as X;
            use wow_login_messages::all::*;
            use X::*;
            use X::opcodes::{ClientOpcodeMessage, ServerOpcodeMessage};
            use wow_login_messages::{Message, ClientMessage, ServerMessage};
            use wow_login_messages::helper::{expect_client_message, expect_server_message};

            fn write_c(m: &ClientOpcodeMessage, w: &mut Vec<u8>) -> std::io::Result<()> {
                match m {
                    $( ClientOpcodeMessage::$cv(e) => e.write(w), )*
                    $( ClientOpcodeMessage::$cu => $cu{}.write(w), )*
                }
            }
            fn write_s(m: &ServerOpcodeMessage, w: &mut Vec<u8>) -> std::io::Result<()> {
                match m {
                    $( ServerOpcodeMessage::$sv(e) => e.write(w), )*
                    $( ServerOpcodeMessage::$su => $su{}.write(w), )*
                }
            }
            pub fn read_rt(dir: &str, buf: &[u8]) -> String {
                macro_rules! rt { ($E:ident, $w:ident) => {{
                    let mut c = Cursor::new(buf);
                    match $E::read(&mut c) {
                        Err(e) => format!("{},\"consumed\":{}", login_err(&e), c.position()),
                        Ok(m) => {
                            let consumed = c.position();
                            if crate::READ_ONLY.load(std::sync::atomic::Ordering::Relaxed) {
                                return format!("\"result\":\"ok\",\"consumed\":{}", consumed);
                            }
                            let mut out = Vec::new();
                            let w1 = $w(&m, &mut out);
                            let mut s = format!("\"result\":\"ok\",\"consumed\":{},{}", consumed, out_field("out", &out));
                            if let Err(e) = w1 { s.push_str(&format!(",{}", io_err(&e))); }
                            let mut c2 = Cursor::new(&out[..]);
                            match $E::read(&mut c2) {
                                Err(e) => s.push_str(&format!(",\"cycle2\":{{{}}}", login_err(&e))),
                                Ok(m2) => {
                                    let mut out2 = Vec::new();
                                    let _ = $w(&m2, &mut out2);
                                    s.push_str(&format!(",\"cycle2\":{{\"result\":\"ok\",\"consumed\":{},\"eq\":{},\"same_bytes\":{}}}", c2.position(), m == m2, out == out2));
                                }
                            }
                            s
                        }
                    }
                }}}
                match dir { "client" => rt!(ClientOpcodeMessage, write_c), _ => rt!(ServerOpcodeMessage, write_s) }
            }
            fn ex_c<M: ClientMessage>(c: &mut Cursor<&[u8]>) -> String {
                match expect_client_message::<M, _>(&mut *c) {
                    Ok(m) => { let mut o = Vec::new(); let _ = m.write(&mut o); format!("\"result\":\"ok\",\"consumed\":{},{}", c.position(), out_field("out", &o)) }
                    Err(e) => format!("{},\"consumed\":{}", login_err(&e), c.position()),
                }
            }
            fn ex_s<M: ServerMessage>(c: &mut Cursor<&[u8]>) -> String {
                match expect_server_message::<M, _>(&mut *c) {
                    Ok(m) => { let mut o = Vec::new(); let _ = m.write(&mut o); format!("\"result\":\"ok\",\"consumed\":{},{}", c.position(), out_field("out", &o)) }
                    Err(e) => format!("{},\"consumed\":{}", login_err(&e), c.position()),
                }
            }
            pub fn expect(dir: &str, name: &str, buf: &[u8]) -> String {
                let mut c = Cursor::new(buf);
                if dir == "client" {
                    match name {
                        $( stringify!($ct) => ex_c::<$ct>(&mut c), )*
                        $( stringify!($cu) => ex_c::<$cu>(&mut c), )*
                        _ => format!("\"result\":\"noapi\""),
                    }
                } else {
                    match name {
                        $( stringify!($st) => ex_s::<$st>(&mut c), )*
                        $( stringify!($su) => ex_s::<$su>(&mut c), )*
                        _ => format!("\"result\":\"noapi\""),
                    }
                }
            }
        }
    };
}

pub mod tables {
    include!(concat!(env!("OUT_DIR"), "/tables.rs"));
}

// ------------------------------------------------------------------------------------------------
// typed construction of elastic messages (C02 boundary lengths)

#[cfg(feature = "encryption")]
mod build {
    use super::*;

    macro_rules! build_exp {
        ($fname:ident, $exp:ident) => {
            pub fn $fname(dir: &str, len: usize, crypt: &str) -> String {
                use crate::crypto::$exp as K;
                use wow_world_messages::$exp as X;
                use X::opcodes::{ClientOpcodeMessage, ServerOpcodeMessage};
                use X::{ClientMessage, ServerMessage};
                let fill: Vec<u8> = (0..len).map(|i| (i % 251) as u8).collect();
                let key = crypt.strip_prefix("enc:").map(key40);
                let mut s = String::new();
                let mut plain = Vec::new();
                if dir == "server" {
                    let m = X::SMSG_WARDEN_DATA { encrypted_data: fill.clone() };
                    s.push_str(&format!("\"server_size\":{},", m.server_size()));
                    let _ = m.write_unencrypted_server(&mut plain);
                    s.push_str(&format!("{},", out_field("plain", &plain)));
                    if let Some(k) = key {
                        let (_ce, mut cd, mut se, _sd) = K::make(k);
                        let mut enc = Vec::new();
                        let _ = m.write_encrypted_server(&mut enc, &mut se);
                        s.push_str(&format!("{},", out_field("enc", &enc)));
                        let mut c = Cursor::new(&enc[..]);
                        match ServerOpcodeMessage::read_encrypted(&mut c, &mut cd) {
                            Ok(m2) => s.push_str(&format!("\"rb_enc\":{{\"result\":\"ok\",\"pos\":{},\"eq\":{}}},", c.position(), m2 == ServerOpcodeMessage::SMSG_WARDEN_DATA(m.clone().into()))),
                            Err(e) => s.push_str(&format!("\"rb_enc\":{{{},\"pos\":{}}},", world_err(&e), c.position())),
                        }
                        let (_ce, mut cd, mut se, _sd) = K::make(k);
                        let mut enc2 = Vec::new();
                        let _ = m.write_encrypted_server(&mut enc2, &mut se);
                        let mut c = Cursor::new(&enc2[..]);
                        match X::expect_server_message_encryption::<X::SMSG_WARDEN_DATA, _>(&mut c, &mut cd) {
                            Ok(m2) => s.push_str(&format!("\"rb_enc_expect\":{{\"result\":\"ok\",\"pos\":{},\"eq\":{}}},", c.position(), m2 == m)),
                            Err(e) => s.push_str(&format!("\"rb_enc_expect\":{{{},\"pos\":{}}},", world_err(&e), c.position())),
                        }
                    }
                    let mut c = Cursor::new(&plain[..]);
                    match ServerOpcodeMessage::read_unencrypted(&mut c) {
                        Ok(m2) => s.push_str(&format!("\"rb_enum\":{{\"result\":\"ok\",\"pos\":{},\"eq\":{}}},", c.position(), m2 == ServerOpcodeMessage::SMSG_WARDEN_DATA(m.clone().into()))),
                        Err(e) => s.push_str(&format!("\"rb_enum\":{{{},\"pos\":{}}},", world_err(&e), c.position())),
                    }
                    let mut c = Cursor::new(&plain[..]);
                    match X::expect_server_message::<X::SMSG_WARDEN_DATA, _>(&mut c) {
                        Ok(m2) => s.push_str(&format!("\"rb_expect\":{{\"result\":\"ok\",\"pos\":{},\"eq\":{}}},", c.position(), m2 == m)),
                        Err(e) => s.push_str(&format!("\"rb_expect\":{{{},\"pos\":{}}},", world_err(&e), c.position())),
                    }
                } else {
                    let m = X::CMSG_WARDEN_DATA { encrypted_data: fill.clone() };
                    s.push_str(&format!("\"client_size\":{},", m.client_size()));
                    let _ = m.write_unencrypted_client(&mut plain);
                    s.push_str(&format!("{},", out_field("plain", &plain)));
                    if let Some(k) = key {
                        let (mut ce, _cd, _se, mut sd) = K::make(k);
                        let mut enc = Vec::new();
                        let _ = m.write_encrypted_client(&mut enc, &mut ce);
                        s.push_str(&format!("{},", out_field("enc", &enc)));
                        let mut c = Cursor::new(&enc[..]);
                        match ClientOpcodeMessage::read_encrypted(&mut c, &mut sd) {
                            Ok(m2) => s.push_str(&format!("\"rb_enc\":{{\"result\":\"ok\",\"pos\":{},\"eq\":{}}},", c.position(), m2 == ClientOpcodeMessage::CMSG_WARDEN_DATA(m.clone().into()))),
                            Err(e) => s.push_str(&format!("\"rb_enc\":{{{},\"pos\":{}}},", world_err(&e), c.position())),
                        }
                        let (mut ce, _cd, _se, mut sd) = K::make(k);
                        let mut enc2 = Vec::new();
                        let _ = m.write_encrypted_client(&mut enc2, &mut ce);
                        let mut c = Cursor::new(&enc2[..]);
                        match X::expect_client_message_encryption::<X::CMSG_WARDEN_DATA, _>(&mut c, &mut sd) {
                            Ok(m2) => s.push_str(&format!("\"rb_enc_expect\":{{\"result\":\"ok\",\"pos\":{},\"eq\":{}}},", c.position(), m2 == m)),
                            Err(e) => s.push_str(&format!("\"rb_enc_expect\":{{{},\"pos\":{}}},", world_err(&e), c.position())),
                        }
                    }
                    let mut c = Cursor::new(&plain[..]);
                    match ClientOpcodeMessage::read_unencrypted(&mut c) {
                        Ok(m2) => s.push_str(&format!("\"rb_enum\":{{\"result\":\"ok\",\"pos\":{},\"eq\":{}}},", c.position(), m2 == ClientOpcodeMessage::CMSG_WARDEN_DATA(m.clone().into()))),
                        Err(e) => s.push_str(&format!("\"rb_enum\":{{{},\"pos\":{}}},", world_err(&e), c.position())),
                    }
                    let mut c = Cursor::new(&plain[..]);
                    match X::expect_client_message::<X::CMSG_WARDEN_DATA, _>(&mut c) {
                        Ok(m2) => s.push_str(&format!("\"rb_expect\":{{\"result\":\"ok\",\"pos\":{},\"eq\":{}}},", c.position(), m2 == m)),
                        Err(e) => s.push_str(&format!("\"rb_expect\":{{{},\"pos\":{}}},", world_err(&e), c.position())),
                    }
                }
                s.push_str("\"result\":\"done\"");
                s
            }
        };
    }
    #[cfg(feature = "vanilla")]
    build_exp!(vanilla, vanilla);
    #[cfg(feature = "tbc")]
    build_exp!(tbc, tbc);
    #[cfg(feature = "wrath")]
    build_exp!(wrath, wrath);
}

pub static READ_ONLY: std::sync::atomic::AtomicBool = std::sync::atomic::AtomicBool::new(false);

fn handler(_id: &str, api: &str, cols: &[&str]) -> String {
    let api = match api {
        "W.dec" => {
            READ_ONLY.store(true, std::sync::atomic::Ordering::Relaxed);
            "W.read"
        }
        "L.dec" => {
            READ_ONLY.store(true, std::sync::atomic::Ordering::Relaxed);
            "L.read"
        }
        a => {
            READ_ONLY.store(false, std::sync::atomic::Ordering::Relaxed);
            a
        }
    };
    match api {
        "W.read" if cols.len() >= 3 => {
            let buf = unhex(cols[2]);
            match cols[0] {
                #[cfg(feature = "vanilla")]
                "vanilla" => tables::vanilla::read_rt(cols[1], &buf),
                #[cfg(feature = "tbc")]
                "tbc" => tables::tbc::read_rt(cols[1], &buf),
                #[cfg(feature = "wrath")]
                "wrath" => tables::wrath::read_rt(cols[1], &buf),
                _ => "\"result\":\"noapi\"".into(),
            }
        }
        "W.stream" if cols.len() >= 6 => {
            let buf = unhex(cols[5]);
            match cols[0] {
                #[cfg(all(feature = "vanilla", feature = "encryption"))]
                "vanilla" => tables::vanilla::stream(cols[1], cols[2], cols[3], cols[4], &buf),
                #[cfg(all(feature = "tbc", feature = "encryption"))]
                "tbc" => tables::tbc::stream(cols[1], cols[2], cols[3], cols[4], &buf),
                #[cfg(all(feature = "wrath", feature = "encryption"))]
                "wrath" => tables::wrath::stream(cols[1], cols[2], cols[3], cols[4], &buf),
                _ => "\"result\":\"noapi\"".into(),
            }
        }
        "W.build" if cols.len() >= 5 => {
            let len: usize = cols[3].parse().unwrap_or(0);
            match cols[0] {
                #[cfg(all(feature = "vanilla", feature = "encryption"))]
                "vanilla" => build::vanilla(cols[1], len, cols[4]),
                #[cfg(all(feature = "tbc", feature = "encryption"))]
                "tbc" => build::tbc(cols[1], len, cols[4]),
                #[cfg(all(feature = "wrath", feature = "encryption"))]
                "wrath" => build::wrath(cols[1], len, cols[4]),
                _ => "\"result\":\"noapi\"".into(),
            }
        }
        "L.read" if cols.len() >= 3 => {
            let buf = unhex(cols[2]);
            match cols[0] {
                "2" => tables::version_2::read_rt(cols[1], &buf),
                "3" => tables::version_3::read_rt(cols[1], &buf),
                "5" => tables::version_5::read_rt(cols[1], &buf),
                "6" => tables::version_6::read_rt(cols[1], &buf),
                "7" => tables::version_7::read_rt(cols[1], &buf),
                "8" => tables::version_8::read_rt(cols[1], &buf),
                _ => "\"result\":\"noapi\"".into(),
            }
        }
        "L.expect" if cols.len() >= 4 => {
            let buf = unhex(cols[3]);
            match cols[0] {
                "2" => tables::version_2::expect(cols[1], cols[2], &buf),
                "3" => tables::version_3::expect(cols[1], cols[2], &buf),
                "5" => tables::version_5::expect(cols[1], cols[2], &buf),
                "6" => tables::version_6::expect(cols[1], cols[2], &buf),
                "7" => tables::version_7::expect(cols[1], cols[2], &buf),
                "8" => tables::version_8::expect(cols[1], cols[2], &buf),
                _ => "\"result\":\"noapi\"".into(),
            }
        }
        "L.initial" if !cols.is_empty() => {
            let buf = unhex(cols[0]);
            let mut c = Cursor::new(&buf[..]);
            match wow_login_messages::helper::read_initial_message(&mut c) {
                Ok(m) => {
                    let mut o = Vec::new();
                    use wow_login_messages::Message;
                    let kind = match &m {
                        wow_login_messages::helper::InitialMessage::Logon(l) => { let _ = l.write(&mut o); "logon" }
                        wow_login_messages::helper::InitialMessage::Reconnect(r) => { let _ = r.write(&mut o); "reconnect" }
                    };
                    format!("\"result\":\"ok\",\"kind\":\"{}\",\"consumed\":{},{}", kind, c.position(), out_field("out", &o))
                }
                Err(e) => format!("{},\"consumed\":{}", login_err(&e), c.position()),
            }
        }
        _ => "\"result\":\"noapi\"".into(),
    }
}

fn main() {
    mon::main(handler);
}
