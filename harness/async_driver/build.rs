// Scrapes the *API surface* (type / variant names, which protocol version exports which message, which
// collective families exist) from the repository's sources so the driver can name every entry point.
// No expected values come from here.
use std::fmt::Write as _;
use std::path::{Path, PathBuf};

fn variants(src: &str, enum_name: &str) -> Vec<(String, Option<String>)> {
    let mut out = Vec::new();
    let start = match src.find(&format!("pub enum {} {{", enum_name)) {
        Some(s) => s,
        None => return out,
    };
    for line in src[start..].lines().skip(1) {
        let t = line.trim();
        if t.starts_with('}') {
            break;
        }
        if t.is_empty() || t.starts_with("//") || t.starts_with('#') {
            continue;
        }
        let t = t.trim_end_matches(',');
        if let Some(p) = t.find('(') {
            let name = t[..p].to_string();
            let mut ty = t[p + 1..t.len() - 1].to_string();
            if let Some(inner) = ty.strip_prefix("Box<") {
                ty = inner.trim_end_matches('>').to_string();
            }
            out.push((name, Some(ty)));
        } else {
            out.push((t.to_string(), None));
        }
    }
    out
}

fn from_impls(src: &str, en: &str) -> Vec<String> {
    let pat = format!(" for {} {{", en);
    let mut v = Vec::new();
    for line in src.lines() {
        if let Some(rest) = line.strip_prefix("impl From<") {
            if let Some(p) = rest.find('>') {
                if rest[p..].contains(&pat) {
                    v.push(rest[..p].to_string());
                }
            }
        }
    }
    v
}

fn read(p: &Path) -> String {
    println!("cargo:rerun-if-changed={}", p.display());
    std::fs::read_to_string(p).unwrap_or_default()
}

const MUST: &[&str] = &[
    "SMSG_WARDEN_DATA", "CMSG_WARDEN_DATA", "SMSG_AUTH_CHALLENGE", "CMSG_AUTH_SESSION", "SMSG_AUTH_RESPONSE", "CMSG_PING", "SMSG_PONG",
    "CMSG_CHAR_ENUM", "SMSG_CHAR_ENUM", "SMSG_UPDATE_OBJECT", "SMSG_COMPRESSED_UPDATE_OBJECT", "MSG_MOVE_START_FORWARD", "SMSG_MESSAGECHAT",
    "CMSG_MESSAGECHAT", "SMSG_LOGIN_VERIFY_WORLD", "CMSG_PLAYER_LOGIN", "SMSG_TUTORIAL_FLAGS", "SMSG_NAME_QUERY_RESPONSE",
];

fn main() {
    let repo = PathBuf::from(std::env::var("WOWM_REPO").unwrap_or_else(|_| "/repo".into()));
    println!("cargo:rerun-if-env-changed=WOWM_REPO");
    println!("cargo:rerun-if-env-changed=ASYNC_DRIVER_STRIDE");
    let stride: usize = std::env::var("ASYNC_DRIVER_STRIDE").ok().and_then(|s| s.parse().ok()).unwrap_or(16);
    let mut g = String::new();

    // ---- world: typed helpers are instantiated for a deterministic sample of the message types (every
    // `stride`-th plus a fixed list); the opcode-enum readers/writers reach every message anyway.
    for exp in ["vanilla", "tbc", "wrath"] {
        let src = read(&repo.join(format!("wow_world_messages/src/world/{}/opcodes.rs", exp)));
        let _ = write!(g, "world_table!({}", exp);
        for en in ["ClientOpcodeMessage", "ServerOpcodeMessage"] {
            let _ = writeln!(g, ", [");
            for (i, name) in from_impls(&src, en).iter().enumerate() {
                if i % stride == 0 || MUST.contains(&name.as_str()) {
                    let _ = writeln!(g, "    {},", name);
                }
            }
            let _ = write!(g, "]");
        }
        let _ = writeln!(g, ");");
    }

    // ---- login: every message of every version
    for v in [2, 3, 5, 6, 7, 8] {
        let src = read(&repo.join(format!("wow_login_messages/src/logon/version_{}/opcodes.rs", v)));
        let _ = write!(g, "login_table!(version_{}, {}", v, v);
        for en in ["ClientOpcodeMessage", "ServerOpcodeMessage"] {
            let vs = variants(&src, en);
            let _ = writeln!(g, ", [");
            for (name, ty) in &vs {
                if let Some(ty) = ty {
                    let _ = writeln!(g, "    ({}, {}),", name, ty);
                }
            }
            let _ = writeln!(g, "], [");
            for (name, ty) in &vs {
                if ty.is_none() {
                    let _ = writeln!(g, "    {},", name);
                }
            }
            let _ = write!(g, "]");
        }
        let _ = writeln!(g, ");");
    }

    // ---- collective families x protocol versions
    let coll = repo.join("wow_login_messages/src/collective");
    println!("cargo:rerun-if-changed={}", coll.display());
    let mut files: Vec<PathBuf> = std::fs::read_dir(&coll)
        .map(|d| d.filter_map(|e| e.ok()).map(|e| e.path()).collect())
        .unwrap_or_default();
    files.sort();
    let all_mod = read(&repo.join("wow_login_messages/src/logon/all/mod.rs"));
    let v8ops = read(&repo.join("wow_login_messages/src/logon/version_8/opcodes.rs"));
    let v8c = from_impls(&v8ops, "ClientOpcodeMessage");
    let v8s = from_impls(&v8ops, "ServerOpcodeMessage");
    let v8cv = variants(&v8ops, "ClientOpcodeMessage");
    let v8sv = variants(&v8ops, "ServerOpcodeMessage");
    let mods: Vec<(u32, String)> = [2u32, 3, 5, 6, 7, 8]
        .iter()
        .map(|v| (*v, read(&repo.join(format!("wow_login_messages/src/logon/version_{}/mod.rs", v)))))
        .collect();
    let word = |n: u32| match n {
        2 => "Two",
        3 => "Three",
        5 => "Five",
        6 => "Six",
        7 => "Seven",
        _ => "Eight",
    };
    let mut arms = String::new();
    let mut listing = String::new();
    for f in &files {
        let stem = f.file_stem().and_then(|s| s.to_str()).unwrap_or("").to_string();
        if stem == "mod" || f.extension().and_then(|s| s.to_str()) != Some("rs") {
            continue;
        }
        let src = read(f);
        // the collective (latest) type this file implements the trait for
        let mut main_path = String::new();
        for line in src.lines() {
            let t = line.trim();
            if let Some(r) = t.strip_prefix("type Main = crate::") {
                main_path = format!("wow_login_messages::{}", r.trim_end_matches(';'));
            }
        }
        if main_path.is_empty() {
            let mut name = String::new();
            for line in src.lines() {
                if let Some(r) = line.trim().strip_prefix("impl CollectiveMessage for ") {
                    name = r.trim_end_matches('{').trim().to_string();
                }
            }
            for line in src.lines() {
                let t = line.trim();
                if let Some(r) = t.strip_prefix("use crate::") {
                    let r = r.trim_end_matches(';');
                    if r.ends_with(&format!("::{}", name)) {
                        main_path = format!("wow_login_messages::{}", r);
                    }
                }
            }
        }
        if main_path.is_empty() {
            continue;
        }
        let name = main_path.rsplit("::").next().unwrap().to_string();
        // name it through a public path (the file may use a crate-private module path)
        main_path = if all_mod.contains(&format!("mod {};", stem)) { format!("wow_login_messages::all::{}", name) } else { format!("wow_login_messages::version_8::{}", name) };
        let dir = if v8c.contains(&name) {
            "client"
        } else if v8s.contains(&name) {
            "server"
        } else {
            continue;
        };
        // the variant of the version-8 opcode enum that carries it
        let vs = if dir == "client" { &v8cv } else { &v8sv };
        let variant = vs
            .iter()
            .find(|(vn, ty)| ty.as_deref() == Some(name.as_str()) || (ty.is_none() && *vn == name))
            .map(|(vn, ty)| (vn.clone(), ty.is_some()));
        let (variant, has_payload) = match variant {
            Some(v) => v,
            None => continue,
        };
        for (n, m) in &mods {
            let in_version = m.contains(&format!("mod {};", stem)) || m.contains(&format!("::{}::*;", stem));
            let in_all = all_mod.contains(&format!("mod {};", stem));
            if !in_version && !in_all {
                continue;
            }
            let own = if in_version { format!("wow_login_messages::version_{}::{}", n, name) } else { format!("wow_login_messages::all::{}", name) };
            let (from, to) = if *n == 8 {
                ("|v| v".to_string(), "|m| m.clone()".to_string())
            } else {
                (format!("<{m} as CollectiveMessage>::from_version_{n}", m = main_path, n = n), format!("<{m} as CollectiveMessage>::to_version_{n}", m = main_path, n = n))
            };
            let wrap = if has_payload {
                format!("|m| wow_login_messages::version_8::opcodes::{}OpcodeMessage::{}(m)", if dir == "client" { "Client" } else { "Server" }, variant)
            } else {
                format!("|_m| wow_login_messages::version_8::opcodes::{}OpcodeMessage::{}", if dir == "client" { "Client" } else { "Server" }, variant)
            };
            let _ = writeln!(
                arms,
                "        ({name:?}, {n}) => Some(proto_{dir}::<{main}, <{main} as CollectiveMessage>::Version{n}, {own}>(op, ProtocolVersion::{w}, {from}, {to}, {wrap})),",
                name = name,
                n = n,
                dir = dir,
                main = main_path,
                own = own,
                w = word(*n),
                from = from,
                to = to,
                wrap = wrap
            );
            let _ = writeln!(listing, "    ({:?}, {:?}, {}),", name, dir, n);
        }
    }
    let _ = writeln!(g, "pub fn proto_dispatch(family: &str, version: u32, op: &crate::proto::ProtoOp) -> Option<String> {{");
    let _ = writeln!(g, "    use crate::proto::{{proto_client, proto_server}};\n    use wow_login_messages::CollectiveMessage;\n    use wow_login_messages::all::ProtocolVersion;");
    let _ = writeln!(g, "    match (family, version) {{\n{}        _ => None,\n    }}\n}}", arms);
    let _ = writeln!(g, "pub const PROTO_PAIRS: &[(&str, &str, u32)] = &[\n{}];", listing);

    // version-8 opcode enums written through write_protocol (the enums have no public writer)
    for (en, vs) in [("ClientOpcodeMessage", &v8cv), ("ServerOpcodeMessage", &v8sv)] {
        let _ = writeln!(
            g,
            "pub fn write_protocol_{}(m: &wow_login_messages::version_8::opcodes::{}, pv: wow_login_messages::all::ProtocolVersion, w: &mut Vec<u8>) -> std::io::Result<()> {{\n    use wow_login_messages::CollectiveMessage;\n    use wow_login_messages::version_8::opcodes::{} as E;\n    match m {{",
            if en.starts_with('C') { "client" } else { "server" },
            en,
            en
        );
        for (vn, ty) in vs.iter() {
            match ty {
                Some(_) => {
                    let _ = writeln!(g, "        E::{}(e) => e.write_protocol(w, pv),", vn);
                }
                None => {
                    let _ = writeln!(g, "        E::{} => wow_login_messages::version_8::{} {{}}.write_protocol(w, pv),", vn, vn);
                }
            }
        }
        let _ = writeln!(g, "    }}\n}}");
    }

    let out = PathBuf::from(std::env::var("OUT_DIR").unwrap()).join("tables.rs");
    std::fs::write(out, g).unwrap();
}
