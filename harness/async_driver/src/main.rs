//! async_driver: runs the repository's blocking, tokio and async-std codecs side by side; the async ones read
//! from / write to a scripted transport (see io.rs) and are polled by a runtime-free executor, so a run is
//! a pure function of (bytes, schedule).  Contains no expectations: it logs what each variant returned.
//!
//! apis (columns after id, api):
//!   L.rd   ver dir target hex scheds trace      target = enum | initial | <message type name>
//!   L.wr   ver dir target hex scheds trace      value decoded by the blocking reader, written by all three writers
//!   W.rd   exp dir target crypt hdr hex scheds trace   crypt = plain | enc:<40 byte key hex>; hex is the plain frame, the
//!                                                      driver encrypts its first `hdr` bytes with wow_srp when crypt != plain
//!   W.wr   exp dir target crypt hex scheds trace
//!   W.names exp dir                             message types that have typed (expect_*/trait) entry points in this build
//!   P.rt   family ver hex rscheds wscheds trace login protocol-version views (C14)
//!   P.pairs                                     (family, direction, version) triples of the collective layer
//! scheds = schedules separated by ';' (io.rs), '-' = none; trace = index of the schedule whose polls are logged, -1 = none
#![allow(clippy::all)]
#![allow(non_snake_case)]
#![allow(async_fn_in_trait)]

mod io;
mod proto;

use io::*;
use mon::{hex, jstr, unhex};
use std::cell::RefCell;
use std::io::Cursor;
use std::panic::{catch_unwind, AssertUnwindSafe};

// ------------------------------------------------------------------------------------------------
// error description (values come from the error value itself, never from message text, except the
// coarse kind of source-less world errors)

/// name of the ParseErrorKind variant, taken from the derived Debug rendering (`kind: InvalidSize`): the field is private and
/// the Display wording is free to change
fn debug_kind(dbg: &str) -> Option<&str> {
    let i = dbg.find("kind: ")? + 6;
    let rest = &dbg[i..];
    let end = rest.find(|c: char| !(c.is_ascii_alphanumeric() || c == '_')).unwrap_or(rest.len());
    if end == 0 { None } else { Some(&rest[..end]) }
}

fn world_parse_err(pe: &wow_world_messages::errors::ParseError) -> String {
    let text = format!("{}", pe);
    let dbg = format!("{:?}", pe);
    let dk = debug_kind(&dbg);
    let src = std::error::Error::source(pe);
    let (kind, extra) = match src {
        Some(s) => {
            if let Some(en) = s.downcast_ref::<wow_world_messages::errors::EnumError>() {
                ("Enum".to_string(), format!(",\"err_value\":{},\"err_enum\":{}", en.value, jstr(en.name)))
            } else if s.is::<std::string::FromUtf8Error>() {
                ("String".to_string(), String::new())
            } else if let Some(io) = s.downcast_ref::<std::io::Error>() {
                let k = match dk { Some("BufferSizeTooSmall") => "BufferSizeTooSmall", Some("Io") => "Io", _ => if text.contains("buffer too small") { "BufferSizeTooSmall" } else { "Io" } };
                (k.to_string(), format!(",\"io_kind\":\"{:?}\"", io.kind()))
            } else {
                ("DateTime".to_string(), String::new())
            }
        }
        None => {
            if dk == Some("InvalidSize") {
                ("InvalidSize".to_string(), String::new())
            } else if dk == Some("AllocationTooLargeError") {
                ("AllocationTooLarge".to_string(), String::new())
            } else if text.contains("invalid size") {
                ("InvalidSize".to_string(), String::new())
            } else if text.contains("attempts to allocate") {
                ("AllocationTooLarge".to_string(), String::new())
            } else {
                ("Unknown".to_string(), String::new())
            }
        }
    };
    format!("\"result\":\"err\",\"err_kind\":\"{}\"{},\"err_text\":{}", kind, extra, jstr(&text))
}

pub fn world_err(e: &wow_world_messages::errors::ExpectedOpcodeError) -> String {
    use wow_world_messages::errors::ExpectedOpcodeError as E;
    match e {
        E::Opcode { opcode, size, .. } => {
            format!("\"result\":\"err\",\"err_kind\":\"Opcode\",\"err_value\":{},\"err_size\":{}", opcode, size)
        }
        E::Io(io) => format!("\"result\":\"err\",\"err_kind\":\"Io\",\"io_kind\":\"{:?}\"", io.kind()),
        E::Parse(pe) => world_parse_err(pe),
    }
}

fn login_parse_err(pe: &wow_login_messages::errors::ParseError) -> String {
    let text = format!("{}", pe);
    let src = std::error::Error::source(pe);
    let (kind, extra) = match src {
        Some(s) => {
            if let Some(en) = s.downcast_ref::<wow_login_messages::errors::EnumError>() {
                ("Enum", format!(",\"err_value\":{},\"err_enum\":{}", en.value, jstr(en.name)))
            } else if s.is::<std::string::FromUtf8Error>() {
                ("String", String::new())
            } else if let Some(io) = s.downcast_ref::<std::io::Error>() {
                ("Io", format!(",\"io_kind\":\"{:?}\"", io.kind()))
            } else {
                ("Unknown", String::new())
            }
        }
        None => ("Unknown", String::new()),
    };
    format!("\"result\":\"err\",\"err_kind\":\"Parse{}\"{},\"err_text\":{}", kind, extra, jstr(&text))
}

pub fn login_err(e: &wow_login_messages::errors::ExpectedOpcodeError) -> String {
    use wow_login_messages::errors::ExpectedOpcodeError as E;
    match e {
        E::Opcode(o) => format!("\"result\":\"err\",\"err_kind\":\"Opcode\",\"err_value\":{}", o),
        E::Io(io) => format!("\"result\":\"err\",\"err_kind\":\"Io\",\"io_kind\":\"{:?}\"", io.kind()),
        E::Parse(pe) => login_parse_err(pe),
    }
}

pub fn io_desc(e: &std::io::Error) -> String {
    format!("\"result\":\"io_err\",\"io_kind\":\"{:?}\"", e.kind())
}

pub fn out_field(name: &str, b: &[u8]) -> String {
    format!("\"{}\":\"{}\"", name, hex(b))
}

pub fn key40(s: &str) -> [u8; 40] {
    let v = unhex(s);
    let mut k = [0u8; 40];
    for (i, b) in v.iter().take(40).enumerate() {
        k[i] = *b;
    }
    k
}

// ------------------------------------------------------------------------------------------------
// panics inside one variant must not hide what the other variants did

thread_local! {
    static LAST_PANIC: RefCell<Option<(String, String)>> = const { RefCell::new(None) };
}

fn install_hook() {
    static ONCE: std::sync::Once = std::sync::Once::new();
    ONCE.call_once(|| {
        let prev = std::panic::take_hook();
        std::panic::set_hook(Box::new(move |info| {
            let loc = info.location().map(|l| format!("{}:{}", l.file(), l.line())).unwrap_or_default();
            let msg = if let Some(s) = info.payload().downcast_ref::<&str>() {
                s.to_string()
            } else if let Some(s) = info.payload().downcast_ref::<String>() {
                s.clone()
            } else {
                "<non-string panic>".to_string()
            };
            LAST_PANIC.with(|p| *p.borrow_mut() = Some((loc, msg)));
            prev(info);
        }));
    });
}

/// -> Err(json body describing the panic)
pub fn guarded<R>(f: impl FnOnce() -> R) -> Result<R, String> {
    match catch_unwind(AssertUnwindSafe(f)) {
        Ok(r) => Ok(r),
        Err(_) => {
            let (loc, mut msg) = LAST_PANIC.with(|p| p.borrow_mut().take()).unwrap_or_default();
            if msg.len() > 200 {
                let mut cut = 200;
                while !msg.is_char_boundary(cut) {
                    cut -= 1;
                }
                msg.truncate(cut);
            }
            Err(format!("\"result\":\"panic\",\"panic_at\":{},\"panic_msg\":{}", jstr(&loc), jstr(&msg)))
        }
    }
}

// ------------------------------------------------------------------------------------------------
// header crypto construction through wow_srp's public constructors

pub mod crypto {
    use wow_srp::normalized_string::NormalizedString;
    macro_rules! flavour {
        ($name:ident, $m:ident, $ce:ident, $cd:ident, $se:ident, $sd:ident) => {
            pub mod $name {
                use super::NormalizedString;
                use wow_srp::$m::ProofSeed;
                pub type CE = wow_srp::$m::$ce;
                pub type CD = wow_srp::$m::$cd;
                pub type SE = wow_srp::$m::$se;
                pub type SD = wow_srp::$m::$sd;
                pub fn make(key: [u8; 40]) -> (CE, CD, SE, SD) {
                    let user = NormalizedString::new("A").unwrap();
                    let cs = ProofSeed::new();
                    let ss = ProofSeed::new();
                    let cseed = cs.seed();
                    let (proof, cc) = cs.into_client_header_crypto(&user, key, ss.seed());
                    let sc = ss.into_server_header_crypto(&user, key, proof, cseed).expect("proof");
                    let (ce, cd) = cc.split();
                    let (se, sd) = sc.split();
                    (ce, cd, se, sd)
                }
            }
        };
    }
    flavour!(vanilla, vanilla_header, EncrypterHalf, DecrypterHalf, EncrypterHalf, DecrypterHalf);
    flavour!(tbc, tbc_header, EncrypterHalf, DecrypterHalf, EncrypterHalf, DecrypterHalf);
    flavour!(wrath, wrath_header, ClientEncrypterHalf, ClientDecrypterHalf, ServerEncrypterHalf, ServerDecrypterHalf);
}

// ------------------------------------------------------------------------------------------------
// one entry point in its three variants

pub trait Case {
    type T: PartialEq;
    fn read_sync(&self, c: &mut Cursor<&[u8]>) -> Result<Self::T, String>;
    async fn read_tokio(&self, r: &mut ScriptedReader) -> Result<Self::T, String>;
    async fn read_astd(&self, r: &mut ScriptedReader) -> Result<Self::T, String>;
    /// plain rendering through the blocking writer (how decoded values are shown in the log)
    fn encode(&self, v: &Self::T) -> Vec<u8>;
    fn write_sync(&self, v: &Self::T, w: &mut Vec<u8>) -> std::io::Result<()>;
    async fn write_tokio(&self, v: &Self::T, w: &mut ScriptedWriter) -> std::io::Result<()>;
    async fn write_astd(&self, v: &Self::T, w: &mut ScriptedWriter) -> std::io::Result<()>;
}

/// outcomes of many schedules, grouped by what was observed
pub struct Agg {
    outs: Vec<(String, u64, usize)>,
    n: u64,
    polls_max: u64,
    polls_sum: u64,
    pend: u64,
    short: u64,
    fut_polls: u64,
    trace: Option<String>,
}

impl Agg {
    pub fn new() -> Self {
        Agg { outs: Vec::new(), n: 0, polls_max: 0, polls_sum: 0, pend: 0, short: 0, fut_polls: 0, trace: None }
    }
    pub fn add(&mut self, desc: String, idx: usize, st: Stats, fut_polls: u64) {
        self.n += 1;
        self.polls_max = self.polls_max.max(st.polls);
        self.polls_sum += st.polls;
        self.pend += st.pendings;
        self.short += st.short;
        self.fut_polls += fut_polls;
        for o in self.outs.iter_mut() {
            if o.0 == desc {
                o.1 += 1;
                return;
            }
        }
        self.outs.push((desc, 1, idx));
    }
    pub fn json(&self, label: &str) -> String {
        let mut s = format!(
            "\"{}\":{{\"n\":{},\"polls_max\":{},\"polls_sum\":{},\"pendings\":{},\"short\":{},\"future_polls\":{}",
            label, self.n, self.polls_max, self.polls_sum, self.pend, self.short, self.fut_polls
        );
        if let Some(t) = &self.trace {
            s.push_str(&format!(",\"trace\":{}", t));
        }
        s.push_str(",\"outs\":[");
        for (i, (d, n, first)) in self.outs.iter().enumerate() {
            if i > 0 {
                s.push(',');
            }
            s.push_str(&format!("{{{},\"n\":{},\"first\":{}}}", d, n, first));
        }
        s.push_str("]}");
        s
    }
}

fn ok_desc<C: Case>(case: &C, v: &C::T, consumed: usize, reference: Option<&C::T>) -> String {
    let mut s = format!("\"result\":\"ok\",\"consumed\":{}", consumed);
    match guarded(|| case.encode(v)) {
        Ok(o) => s.push_str(&format!(",{}", out_field("out", &o))),
        Err(p) => s.push_str(&format!(",\"encode\":{{{}}}", p)),
    }
    match reference {
        Some(r) => s.push_str(&format!(",\"eq\":{}", v == r)),
        None => s.push_str(&format!(",\"eq_self\":{}", v == v)),
    }
    s
}

pub fn run_reads<C: Case>(case: &C, buf: &[u8], scheds: &[Schedule], trace: i64) -> String {
    let mut c = Cursor::new(buf);
    let r = guarded(|| case.read_sync(&mut c));
    let consumed = c.position() as usize;
    let (sync_val, sync_desc) = match r {
        Err(p) => (None, p),
        Ok(Err(e)) => (None, format!("{},\"consumed\":{}", e, consumed)),
        Ok(Ok(v)) => {
            let d = ok_desc(case, &v, consumed, None);
            (Some(v), d)
        }
    };
    let mut s = format!("\"result\":\"done\",\"len\":{},\"sync\":{{{}}}", buf.len(), sync_desc);
    for which in 0..2 {
        let mut agg = Agg::new();
        for (i, sc) in scheds.iter().enumerate() {
            let tr = trace == i as i64;
            let mut r = ScriptedReader::new(buf, sc, tr);
            let limit = (buf.len() as u64) * 4 + sc.len() as u64 + 10_000;
            let res = guarded(|| {
                block_on(
                    async {
                        if which == 0 {
                            case.read_tokio(&mut r).await
                        } else {
                            case.read_astd(&mut r).await
                        }
                    },
                    limit,
                )
            });
            let (desc, fp) = match res {
                Err(p) => (format!("{},\"consumed\":{}", p, r.pos), 0),
                Ok((Ran::Done(Ok(v)), fp)) => (ok_desc(case, &v, r.pos, sync_val.as_ref()), fp),
                Ok((Ran::Done(Err(e)), fp)) => (format!("{},\"consumed\":{}", e, r.pos), fp),
                Ok((Ran::Stalled, fp)) => (format!("\"result\":\"stalled\",\"consumed\":{}", r.pos), fp),
                Ok((Ran::Runaway, fp)) => (format!("\"result\":\"runaway\",\"consumed\":{}", r.pos), fp),
            };
            if tr {
                agg.trace = Some(trace_json(&r.trace));
            }
            agg.add(desc, i, r.stats, fp);
        }
        s.push(',');
        s.push_str(&agg.json(if which == 0 { "tokio" } else { "astd" }));
    }
    s
}

pub fn run_writes<C: Case>(case: &C, buf: &[u8], scheds: &[Schedule], trace: i64) -> String {
    let mut c = Cursor::new(buf);
    let v = match guarded(|| case.read_sync(&mut c)) {
        Err(p) => return format!("\"result\":\"undecodable\",\"sync_read\":{{{}}}", p),
        Ok(Err(e)) => return format!("\"result\":\"undecodable\",\"sync_read\":{{{}}}", e),
        Ok(Ok(v)) => v,
    };
    let mut out = Vec::new();
    let sync_desc = match guarded(|| case.write_sync(&v, &mut out)) {
        Err(p) => p,
        Ok(Err(e)) => io_desc(&e),
        Ok(Ok(())) => format!("\"result\":\"ok\",{}", out_field("out", &out)),
    };
    let mut s = format!("\"result\":\"done\",\"consumed\":{},\"sync\":{{{}}}", c.position(), sync_desc);
    for which in 0..2 {
        let mut agg = Agg::new();
        for (i, sc) in scheds.iter().enumerate() {
            let tr = trace == i as i64;
            let mut w = ScriptedWriter::new(sc, tr);
            let limit = (out.len() as u64) * 4 + sc.len() as u64 + 10_000;
            let res = guarded(|| {
                block_on(
                    async {
                        if which == 0 {
                            case.write_tokio(&v, &mut w).await
                        } else {
                            case.write_astd(&v, &mut w).await
                        }
                    },
                    limit,
                )
            });
            let (desc, fp) = match res {
                Err(p) => (format!("{},{}", p, out_field("out", &w.out)), 0),
                Ok((Ran::Done(Ok(())), fp)) => (format!("\"result\":\"ok\",{}", out_field("out", &w.out)), fp),
                Ok((Ran::Done(Err(e)), fp)) => (format!("{},{}", io_desc(&e), out_field("out", &w.out)), fp),
                Ok((Ran::Stalled, fp)) => (format!("\"result\":\"stalled\",{}", out_field("out", &w.out)), fp),
                Ok((Ran::Runaway, fp)) => (format!("\"result\":\"runaway\",{}", out_field("out", &w.out)), fp),
            };
            if tr {
                agg.trace = Some(trace_json(&w.trace));
            }
            agg.add(desc, i, w.stats, fp);
        }
        s.push(',');
        s.push_str(&agg.json(if which == 0 { "tokio" } else { "astd" }));
    }
    s
}

/// what the handler wants done with a case
pub struct Op<'a> {
    pub write: bool,
    pub buf: &'a [u8],
    pub scheds: &'a [Schedule],
    pub trace: i64,
}

impl<'a> Op<'a> {
    pub fn run<C: Case>(&self, case: &C) -> String {
        if self.write {
            run_writes(case, self.buf, self.scheds, self.trace)
        } else {
            run_reads(case, self.buf, self.scheds, self.trace)
        }
    }
}

// ------------------------------------------------------------------------------------------------
// world tables

macro_rules! world_table {
    ($exp:ident, [$($c:ident,)*], [$($s:ident,)*]) => {
        pub mod $exp {
            #![allow(unused)]
            use super::super::*;
            use std::marker::PhantomData;
            use wow_world_messages::$exp as X;
            use X::opcodes::{ClientOpcodeMessage, ServerOpcodeMessage};
            use X::{ClientMessage, ServerMessage};
            use crate::crypto::$exp::{self as K, CE, CD, SE, SD};

            pub const CLIENT_NAMES: &[&str] = &[$(stringify!($c),)*];
            pub const SERVER_NAMES: &[&str] = &[$(stringify!($s),)*];

            /// messages sent by the client: encrypted with CE, decrypted with SD
            pub struct EnumC { pub d: Option<SD>, pub e: Option<CE> }
            impl Case for EnumC {
                type T = ClientOpcodeMessage;
                fn read_sync(&self, c: &mut Cursor<&[u8]>) -> Result<Self::T, String> {
                    match &self.d {
                        None => ClientOpcodeMessage::read_unencrypted(c),
                        Some(d) => ClientOpcodeMessage::read_encrypted(c, &mut d.clone()),
                    }.map_err(|e| world_err(&e))
                }
                async fn read_tokio(&self, r: &mut ScriptedReader) -> Result<Self::T, String> {
                    match &self.d {
                        None => ClientOpcodeMessage::tokio_read_unencrypted(r).await,
                        Some(d) => ClientOpcodeMessage::tokio_read_encrypted(r, &mut d.clone()).await,
                    }.map_err(|e| world_err(&e))
                }
                async fn read_astd(&self, r: &mut ScriptedReader) -> Result<Self::T, String> {
                    match &self.d {
                        None => ClientOpcodeMessage::astd_read_unencrypted(r).await,
                        Some(d) => ClientOpcodeMessage::astd_read_encrypted(r, &mut d.clone()).await,
                    }.map_err(|e| world_err(&e))
                }
                fn encode(&self, v: &Self::T) -> Vec<u8> { let mut o = Vec::new(); let _ = v.write_unencrypted_client(&mut o); o }
                fn write_sync(&self, v: &Self::T, w: &mut Vec<u8>) -> std::io::Result<()> {
                    match &self.e { None => v.write_unencrypted_client(w), Some(e) => v.write_encrypted_client(w, &mut e.clone()) }
                }
                async fn write_tokio(&self, v: &Self::T, w: &mut ScriptedWriter) -> std::io::Result<()> {
                    match &self.e { None => v.tokio_write_unencrypted_client(w).await, Some(e) => v.tokio_write_encrypted_client(w, &mut e.clone()).await }
                }
                async fn write_astd(&self, v: &Self::T, w: &mut ScriptedWriter) -> std::io::Result<()> {
                    match &self.e { None => v.astd_write_unencrypted_client(w).await, Some(e) => v.astd_write_encrypted_client(w, &mut e.clone()).await }
                }
            }

            /// messages sent by the server: encrypted with SE, decrypted with CD
            pub struct EnumS { pub d: Option<CD>, pub e: Option<SE> }
            impl Case for EnumS {
                type T = ServerOpcodeMessage;
                fn read_sync(&self, c: &mut Cursor<&[u8]>) -> Result<Self::T, String> {
                    match &self.d {
                        None => ServerOpcodeMessage::read_unencrypted(c),
                        Some(d) => ServerOpcodeMessage::read_encrypted(c, &mut d.clone()),
                    }.map_err(|e| world_err(&e))
                }
                async fn read_tokio(&self, r: &mut ScriptedReader) -> Result<Self::T, String> {
                    match &self.d {
                        None => ServerOpcodeMessage::tokio_read_unencrypted(r).await,
                        Some(d) => ServerOpcodeMessage::tokio_read_encrypted(r, &mut d.clone()).await,
                    }.map_err(|e| world_err(&e))
                }
                async fn read_astd(&self, r: &mut ScriptedReader) -> Result<Self::T, String> {
                    match &self.d {
                        None => ServerOpcodeMessage::astd_read_unencrypted(r).await,
                        Some(d) => ServerOpcodeMessage::astd_read_encrypted(r, &mut d.clone()).await,
                    }.map_err(|e| world_err(&e))
                }
                fn encode(&self, v: &Self::T) -> Vec<u8> { let mut o = Vec::new(); let _ = v.write_unencrypted_server(&mut o); o }
                fn write_sync(&self, v: &Self::T, w: &mut Vec<u8>) -> std::io::Result<()> {
                    match &self.e { None => v.write_unencrypted_server(w), Some(e) => v.write_encrypted_server(w, &mut e.clone()) }
                }
                async fn write_tokio(&self, v: &Self::T, w: &mut ScriptedWriter) -> std::io::Result<()> {
                    match &self.e { None => v.tokio_write_unencrypted_server(w).await, Some(e) => v.tokio_write_encrypted_server(w, &mut e.clone()).await }
                }
                async fn write_astd(&self, v: &Self::T, w: &mut ScriptedWriter) -> std::io::Result<()> {
                    match &self.e { None => v.astd_write_unencrypted_server(w).await, Some(e) => v.astd_write_encrypted_server(w, &mut e.clone()).await }
                }
            }

            pub struct ExpC<M> { pub d: Option<SD>, pub e: Option<CE>, pub p: PhantomData<M> }
            impl<M: ClientMessage + PartialEq + Sync> Case for ExpC<M> {
                type T = M;
                fn read_sync(&self, c: &mut Cursor<&[u8]>) -> Result<Self::T, String> {
                    match &self.d {
                        None => X::expect_client_message::<M, _>(c),
                        Some(d) => X::expect_client_message_encryption::<M, _>(c, &mut d.clone()),
                    }.map_err(|e| world_err(&e))
                }
                async fn read_tokio(&self, r: &mut ScriptedReader) -> Result<Self::T, String> {
                    match &self.d {
                        None => X::tokio_expect_client_message::<M, _>(r).await,
                        Some(d) => X::tokio_expect_client_message_encryption::<M, _>(r, &mut d.clone()).await,
                    }.map_err(|e| world_err(&e))
                }
                async fn read_astd(&self, r: &mut ScriptedReader) -> Result<Self::T, String> {
                    match &self.d {
                        None => X::astd_expect_client_message::<M, _>(r).await,
                        Some(d) => X::astd_expect_client_message_encryption::<M, _>(r, &mut d.clone()).await,
                    }.map_err(|e| world_err(&e))
                }
                fn encode(&self, v: &Self::T) -> Vec<u8> { let mut o = Vec::new(); let _ = v.write_unencrypted_client(&mut o); o }
                fn write_sync(&self, v: &Self::T, w: &mut Vec<u8>) -> std::io::Result<()> {
                    match &self.e { None => v.write_unencrypted_client(w), Some(e) => v.write_encrypted_client(w, &mut e.clone()) }
                }
                async fn write_tokio(&self, v: &Self::T, w: &mut ScriptedWriter) -> std::io::Result<()> {
                    match &self.e { None => v.tokio_write_unencrypted_client(w).await, Some(e) => v.tokio_write_encrypted_client(w, &mut e.clone()).await }
                }
                async fn write_astd(&self, v: &Self::T, w: &mut ScriptedWriter) -> std::io::Result<()> {
                    match &self.e { None => v.astd_write_unencrypted_client(w).await, Some(e) => v.astd_write_encrypted_client(w, &mut e.clone()).await }
                }
            }

            pub struct ExpS<M> { pub d: Option<CD>, pub e: Option<SE>, pub p: PhantomData<M> }
            impl<M: ServerMessage + PartialEq + Sync> Case for ExpS<M> {
                type T = M;
                fn read_sync(&self, c: &mut Cursor<&[u8]>) -> Result<Self::T, String> {
                    match &self.d {
                        None => X::expect_server_message::<M, _>(c),
                        Some(d) => X::expect_server_message_encryption::<M, _>(c, &mut d.clone()),
                    }.map_err(|e| world_err(&e))
                }
                async fn read_tokio(&self, r: &mut ScriptedReader) -> Result<Self::T, String> {
                    match &self.d {
                        None => X::tokio_expect_server_message::<M, _>(r).await,
                        Some(d) => X::tokio_expect_server_message_encryption::<M, _>(r, &mut d.clone()).await,
                    }.map_err(|e| world_err(&e))
                }
                async fn read_astd(&self, r: &mut ScriptedReader) -> Result<Self::T, String> {
                    match &self.d {
                        None => X::astd_expect_server_message::<M, _>(r).await,
                        Some(d) => X::astd_expect_server_message_encryption::<M, _>(r, &mut d.clone()).await,
                    }.map_err(|e| world_err(&e))
                }
                fn encode(&self, v: &Self::T) -> Vec<u8> { let mut o = Vec::new(); let _ = v.write_unencrypted_server(&mut o); o }
                fn write_sync(&self, v: &Self::T, w: &mut Vec<u8>) -> std::io::Result<()> {
                    match &self.e { None => v.write_unencrypted_server(w), Some(e) => v.write_encrypted_server(w, &mut e.clone()) }
                }
                async fn write_tokio(&self, v: &Self::T, w: &mut ScriptedWriter) -> std::io::Result<()> {
                    match &self.e { None => v.tokio_write_unencrypted_server(w).await, Some(e) => v.tokio_write_encrypted_server(w, &mut e.clone()).await }
                }
                async fn write_astd(&self, v: &Self::T, w: &mut ScriptedWriter) -> std::io::Result<()> {
                    match &self.e { None => v.astd_write_unencrypted_server(w).await, Some(e) => v.astd_write_encrypted_server(w, &mut e.clone()).await }
                }
            }

            /// crypt: plain | enc:<key>; for reads the first `hdr` bytes of `plain` are encrypted here
            pub fn dispatch(dir: &str, target: &str, crypt: &str, hdr: usize, plain: &[u8], write: bool, scheds: &[Schedule], trace: i64) -> String {
                let key = crypt.strip_prefix("enc:").map(key40);
                let halves = key.map(K::make);
                let mut data = plain.to_vec();
                let mut extra = String::new();
                if let (Some(h), false) = (halves.as_ref(), write) {
                    let n = hdr.min(data.len());
                    if dir == "client" { h.0.clone().encrypt(&mut data[..n]); } else { h.2.clone().encrypt(&mut data[..n]); }
                    extra = format!(",{}", out_field("wire_head", &data[..n]));
                }
                let op = Op { write, buf: &data, scheds, trace };
                // reads get the decrypter, writes get the encrypter (and decode the plain frame)
                let body = if dir == "client" {
                    let d = if write { None } else { halves.as_ref().map(|h| h.3.clone()) };
                    let e = if write { halves.as_ref().map(|h| h.0.clone()) } else { None };
                    match target {
                        "enum" => op.run(&EnumC { d, e }),
                        $( stringify!($c) => op.run(&ExpC::<X::$c> { d, e, p: PhantomData }), )*
                        _ => "\"result\":\"noapi\"".to_string(),
                    }
                } else {
                    let d = if write { None } else { halves.as_ref().map(|h| h.1.clone()) };
                    let e = if write { halves.as_ref().map(|h| h.2.clone()) } else { None };
                    match target {
                        "enum" => op.run(&EnumS { d, e }),
                        $( stringify!($s) => op.run(&ExpS::<X::$s> { d, e, p: PhantomData }), )*
                        _ => "\"result\":\"noapi\"".to_string(),
                    }
                };
                format!("{}{}", body, extra)
            }
        }
    };
}

// ------------------------------------------------------------------------------------------------
// login tables

/// read_initial_message's result has no PartialEq: compared through its rendering
pub struct Initial(pub wow_login_messages::helper::InitialMessage);

impl Initial {
    fn bytes(&self) -> (u8, Vec<u8>) {
        use wow_login_messages::Message;
        let mut o = Vec::new();
        match &self.0 {
            wow_login_messages::helper::InitialMessage::Logon(l) => {
                let _ = l.write(&mut o);
                (0, o)
            }
            wow_login_messages::helper::InitialMessage::Reconnect(r) => {
                let _ = r.write(&mut o);
                (1, o)
            }
        }
    }
}

impl PartialEq for Initial {
    fn eq(&self, other: &Self) -> bool {
        use wow_login_messages::helper::InitialMessage as I;
        match (&self.0, &other.0) {
            (I::Logon(a), I::Logon(b)) => a == b,
            (I::Reconnect(a), I::Reconnect(b)) => a == b,
            _ => false,
        }
    }
}

pub struct InitialCase;

impl Case for InitialCase {
    type T = Initial;
    fn read_sync(&self, c: &mut Cursor<&[u8]>) -> Result<Self::T, String> {
        wow_login_messages::helper::read_initial_message(c).map(Initial).map_err(|e| login_err(&e))
    }
    async fn read_tokio(&self, r: &mut ScriptedReader) -> Result<Self::T, String> {
        wow_login_messages::helper::tokio_read_initial_message(r).await.map(Initial).map_err(|e| login_err(&e))
    }
    async fn read_astd(&self, r: &mut ScriptedReader) -> Result<Self::T, String> {
        wow_login_messages::helper::astd_read_initial_message(r).await.map(Initial).map_err(|e| login_err(&e))
    }
    fn encode(&self, v: &Self::T) -> Vec<u8> {
        v.bytes().1
    }
    fn write_sync(&self, v: &Self::T, w: &mut Vec<u8>) -> std::io::Result<()> {
        use wow_login_messages::helper::InitialMessage as I;
        use wow_login_messages::Message;
        match &v.0 {
            I::Logon(l) => l.write(w),
            I::Reconnect(r) => r.write(w),
        }
    }
    async fn write_tokio(&self, v: &Self::T, w: &mut ScriptedWriter) -> std::io::Result<()> {
        use wow_login_messages::helper::InitialMessage as I;
        use wow_login_messages::Message;
        match &v.0 {
            I::Logon(l) => l.tokio_write(w).await,
            I::Reconnect(r) => r.tokio_write(w).await,
        }
    }
    async fn write_astd(&self, v: &Self::T, w: &mut ScriptedWriter) -> std::io::Result<()> {
        use wow_login_messages::helper::InitialMessage as I;
        use wow_login_messages::Message;
        match &v.0 {
            I::Logon(l) => l.astd_write(w).await,
            I::Reconnect(r) => r.astd_write(w).await,
        }
    }
}

macro_rules! login_table {
    ($ver:ident, $n:expr, [$(($cv:ident, $ct:ident),)*], [$($cu:ident,)*], [$(($sv:ident, $st:ident),)*], [$($su:ident,)*]) => {
        pub mod $ver {
            #![allow(unused)]
            use super::super::*;
            use std::marker::PhantomData;
            use wow_login_messages::$ver as X;
            use wow_login_messages::all::*;
            use X::*;
            use X::opcodes::{ClientOpcodeMessage, ServerOpcodeMessage};
            use wow_login_messages::{Message, ClientMessage, ServerMessage};
            use wow_login_messages::helper as H;

            pub struct EnumC;
            impl Case for EnumC {
                type T = ClientOpcodeMessage;
                fn read_sync(&self, c: &mut Cursor<&[u8]>) -> Result<Self::T, String> { ClientOpcodeMessage::read(c).map_err(|e| login_err(&e)) }
                async fn read_tokio(&self, r: &mut ScriptedReader) -> Result<Self::T, String> { ClientOpcodeMessage::tokio_read(r).await.map_err(|e| login_err(&e)) }
                async fn read_astd(&self, r: &mut ScriptedReader) -> Result<Self::T, String> { ClientOpcodeMessage::astd_read(r).await.map_err(|e| login_err(&e)) }
                fn encode(&self, v: &Self::T) -> Vec<u8> { let mut o = Vec::new(); let _ = self.write_sync(v, &mut o); o }
                fn write_sync(&self, v: &Self::T, w: &mut Vec<u8>) -> std::io::Result<()> {
                    match v {
                        $( ClientOpcodeMessage::$cv(e) => e.write(w), )*
                        $( ClientOpcodeMessage::$cu => $cu{}.write(w), )*
                    }
                }
                async fn write_tokio(&self, v: &Self::T, w: &mut ScriptedWriter) -> std::io::Result<()> {
                    match v {
                        $( ClientOpcodeMessage::$cv(e) => e.tokio_write(w).await, )*
                        $( ClientOpcodeMessage::$cu => $cu{}.tokio_write(w).await, )*
                    }
                }
                async fn write_astd(&self, v: &Self::T, w: &mut ScriptedWriter) -> std::io::Result<()> {
                    match v {
                        $( ClientOpcodeMessage::$cv(e) => e.astd_write(w).await, )*
                        $( ClientOpcodeMessage::$cu => $cu{}.astd_write(w).await, )*
                    }
                }
            }

            pub struct EnumS;
            impl Case for EnumS {
                type T = ServerOpcodeMessage;
                fn read_sync(&self, c: &mut Cursor<&[u8]>) -> Result<Self::T, String> { ServerOpcodeMessage::read(c).map_err(|e| login_err(&e)) }
                async fn read_tokio(&self, r: &mut ScriptedReader) -> Result<Self::T, String> { ServerOpcodeMessage::tokio_read(r).await.map_err(|e| login_err(&e)) }
                async fn read_astd(&self, r: &mut ScriptedReader) -> Result<Self::T, String> { ServerOpcodeMessage::astd_read(r).await.map_err(|e| login_err(&e)) }
                fn encode(&self, v: &Self::T) -> Vec<u8> { let mut o = Vec::new(); let _ = self.write_sync(v, &mut o); o }
                fn write_sync(&self, v: &Self::T, w: &mut Vec<u8>) -> std::io::Result<()> {
                    match v {
                        $( ServerOpcodeMessage::$sv(e) => e.write(w), )*
                        $( ServerOpcodeMessage::$su => $su{}.write(w), )*
                    }
                }
                async fn write_tokio(&self, v: &Self::T, w: &mut ScriptedWriter) -> std::io::Result<()> {
                    match v {
                        $( ServerOpcodeMessage::$sv(e) => e.tokio_write(w).await, )*
                        $( ServerOpcodeMessage::$su => $su{}.tokio_write(w).await, )*
                    }
                }
                async fn write_astd(&self, v: &Self::T, w: &mut ScriptedWriter) -> std::io::Result<()> {
                    match v {
                        $( ServerOpcodeMessage::$sv(e) => e.astd_write(w).await, )*
                        $( ServerOpcodeMessage::$su => $su{}.astd_write(w).await, )*
                    }
                }
            }

            pub struct ExpC<M>(PhantomData<M>);
            impl<M: ClientMessage + PartialEq + Sync> Case for ExpC<M> {
                type T = M;
                fn read_sync(&self, c: &mut Cursor<&[u8]>) -> Result<Self::T, String> { H::expect_client_message::<M, _>(c).map_err(|e| login_err(&e)) }
                async fn read_tokio(&self, r: &mut ScriptedReader) -> Result<Self::T, String> { H::tokio_expect_client_message::<M, _>(r).await.map_err(|e| login_err(&e)) }
                async fn read_astd(&self, r: &mut ScriptedReader) -> Result<Self::T, String> { H::astd_expect_client_message::<M, _>(r).await.map_err(|e| login_err(&e)) }
                fn encode(&self, v: &Self::T) -> Vec<u8> { let mut o = Vec::new(); let _ = v.write(&mut o); o }
                fn write_sync(&self, v: &Self::T, w: &mut Vec<u8>) -> std::io::Result<()> { v.write(w) }
                async fn write_tokio(&self, v: &Self::T, w: &mut ScriptedWriter) -> std::io::Result<()> { v.tokio_write(w).await }
                async fn write_astd(&self, v: &Self::T, w: &mut ScriptedWriter) -> std::io::Result<()> { v.astd_write(w).await }
            }

            pub struct ExpS<M>(PhantomData<M>);
            impl<M: ServerMessage + PartialEq + Sync> Case for ExpS<M> {
                type T = M;
                fn read_sync(&self, c: &mut Cursor<&[u8]>) -> Result<Self::T, String> { H::expect_server_message::<M, _>(c).map_err(|e| login_err(&e)) }
                async fn read_tokio(&self, r: &mut ScriptedReader) -> Result<Self::T, String> { H::tokio_expect_server_message::<M, _>(r).await.map_err(|e| login_err(&e)) }
                async fn read_astd(&self, r: &mut ScriptedReader) -> Result<Self::T, String> { H::astd_expect_server_message::<M, _>(r).await.map_err(|e| login_err(&e)) }
                fn encode(&self, v: &Self::T) -> Vec<u8> { let mut o = Vec::new(); let _ = v.write(&mut o); o }
                fn write_sync(&self, v: &Self::T, w: &mut Vec<u8>) -> std::io::Result<()> { v.write(w) }
                async fn write_tokio(&self, v: &Self::T, w: &mut ScriptedWriter) -> std::io::Result<()> { v.tokio_write(w).await }
                async fn write_astd(&self, v: &Self::T, w: &mut ScriptedWriter) -> std::io::Result<()> { v.astd_write(w).await }
            }

            pub fn dispatch(dir: &str, target: &str, op: &Op) -> String {
                if target == "initial" {
                    return op.run(&InitialCase);
                }
                if dir == "client" {
                    match target {
                        "enum" => op.run(&EnumC),
                        $( stringify!($ct) => op.run(&ExpC::<$ct>(PhantomData)), )*
                        $( stringify!($cu) => op.run(&ExpC::<$cu>(PhantomData)), )*
                        _ => "\"result\":\"noapi\"".to_string(),
                    }
                } else {
                    match target {
                        "enum" => op.run(&EnumS),
                        $( stringify!($st) => op.run(&ExpS::<$st>(PhantomData)), )*
                        $( stringify!($su) => op.run(&ExpS::<$su>(PhantomData)), )*
                        _ => "\"result\":\"noapi\"".to_string(),
                    }
                }
            }
        }
    };
}

pub mod tables {
    include!(concat!(env!("OUT_DIR"), "/tables.rs"));
}

fn names_json(v: &[&str]) -> String {
    let mut s = String::from("\"result\":\"ok\",\"names\":[");
    for (i, n) in v.iter().enumerate() {
        if i > 0 {
            s.push(',');
        }
        s.push_str(&jstr(n));
    }
    s.push(']');
    s
}

fn handler(_id: &str, api: &str, cols: &[&str]) -> String {
    install_hook();
    let noapi = || "\"result\":\"noapi\"".to_string();
    match api {
        "L.rd" | "L.wr" if cols.len() >= 6 => {
            let buf = unhex(cols[3]);
            let scheds = parse_schedules(cols[4]);
            let op = Op { write: api == "L.wr", buf: &buf, scheds: &scheds, trace: cols[5].parse().unwrap_or(-1) };
            match cols[0] {
                "2" => tables::version_2::dispatch(cols[1], cols[2], &op),
                "3" => tables::version_3::dispatch(cols[1], cols[2], &op),
                "5" => tables::version_5::dispatch(cols[1], cols[2], &op),
                "6" => tables::version_6::dispatch(cols[1], cols[2], &op),
                "7" => tables::version_7::dispatch(cols[1], cols[2], &op),
                "8" => tables::version_8::dispatch(cols[1], cols[2], &op),
                _ => noapi(),
            }
        }
        "W.rd" if cols.len() >= 8 => {
            let buf = unhex(cols[5]);
            let scheds = parse_schedules(cols[6]);
            let hdr: usize = cols[4].parse().unwrap_or(0);
            let trace = cols[7].parse().unwrap_or(-1);
            match cols[0] {
                "vanilla" => tables::vanilla::dispatch(cols[1], cols[2], cols[3], hdr, &buf, false, &scheds, trace),
                "tbc" => tables::tbc::dispatch(cols[1], cols[2], cols[3], hdr, &buf, false, &scheds, trace),
                "wrath" => tables::wrath::dispatch(cols[1], cols[2], cols[3], hdr, &buf, false, &scheds, trace),
                _ => noapi(),
            }
        }
        "W.wr" if cols.len() >= 7 => {
            let buf = unhex(cols[4]);
            let scheds = parse_schedules(cols[5]);
            let trace = cols[6].parse().unwrap_or(-1);
            match cols[0] {
                "vanilla" => tables::vanilla::dispatch(cols[1], cols[2], cols[3], 0, &buf, true, &scheds, trace),
                "tbc" => tables::tbc::dispatch(cols[1], cols[2], cols[3], 0, &buf, true, &scheds, trace),
                "wrath" => tables::wrath::dispatch(cols[1], cols[2], cols[3], 0, &buf, true, &scheds, trace),
                _ => noapi(),
            }
        }
        "W.names" if cols.len() >= 2 => match (cols[0], cols[1]) {
            ("vanilla", "client") => names_json(tables::vanilla::CLIENT_NAMES),
            ("vanilla", _) => names_json(tables::vanilla::SERVER_NAMES),
            ("tbc", "client") => names_json(tables::tbc::CLIENT_NAMES),
            ("tbc", _) => names_json(tables::tbc::SERVER_NAMES),
            ("wrath", "client") => names_json(tables::wrath::CLIENT_NAMES),
            ("wrath", _) => names_json(tables::wrath::SERVER_NAMES),
            _ => noapi(),
        },
        "P.rt" if cols.len() >= 6 => {
            let buf = unhex(cols[2]);
            let rs = parse_schedules(cols[3]);
            let ws = parse_schedules(cols[4]);
            let op = proto::ProtoOp { buf: &buf, rscheds: &rs, wscheds: &ws, trace: cols[5].parse().unwrap_or(-1) };
            tables::proto_dispatch(cols[0], cols[1].parse().unwrap_or(0), &op).unwrap_or_else(noapi)
        }
        "P.pairs" => {
            let mut s = String::from("\"result\":\"ok\",\"pairs\":[");
            for (i, (n, d, v)) in tables::PROTO_PAIRS.iter().enumerate() {
                if i > 0 {
                    s.push(',');
                }
                s.push_str(&format!("[{},{},{}]", jstr(n), jstr(d), v));
            }
            s.push(']');
            s
        }
        _ => noapi(),
    }
}

fn main() {
    mon::main(handler);
}
