//! C14: one (message family, protocol version) pair of the login collective layer.
//! Logs what the version's own codec, the lift/lower pair and the protocol-parameterised entry points did.
//!   V = the message type exported by `version_N` (that version's own codec)
//!   A = `<Main as CollectiveMessage>::VersionN` (what the collective layer says the version's type is)
//!   M = the collective (latest) type

use crate::io::*;
use crate::{guarded, io_desc, login_err, out_field, Agg};
use std::any::TypeId;
use std::io::Cursor;
use wow_login_messages::all::ProtocolVersion;
use wow_login_messages::helper as H;
use wow_login_messages::version_8::opcodes::{ClientOpcodeMessage, ServerOpcodeMessage};
use wow_login_messages::{ClientMessage, CollectiveMessage, Message, ServerMessage};

pub struct ProtoOp<'a> {
    pub buf: &'a [u8],
    pub rscheds: &'a [Schedule],
    pub wscheds: &'a [Schedule],
    pub trace: i64,
}

fn wr<T: Message>(v: &T) -> String {
    let mut o = Vec::new();
    match guarded(|| v.write(&mut o)) {
        Ok(Ok(())) => out_field("out", &o),
        Ok(Err(e)) => format!("\"write\":{{{}}}", io_desc(&e)),
        Err(p) => format!("\"write\":{{{}}}", p),
    }
}

fn wrp<T: CollectiveMessage>(v: &T, pv: ProtocolVersion, name: &str) -> String {
    let mut o = Vec::new();
    match guarded(|| v.write_protocol(&mut o, pv)) {
        Ok(Ok(())) => out_field(name, &o),
        Ok(Err(e)) => format!("\"{}_write\":{{{}}}", name, io_desc(&e)),
        Err(p) => format!("\"{}_write\":{{{}}}", name, p),
    }
}

macro_rules! proto_fn {
    ($fname:ident, $Side:ident, $expect:ident, $expect_p:ident, $tokio_p:ident, $astd_p:ident, $Enum:ident, $wenum:ident) => {
        pub fn $fname<M, A, V>(op: &ProtoOp, pv: ProtocolVersion, from: impl Fn(A) -> M, to: impl Fn(&M) -> A, wrap: impl Fn(M) -> $Enum) -> String
        where
            M: CollectiveMessage + $Side + PartialEq + Clone + 'static,
            A: $Side + PartialEq + Clone + 'static,
            V: $Side + PartialEq + 'static,
        {
            let buf = op.buf;
            let mut s = format!("\"result\":\"done\",\"same_type\":{}", TypeId::of::<A>() == TypeId::of::<V>());
            // the version's own codec
            let mut c = Cursor::new(buf);
            let own = match guarded(|| H::$expect::<V, _>(&mut c)) {
                Err(p) => p,
                Ok(Err(e)) => format!("{},\"consumed\":{}", login_err(&e), c.position()),
                Ok(Ok(v)) => format!("\"result\":\"ok\",\"consumed\":{},{}", c.position(), wr(&v)),
            };
            s.push_str(&format!(",\"own\":{{{}}}", own));
            // the same bytes as the type the collective layer names, lifted and lowered
            let mut c = Cursor::new(buf);
            let mut lifted: Option<M> = None;
            let via = match guarded(|| H::$expect::<A, _>(&mut c)) {
                Err(p) => p,
                Ok(Err(e)) => format!("{},\"consumed\":{}", login_err(&e), c.position()),
                Ok(Ok(v)) => {
                    let mut d = format!("\"result\":\"ok\",\"consumed\":{},{}", c.position(), wr(&v));
                    match guarded(|| {
                        let l = from(v.clone());
                        let low = to(&l);
                        (l, low)
                    }) {
                        Err(p) => d.push_str(&format!(",\"lift\":{{{}}}", p)),
                        Ok((l, low)) => {
                            d.push_str(&format!(",\"lift\":{{\"result\":\"ok\",\"lower_eq\":{},{},{}}}", low == v, wr(&low), wrp(&l, pv, "lifted_out")));
                            lifted = Some(l);
                        }
                    }
                    d
                }
            };
            s.push_str(&format!(",\"via\":{{{}}}", via));
            // protocol-parameterised typed helper
            let mut c = Cursor::new(buf);
            let mut pval: Option<M> = None;
            let proto = match guarded(|| H::$expect_p::<M, _>(&mut c, pv)) {
                Err(p) => p,
                Ok(Err(e)) => format!("{},\"consumed\":{}", login_err(&e), c.position()),
                Ok(Ok(p)) => {
                    let eq = match &lifted {
                        Some(l) => format!(",\"eq\":{}", *l == p),
                        None => String::new(),
                    };
                    let d = format!("\"result\":\"ok\",\"consumed\":{}{},{}", c.position(), eq, wrp(&p, pv, "out"));
                    pval = Some(p);
                    d
                }
            };
            s.push_str(&format!(",\"proto\":{{{}}}", proto));
            // protocol-parameterised opcode enum
            let mut c = Cursor::new(buf);
            let mut eval: Option<$Enum> = None;
            let en = match guarded(|| $Enum::read_protocol(&mut c, pv)) {
                Err(p) => p,
                Ok(Err(e)) => format!("{},\"consumed\":{}", login_err(&e), c.position()),
                Ok(Ok(e)) => {
                    let eq = match &lifted {
                        Some(l) => format!(",\"eq\":{}", wrap(l.clone()) == e),
                        None => String::new(),
                    };
                    let mut o = Vec::new();
                    let w = match guarded(|| crate::tables::$wenum(&e, pv, &mut o)) {
                        Ok(Ok(())) => out_field("out", &o),
                        Ok(Err(x)) => format!("\"write\":{{{}}}", io_desc(&x)),
                        Err(p) => format!("\"write\":{{{}}}", p),
                    };
                    let d = format!("\"result\":\"ok\",\"consumed\":{}{},{}", c.position(), eq, w);
                    eval = Some(e);
                    d
                }
            };
            s.push_str(&format!(",\"enum\":{{{}}}", en));
            // the async protocol functions under schedules
            if !op.rscheds.is_empty() {
                for which in 0..4 {
                    let mut agg = Agg::new();
                    for (i, sc) in op.rscheds.iter().enumerate() {
                        let tr = op.trace == i as i64;
                        let mut r = ScriptedReader::new(buf, sc, tr);
                        let limit = (buf.len() as u64) * 4 + sc.len() as u64 + 10_000;
                        let desc = if which < 2 {
                            let res = guarded(|| {
                                block_on(
                                    async {
                                        if which == 0 {
                                            H::$tokio_p::<M, _>(&mut r, pv).await
                                        } else {
                                            H::$astd_p::<M, _>(&mut r, pv).await
                                        }
                                    },
                                    limit,
                                )
                            });
                            match res {
                                Err(p) => format!("{},\"consumed\":{}", p, r.pos),
                                Ok((Ran::Done(Ok(v)), _)) => {
                                    let eq = match &pval {
                                        Some(p) => format!(",\"eq\":{}", *p == v),
                                        None => String::new(),
                                    };
                                    format!("\"result\":\"ok\",\"consumed\":{}{},{}", r.pos, eq, wrp(&v, pv, "out"))
                                }
                                Ok((Ran::Done(Err(e)), _)) => format!("{},\"consumed\":{}", login_err(&e), r.pos),
                                Ok((Ran::Stalled, _)) => format!("\"result\":\"stalled\",\"consumed\":{}", r.pos),
                                Ok((Ran::Runaway, _)) => format!("\"result\":\"runaway\",\"consumed\":{}", r.pos),
                            }
                        } else {
                            let res = guarded(|| {
                                block_on(
                                    async {
                                        if which == 2 {
                                            $Enum::tokio_read_protocol(&mut r, pv).await
                                        } else {
                                            $Enum::astd_read_protocol(&mut r, pv).await
                                        }
                                    },
                                    limit,
                                )
                            });
                            match res {
                                Err(p) => format!("{},\"consumed\":{}", p, r.pos),
                                Ok((Ran::Done(Ok(v)), _)) => {
                                    let eq = match &eval {
                                        Some(p) => format!(",\"eq\":{}", *p == v),
                                        None => String::new(),
                                    };
                                    let mut o = Vec::new();
                                    let _ = guarded(|| crate::tables::$wenum(&v, pv, &mut o));
                                    format!("\"result\":\"ok\",\"consumed\":{}{},{}", r.pos, eq, out_field("out", &o))
                                }
                                Ok((Ran::Done(Err(e)), _)) => format!("{},\"consumed\":{}", login_err(&e), r.pos),
                                Ok((Ran::Stalled, _)) => format!("\"result\":\"stalled\",\"consumed\":{}", r.pos),
                                Ok((Ran::Runaway, _)) => format!("\"result\":\"runaway\",\"consumed\":{}", r.pos),
                            }
                        };
                        if tr {
                            agg.trace = Some(trace_json(&r.trace));
                        }
                        agg.add(desc, i, r.stats, 0);
                    }
                    s.push(',');
                    s.push_str(&agg.json(["tokio", "astd", "tokio_enum", "astd_enum"][which]));
                }
            }
            if let (Some(l), false) = (&lifted, op.wscheds.is_empty()) {
                for which in 0..2 {
                    let mut agg = Agg::new();
                    for (i, sc) in op.wscheds.iter().enumerate() {
                        let mut w = ScriptedWriter::new(sc, false);
                        let limit = (buf.len() as u64) * 8 + sc.len() as u64 + 10_000;
                        let res = guarded(|| {
                            block_on(
                                async {
                                    if which == 0 {
                                        l.tokio_write_protocol(&mut w, pv).await
                                    } else {
                                        l.astd_write_protocol(&mut w, pv).await
                                    }
                                },
                                limit,
                            )
                        });
                        let desc = match res {
                            Err(p) => format!("{},{}", p, out_field("out", &w.out)),
                            Ok((Ran::Done(Ok(())), _)) => format!("\"result\":\"ok\",{}", out_field("out", &w.out)),
                            Ok((Ran::Done(Err(e)), _)) => format!("{},{}", io_desc(&e), out_field("out", &w.out)),
                            Ok((Ran::Stalled, _)) => format!("\"result\":\"stalled\",{}", out_field("out", &w.out)),
                            Ok((Ran::Runaway, _)) => format!("\"result\":\"runaway\",{}", out_field("out", &w.out)),
                        };
                        agg.add(desc, i, w.stats, 0);
                    }
                    s.push(',');
                    s.push_str(&agg.json(["wtokio", "wastd"][which]));
                }
            }
            s
        }
    };
}

proto_fn!(proto_client, ClientMessage, expect_client_message, expect_client_message_protocol, tokio_expect_client_message_protocol, astd_expect_client_message_protocol, ClientOpcodeMessage, write_protocol_client);
proto_fn!(proto_server, ServerMessage, expect_server_message, expect_server_message_protocol, tokio_expect_server_message_protocol, astd_expect_server_message_protocol, ServerOpcodeMessage, write_protocol_server);
