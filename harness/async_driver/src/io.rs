//! Scripted transports and a runtime-free executor.
//!
//! A schedule is a list of items: `Chunk(k)` = "k bytes are available now" (a poll asking for more gets a
//! short read / short write of what is left of the chunk, the next poll starts the next item),
//! `Pending` = "this poll returns Poll::Pending" (the waker is woken from inside the poll, so the executor
//! re-polls at once and the run is exactly replayable).  When the schedule is used up, everything
//! that is left is delivered as asked.  End of data = a read of 0 bytes (EOF).
//!
//! text form:  `3,P,P2,1x4,5`  (number = chunk, `AxB` = B chunks of A bytes, `P` = one Pending, `Pk` = k Pendings);
//! `w` or empty = no items.

use std::future::Future;
use std::io;
use std::pin::Pin;
use std::sync::atomic::{AtomicUsize, Ordering::Relaxed};
use std::sync::Arc;
use std::task::{Context, Poll, Wake, Waker};

#[derive(Clone, Copy, Debug, PartialEq)]
pub enum Item {
    Chunk(usize),
    Pending,
}

pub type Schedule = Vec<Item>;

pub fn parse_schedule(s: &str) -> Schedule {
    let mut out = Vec::new();
    for t in s.split(',') {
        let t = t.trim();
        if t.is_empty() || t == "w" {
            continue;
        }
        if let Some(k) = t.strip_prefix('P') {
            let n: usize = if k.is_empty() { 1 } else { k.parse().unwrap_or(1) };
            for _ in 0..n {
                out.push(Item::Pending);
            }
        } else if let Some((a, b)) = t.split_once('x') {
            // AxB = B chunks of A bytes
            let (a, b): (usize, usize) = (a.parse().unwrap_or(0), b.parse().unwrap_or(0));
            if a > 0 {
                for _ in 0..b {
                    out.push(Item::Chunk(a));
                }
            }
        } else if let Ok(n) = t.parse::<usize>() {
            if n > 0 {
                out.push(Item::Chunk(n));
            }
        }
    }
    out
}

pub fn parse_schedules(s: &str) -> Vec<Schedule> {
    if s == "-" {
        return vec![];
    }
    s.split(';').map(parse_schedule).collect()
}

#[derive(Default, Clone, Copy)]
pub struct Stats {
    pub polls: u64,
    pub pendings: u64,
    /// polls that got fewer bytes than they asked for (and more than none)
    pub short: u64,
}

struct Script {
    sched: Schedule,
    si: usize,
    left: usize,
}

enum Step {
    Pending,
    /// at most this many bytes may move in this poll
    Upto(usize),
}

impl Script {
    fn new(sched: &Schedule) -> Self {
        Script { sched: sched.clone(), si: 0, left: 0 }
    }
    fn step(&mut self) -> Step {
        if self.left == 0 {
            if self.si < self.sched.len() {
                let it = self.sched[self.si];
                self.si += 1;
                match it {
                    Item::Pending => return Step::Pending,
                    Item::Chunk(c) => self.left = c,
                }
            } else {
                self.left = usize::MAX;
            }
        }
        Step::Upto(self.left)
    }
    fn took(&mut self, n: usize) {
        if self.left != usize::MAX {
            self.left -= n;
        }
    }
}

// ------------------------------------------------------------------------------------------------

pub struct ScriptedReader {
    data: Vec<u8>,
    pub pos: usize,
    script: Script,
    pub stats: Stats,
    /// (requested, delivered) per poll; delivered = -1 for Pending
    pub trace: Option<Vec<(usize, i64)>>,
}

impl ScriptedReader {
    pub fn new(data: &[u8], sched: &Schedule, trace: bool) -> Self {
        ScriptedReader { data: data.to_vec(), pos: 0, script: Script::new(sched), stats: Stats::default(), trace: if trace { Some(Vec::new()) } else { None } }
    }

    /// -> None = Pending, Some(range) = bytes delivered by this poll
    fn poll_common(&mut self, want: usize, cx: &mut Context<'_>) -> Option<std::ops::Range<usize>> {
        self.stats.polls += 1;
        if want == 0 {
            if let Some(t) = self.trace.as_mut() {
                t.push((0, 0));
            }
            return Some(self.pos..self.pos);
        }
        match self.script.step() {
            Step::Pending => {
                self.stats.pendings += 1;
                if let Some(t) = self.trace.as_mut() {
                    t.push((want, -1));
                }
                cx.waker().wake_by_ref();
                None
            }
            Step::Upto(k) => {
                let n = want.min(k).min(self.data.len() - self.pos);
                self.script.took(n);
                if n > 0 && n < want {
                    self.stats.short += 1;
                }
                if let Some(t) = self.trace.as_mut() {
                    t.push((want, n as i64));
                }
                let r = self.pos..self.pos + n;
                self.pos += n;
                Some(r)
            }
        }
    }
}

impl tokio::io::AsyncRead for ScriptedReader {
    fn poll_read(self: Pin<&mut Self>, cx: &mut Context<'_>, buf: &mut tokio::io::ReadBuf<'_>) -> Poll<io::Result<()>> {
        let me = self.get_mut();
        match me.poll_common(buf.remaining(), cx) {
            None => Poll::Pending,
            Some(r) => {
                buf.put_slice(&me.data[r]);
                Poll::Ready(Ok(()))
            }
        }
    }
}

impl async_std::io::Read for ScriptedReader {
    fn poll_read(self: Pin<&mut Self>, cx: &mut Context<'_>, buf: &mut [u8]) -> Poll<io::Result<usize>> {
        let me = self.get_mut();
        match me.poll_common(buf.len(), cx) {
            None => Poll::Pending,
            Some(r) => {
                let n = r.len();
                buf[..n].copy_from_slice(&me.data[r]);
                Poll::Ready(Ok(n))
            }
        }
    }
}

// ------------------------------------------------------------------------------------------------

pub struct ScriptedWriter {
    pub out: Vec<u8>,
    script: Script,
    pub stats: Stats,
    pub flushes: u64,
    pub trace: Option<Vec<(usize, i64)>>,
}

impl ScriptedWriter {
    pub fn new(sched: &Schedule, trace: bool) -> Self {
        ScriptedWriter { out: Vec::new(), script: Script::new(sched), stats: Stats::default(), flushes: 0, trace: if trace { Some(Vec::new()) } else { None } }
    }

    fn poll_common(&mut self, buf: &[u8], cx: &mut Context<'_>) -> Poll<io::Result<usize>> {
        self.stats.polls += 1;
        if buf.is_empty() {
            return Poll::Ready(Ok(0));
        }
        match self.script.step() {
            Step::Pending => {
                self.stats.pendings += 1;
                if let Some(t) = self.trace.as_mut() {
                    t.push((buf.len(), -1));
                }
                cx.waker().wake_by_ref();
                Poll::Pending
            }
            Step::Upto(k) => {
                let n = buf.len().min(k);
                self.script.took(n);
                if n < buf.len() {
                    self.stats.short += 1;
                }
                if let Some(t) = self.trace.as_mut() {
                    t.push((buf.len(), n as i64));
                }
                self.out.extend_from_slice(&buf[..n]);
                Poll::Ready(Ok(n))
            }
        }
    }
}

impl tokio::io::AsyncWrite for ScriptedWriter {
    fn poll_write(self: Pin<&mut Self>, cx: &mut Context<'_>, buf: &[u8]) -> Poll<io::Result<usize>> {
        self.get_mut().poll_common(buf, cx)
    }
    fn poll_flush(self: Pin<&mut Self>, _cx: &mut Context<'_>) -> Poll<io::Result<()>> {
        self.get_mut().flushes += 1;
        Poll::Ready(Ok(()))
    }
    fn poll_shutdown(self: Pin<&mut Self>, _cx: &mut Context<'_>) -> Poll<io::Result<()>> {
        Poll::Ready(Ok(()))
    }
}

impl async_std::io::Write for ScriptedWriter {
    fn poll_write(self: Pin<&mut Self>, cx: &mut Context<'_>, buf: &[u8]) -> Poll<io::Result<usize>> {
        self.get_mut().poll_common(buf, cx)
    }
    fn poll_flush(self: Pin<&mut Self>, _cx: &mut Context<'_>) -> Poll<io::Result<()>> {
        self.get_mut().flushes += 1;
        Poll::Ready(Ok(()))
    }
    fn poll_close(self: Pin<&mut Self>, _cx: &mut Context<'_>) -> Poll<io::Result<()>> {
        Poll::Ready(Ok(()))
    }
}

// ------------------------------------------------------------------------------------------------
// executor: one thread, no runtime; a counting waker tells whether a Pending future asked to be polled again

struct CountingWaker(AtomicUsize);

impl Wake for CountingWaker {
    fn wake(self: Arc<Self>) {
        self.0.fetch_add(1, Relaxed);
    }
    fn wake_by_ref(self: &Arc<Self>) {
        self.0.fetch_add(1, Relaxed);
    }
}

pub enum Ran<T> {
    Done(T),
    /// the future returned Pending without anybody having woken the waker (would hang on a real runtime)
    Stalled,
    /// more than `limit` polls
    Runaway,
}

pub fn block_on<F: Future>(f: F, limit: u64) -> (Ran<F::Output>, u64) {
    let wk = Arc::new(CountingWaker(AtomicUsize::new(0)));
    let waker = Waker::from(wk.clone());
    let mut cx = Context::from_waker(&waker);
    let mut f = std::pin::pin!(f);
    let mut polls = 0u64;
    loop {
        polls += 1;
        let before = wk.0.load(Relaxed);
        match f.as_mut().poll(&mut cx) {
            Poll::Ready(v) => return (Ran::Done(v), polls),
            Poll::Pending => {
                if wk.0.load(Relaxed) == before {
                    return (Ran::Stalled, polls);
                }
                if polls > limit {
                    return (Ran::Runaway, polls);
                }
            }
        }
    }
}

pub fn trace_json(t: &Option<Vec<(usize, i64)>>) -> String {
    let mut s = String::from("[");
    if let Some(t) = t {
        for (i, (w, d)) in t.iter().take(400).enumerate() {
            if i > 0 {
                s.push(',');
            }
            if *d < 0 {
                s.push_str(&format!("[{},\"P\"]", w));
            } else {
                s.push_str(&format!("[{},{}]", w, d));
            }
        }
    }
    s.push(']');
    s
}
