// Scrapes the *API surface* of the generated update-mask accessors (impl block type names, fn names,
// receiver form, parameter names/types, return types; constructors of the struct types used as
// arguments) from the repository's current tree and generates the dispatch tables of the driver.
// No offsets, sizes or expected values are taken from the repository.
use std::collections::{BTreeMap, BTreeSet};
use std::fmt::Write as _;
use std::path::{Path, PathBuf};

#[derive(Clone)]
struct Func {
    name: String,
    form: &'static str, // "bset" (builder, by value), "set" (&mut self), "get" (&self)
    params: Vec<(String, String)>,
    ret: String,
}

fn split_top(s: &str) -> Vec<String> {
    let mut out = Vec::new();
    let mut depth = 0i32;
    let mut cur = String::new();
    for c in s.chars() {
        match c {
            '(' | '[' | '<' => {
                depth += 1;
                cur.push(c)
            }
            ')' | ']' | '>' => {
                depth -= 1;
                cur.push(c)
            }
            ',' if depth == 0 => {
                out.push(cur.trim().to_string());
                cur.clear();
            }
            _ => cur.push(c),
        }
    }
    if !cur.trim().is_empty() {
        out.push(cur.trim().to_string());
    }
    out
}

/// `pub fn name(params) -> ret {`  ->  (name, params-text, ret-text)
fn parse_fn(line: &str) -> Option<(String, String, String)> {
    let t = line.trim();
    let rest = t.strip_prefix("pub const fn ").or_else(|| t.strip_prefix("pub fn "))?;
    let p = rest.find('(')?;
    let name = rest[..p].to_string();
    let mut depth = 0;
    let mut end = None;
    for (i, c) in rest[p..].char_indices() {
        match c {
            '(' => depth += 1,
            ')' => {
                depth -= 1;
                if depth == 0 {
                    end = Some(p + i);
                    break;
                }
            }
            _ => {}
        }
    }
    let end = end?;
    let params = rest[p + 1..end].to_string();
    let tail = rest[end + 1..].trim().trim_end_matches('{').trim();
    let ret = tail.strip_prefix("->").map(|s| s.trim().to_string()).unwrap_or_default();
    Some((name, params, ret))
}

fn snake(name: &str) -> String {
    let mut o = String::new();
    for (i, c) in name.chars().enumerate() {
        if c.is_ascii_uppercase() {
            if i != 0 {
                o.push('_');
            }
            o.push(c.to_ascii_lowercase());
        } else {
            o.push(c);
        }
    }
    o
}

const PRIMS: [&str; 6] = ["i32", "f32", "u8", "u16", "u32", "Guid"];

fn bare(t: &str) -> String {
    t.rsplit("::").next().unwrap_or(t).trim().to_string()
}

/// element types mentioned in a type text: `Option<(Race, u8)>` -> [Race, u8]; `[u32; 2]` -> [u32]
fn leaf_types(t: &str) -> Vec<String> {
    let mut t = t.trim().to_string();
    if let Some(inner) = t.strip_prefix("Option<") {
        t = inner.trim_end_matches('>').to_string();
    }
    let t = t.trim();
    if let Some(inner) = t.strip_prefix('(') {
        return split_top(inner.trim_end_matches(')')).iter().flat_map(|x| leaf_types(x)).collect();
    }
    if let Some(inner) = t.strip_prefix('[') {
        let e = inner.split(';').next().unwrap_or("").trim().to_string();
        return vec![e];
    }
    vec![t.to_string()]
}

fn jstr(s: &str) -> String {
    format!("\"{}\"", s.replace('\\', "\\\\").replace('"', "\\\""))
}

fn rust_path(t: &str, exp: &str) -> String {
    let b = bare(t);
    if b == "Guid" {
        "wow_world_messages::Guid".to_string()
    } else if PRIMS.contains(&b.as_str()) {
        b
    } else {
        format!("wow_world_messages::{}::{}", exp, b)
    }
}

fn struct_ctor(repo: &Path, exp: &str, name: &str) -> Option<Vec<(String, String)>> {
    let p = repo.join(format!("wow_world_messages/src/world/{}/{}.rs", exp, snake(name)));
    println!("cargo:rerun-if-changed={}", p.display());
    let src = std::fs::read_to_string(&p).ok()?;
    if !src.contains(&format!("pub struct {} {{", name)) {
        return None;
    }
    for line in src.lines() {
        if line.trim_start().starts_with("pub const fn new(") || line.trim_start().starts_with("pub fn new(") {
            let (_, params, _) = parse_fn(line)?;
            let mut out = Vec::new();
            for p in split_top(&params) {
                let (n, t) = p.split_once(':')?;
                out.push((n.trim().to_string(), t.trim().to_string()));
            }
            return Some(out);
        }
    }
    None
}

fn main() {
    let repo = PathBuf::from(std::env::var("WOWM_REPO").unwrap_or_else(|_| "/repo".into()));
    println!("cargo:rerun-if-env-changed=WOWM_REPO");
    let mut g = String::new();
    for exp in ["vanilla", "tbc", "wrath"] {
        let p = repo.join(format!("wow_world_messages/src/helper/{}/update_mask/impls.rs", exp));
        println!("cargo:rerun-if-changed={}", p.display());
        let src = std::fs::read_to_string(&p).unwrap_or_default();
        // impl type -> functions
        let mut impls: Vec<(String, Vec<Func>)> = Vec::new();
        for line in src.lines() {
            let t = line.trim_end();
            if let Some(r) = t.strip_prefix("impl ") {
                if let Some(n) = r.strip_suffix(" {") {
                    impls.push((n.trim().to_string(), Vec::new()));
                }
                continue;
            }
            if t.trim_start().starts_with("pub fn ") {
                if let Some((name, params, ret)) = parse_fn(t) {
                    let ps = split_top(&params);
                    if ps.is_empty() {
                        continue;
                    }
                    let form = match ps[0].as_str() {
                        "mut self" | "self" => "bset",
                        "&mut self" => "set",
                        "&self" => "get",
                        _ => continue,
                    };
                    let mut pl = Vec::new();
                    for p in &ps[1..] {
                        if let Some((n, ty)) = p.split_once(':') {
                            pl.push((n.trim().to_string(), ty.trim().to_string()));
                        }
                    }
                    if let Some(last) = impls.last_mut() {
                        last.1.push(Func { name, form, params: pl, ret });
                    }
                }
            }
        }
        // classify the non-primitive types
        let mut arg_types: BTreeSet<String> = BTreeSet::new();
        let mut show_types: BTreeSet<String> = BTreeSet::new();
        for (_, fs) in &impls {
            for f in fs {
                for (_, t) in &f.params {
                    for l in leaf_types(t) {
                        arg_types.insert(bare(&l));
                    }
                }
                if f.form == "get" {
                    for l in leaf_types(&f.ret) {
                        show_types.insert(bare(&l));
                    }
                }
            }
        }
        let mut structs: BTreeMap<String, Vec<(String, String)>> = BTreeMap::new();
        let all: Vec<String> = arg_types.union(&show_types).cloned().collect();
        for t in &all {
            if PRIMS.contains(&t.as_str()) {
                continue;
            }
            if let Some(c) = struct_ctor(&repo, exp, t) {
                for (_, pt) in &c {
                    for l in leaf_types(pt) {
                        // struct members are both parsed and shown
                        arg_types.insert(bare(&l));
                        show_types.insert(bare(&l));
                    }
                }
                structs.insert(t.clone(), c);
            }
        }
        let all: Vec<String> = arg_types.union(&show_types).cloned().collect();
        let is_enum = |t: &String| !PRIMS.contains(&t.as_str()) && !structs.contains_key(t);

        // ---- describe json
        let mut j = String::from("{\"kinds\":{");
        let mut kinds: Vec<String> = Vec::new();
        for (ty, _) in &impls {
            if !ty.ends_with("Builder") && !kinds.contains(ty) {
                kinds.push(ty.clone());
            }
        }
        for (ki, k) in kinds.iter().enumerate() {
            if ki > 0 {
                j.push(',');
            }
            let _ = write!(j, "{}:[", jstr(k));
            let mut first = true;
            for (ty, fs) in &impls {
                if ty != k && ty != &format!("{}Builder", k) {
                    continue;
                }
                for f in fs {
                    if !first {
                        j.push(',');
                    }
                    first = false;
                    let ps: Vec<String> = f.params.iter().map(|(n, t)| format!("[{},{}]", jstr(n), jstr(t))).collect();
                    let _ = write!(j, "{{\"n\":{},\"form\":{},\"p\":[{}],\"r\":{}}}", jstr(&f.name), jstr(f.form), ps.join(","), jstr(&f.ret));
                }
            }
            j.push(']');
        }
        j.push_str("},\"structs\":{");
        for (i, (n, c)) in structs.iter().enumerate() {
            if i > 0 {
                j.push(',');
            }
            let ps: Vec<String> = c.iter().map(|(n, t)| format!("[{},{}]", jstr(n), jstr(t))).collect();
            let _ = write!(j, "{}:[{}]", jstr(n), ps.join(","));
        }
        j.push_str("},\"enums\":[");
        let en: Vec<String> = all.iter().filter(|t| is_enum(t)).map(|t| jstr(t)).collect();
        j.push_str(&en.join(","));
        j.push_str("]}");

        // ---- code
        let _ = writeln!(g, "pub mod {} {{", exp);
        let _ = writeln!(g, "    #![allow(unused, non_snake_case, clippy::all)]");
        let _ = writeln!(g, "    crate::prelude!();");
        let _ = writeln!(g, "    use wow_world_messages::{} as X;", exp);
        let _ = writeln!(g, "    pub const API: &str = {:?};", j);
        for t in all.iter().filter(|t| is_enum(t)) {
            if arg_types.contains(t) {
                let _ = writeln!(g, "    crate::enum_arg!({});", rust_path(t, exp));
            }
            if show_types.contains(t) {
                let _ = writeln!(g, "    crate::enum_show!({});", rust_path(t, exp));
            }
        }
        for (n, c) in &structs {
            let path = rust_path(n, exp);
            // Arg
            let _ = writeln!(g, "    impl Arg for {} {{\n        fn parse(s: &str) -> Option<Self> {{", path);
            let _ = writeln!(g, "            let p: Vec<&str> = s.split('/').collect();\n            let mut i = 0usize;");
            for (k, (_, t)) in c.iter().enumerate() {
                let t = t.trim();
                if let Some(inner) = t.strip_prefix('[') {
                    let mut it = inner.trim_end_matches(']').split(';');
                    let et = rust_path(it.next().unwrap_or("").trim(), exp);
                    let cnt: usize = it.next().unwrap_or("0").trim().parse().unwrap_or(0);
                    let elems: Vec<String> = (0..cnt).map(|e| format!("<{} as Arg>::parse(p.get(i + {})?)?", et, e)).collect();
                    let _ = writeln!(g, "            let a{} = [{}]; i += {};", k, elems.join(", "), cnt);
                } else {
                    let _ = writeln!(g, "            let a{} = <{} as Arg>::parse(p.get(i)?)?; i += 1;", k, rust_path(t, exp));
                }
            }
            let names: Vec<String> = (0..c.len()).map(|k| format!("a{}", k)).collect();
            let _ = writeln!(g, "            if i != p.len() {{ return None; }}\n            Some(<{}>::new({}))\n        }}\n    }}", path, names.join(", "));
            // Show
            let _ = writeln!(g, "    impl Show for {} {{\n        fn show(&self, o: &mut Vec<u64>) {{", path);
            for (fname, t) in c {
                if t.trim().starts_with('[') {
                    let _ = writeln!(g, "            for e in self.{}.iter() {{ e.show(o); }}", fname);
                } else {
                    let _ = writeln!(g, "            self.{}.show(o);", fname);
                }
            }
            let _ = writeln!(g, "        }}\n    }}");
        }
        for k in &kinds {
            let b = format!("{}Builder", k);
            for (form, ty) in [("bset", &b), ("set", k), ("get", k)] {
                let fs: Vec<&Func> = impls.iter().filter(|(t, _)| t == ty).flat_map(|(_, fs)| fs.iter()).filter(|f| f.form == form).collect();
                match form {
                    "bset" => {
                        let _ = writeln!(g, "    pub fn bset_{k}(b: X::{ty}, name: &str, a: &[&str]) -> Result<X::{ty}, String> {{\n        Ok(match name {{", k = k, ty = ty);
                        for f in fs {
                            let n = f.params.len();
                            let lets: Vec<String> = (0..n).map(|i| format!("let p{i} = arg(a, {i})?;", i = i)).collect();
                            let ps: Vec<String> = (0..n).map(|i| format!("p{}", i)).collect();
                            let _ = writeln!(g, "            {:?} => {{ nargs(a, {})?; {} b.{}({}) }}", f.name, n, lets.join(" "), f.name, ps.join(", "));
                        }
                        let _ = writeln!(g, "            _ => return Err(format!(\"unknown builder setter {{}}\", name)),\n        }})\n    }}");
                    }
                    "set" => {
                        let _ = writeln!(g, "    pub fn set_{k}(m: &mut X::{k}, name: &str, a: &[&str]) -> Result<(), String> {{\n        match name {{", k = k);
                        for f in fs {
                            let n = f.params.len();
                            let lets: Vec<String> = (0..n).map(|i| format!("let p{i} = arg(a, {i})?;", i = i)).collect();
                            let ps: Vec<String> = (0..n).map(|i| format!("p{}", i)).collect();
                            let _ = writeln!(g, "            {:?} => {{ nargs(a, {})?; {} m.{}({}); }}", f.name, n, lets.join(" "), f.name, ps.join(", "));
                        }
                        let _ = writeln!(g, "            _ => return Err(format!(\"unknown setter {{}}\", name)),\n        }}\n        Ok(())\n    }}");
                    }
                    _ => {
                        let _ = writeln!(g, "    pub fn get_{k}(m: &X::{k}, name: &str, a: &[&str]) -> Result<String, String> {{\n        Ok(match name {{", k = k);
                        for f in fs {
                            let n = f.params.len();
                            let lets: Vec<String> = (0..n).map(|i| format!("let p{i} = arg(a, {i})?;", i = i)).collect();
                            let ps: Vec<String> = (0..n).map(|i| format!("p{}", i)).collect();
                            let _ = writeln!(g, "            {:?} => {{ nargs(a, {})?; {} show(&m.{}({})) }}", f.name, n, lets.join(" "), f.name, ps.join(", "));
                        }
                        let _ = writeln!(g, "            _ => return Err(format!(\"unknown getter {{}}\", name)),\n        }})\n    }}");
                    }
                }
            }
            let variant = k.strip_prefix("Update").unwrap_or(k);
            let _ = writeln!(g, "    crate::seq_impl!(run_{k}, {k}, {k}Builder, {v}, set_{k}, bset_{k}, get_{k});", k = k, v = variant);
        }
        let _ = writeln!(g, "    pub fn um_kind(m: &X::UpdateMask) -> &'static str {{\n        #[allow(unreachable_patterns)]\n        match m {{");
        for k in &kinds {
            let v = k.strip_prefix("Update").unwrap_or(k);
            let _ = writeln!(g, "            X::UpdateMask::{}(_) => {:?},", v, k);
        }
        let _ = writeln!(g, "            _ => \"?\",\n        }}\n    }}");
        let _ = writeln!(g, "    pub fn run(kind: &str, start: &str, ops: &[&str]) -> String {{\n        match kind {{");
        for k in &kinds {
            let _ = writeln!(g, "            {:?} => run_{}(start, ops),", k, k);
        }
        let _ = writeln!(g, "            _ => format!(\"\\\"result\\\":\\\"harness_error\\\",\\\"why\\\":\\\"unknown kind\\\"\"),\n        }}\n    }}\n}}");
    }
    let out = PathBuf::from(std::env::var("OUT_DIR").unwrap()).join("tables.rs");
    std::fs::write(out, g).unwrap();
}
