//! umask_driver: executes operation sequences on the repository's update-mask types and logs what
//! happened.  Contains no expectations: which offsets, widths or values are right is decided by the
//! checker (monitors/c13.py) from the published field table.
//!
//! apis (columns after id, api):
//!   describe exp                       -> the scraped API surface (accessor names, parameter types)
//!   seq exp kind start op op op ...    -> log of the sequence
//!       kind  = UpdateItem | UpdateContainer | UpdateUnit | UpdatePlayer | UpdateGameObject | ...
//!       start = new | builder | default
//!       op    = b:<builder setter>:<args>     builder form (only before the first other op)
//!               s:<setter>:<args>             &mut form
//!               g:<getter>[:<args>]
//!               R  dirty_reset      F  mark_fully_dirty     A  has_any_dirty_fields
//!               D:<bit>             is_bit_dirty(bit)
//!               W:<v|c>             put the mask into SMSG_UPDATE_OBJECT (VALUES / CREATE_OBJECT2), write it
//!                                   through write_unencrypted_server, read it back through
//!                                   ServerOpcodeMessage::read_unencrypted and write that again
//!               X:<v|c>             as W, then continue the sequence on the decoded mask
//!       args  = comma separated; i32 decimal, f32 as 0x<bits>, Guid as decimal u64, enums and index
//!               types as decimal discriminants, structs as '/'-separated constructor arguments
#![allow(clippy::all)]

use mon::jstr;

#[macro_export]
macro_rules! prelude {
    () => {
pub trait Arg: Sized {
    fn parse(s: &str) -> Option<Self>;
}

pub trait Show {
    fn show(&self, o: &mut Vec<u64>);
}

impl Arg for i32 {
    fn parse(s: &str) -> Option<Self> {
        s.parse().ok()
    }
}
impl Arg for u8 {
    fn parse(s: &str) -> Option<Self> {
        s.parse().ok()
    }
}
impl Arg for u16 {
    fn parse(s: &str) -> Option<Self> {
        s.parse().ok()
    }
}
impl Arg for u32 {
    fn parse(s: &str) -> Option<Self> {
        s.parse().ok()
    }
}
impl Arg for f32 {
    fn parse(s: &str) -> Option<Self> {
        let h = s.strip_prefix("0x")?;
        Some(f32::from_bits(u32::from_str_radix(h, 16).ok()?))
    }
}
impl Arg for wow_world_messages::Guid {
    fn parse(s: &str) -> Option<Self> {
        Some(wow_world_messages::Guid::new(s.parse::<u64>().ok()?))
    }
}

impl Show for i32 {
    fn show(&self, o: &mut Vec<u64>) {
        o.push(*self as u32 as u64)
    }
}
impl Show for u8 {
    fn show(&self, o: &mut Vec<u64>) {
        o.push(*self as u64)
    }
}
impl Show for u16 {
    fn show(&self, o: &mut Vec<u64>) {
        o.push(*self as u64)
    }
}
impl Show for u32 {
    fn show(&self, o: &mut Vec<u64>) {
        o.push(*self as u64)
    }
}
impl Show for f32 {
    fn show(&self, o: &mut Vec<u64>) {
        o.push(self.to_bits() as u64)
    }
}
impl Show for wow_world_messages::Guid {
    fn show(&self, o: &mut Vec<u64>) {
        // logged as two 32 bit halves of the public u64 value
        let g = self.guid();
        o.push(g & 0xFFFF_FFFF);
        o.push(g >> 32);
    }
}
impl<A: Show, B: Show> Show for (A, B) {
    fn show(&self, o: &mut Vec<u64>) {
        self.0.show(o);
        self.1.show(o);
    }
}
impl<A: Show, B: Show, C: Show, D: Show> Show for (A, B, C, D) {
    fn show(&self, o: &mut Vec<u64>) {
        self.0.show(o);
        self.1.show(o);
        self.2.show(o);
        self.3.show(o);
    }
}

pub fn arg<T: Arg>(a: &[&str], i: usize) -> Result<T, String> {
    let s = a.get(i).ok_or_else(|| format!("missing argument {}", i))?;
    T::parse(s).ok_or_else(|| format!("argument {} not parseable: {}", i, s))
}

pub fn nargs(a: &[&str], n: usize) -> Result<(), String> {
    if a.len() == n {
        Ok(())
    } else {
        Err(format!("{} arguments given, {} expected", a.len(), n))
    }
}

pub fn show<T: Show>(v: &Option<T>) -> String {
    match v {
        None => "null".to_string(),
        Some(x) => {
            let mut o = Vec::new();
            x.show(&mut o);
            let s: Vec<String> = o.iter().map(|n| n.to_string()).collect();
            format!("[{}]", s.join(","))
        }
    }
}

    };
}

#[macro_export]
macro_rules! enum_arg {
    ($t:ty) => {
        impl Arg for $t {
            fn parse(s: &str) -> Option<Self> {
                <$t as TryFrom<u64>>::try_from(s.parse::<u64>().ok()?).ok()
            }
        }
    };
}

#[macro_export]
macro_rules! enum_show {
    ($t:ty) => {
        impl Show for $t {
            fn show(&self, o: &mut Vec<u64>) {
                o.push(self.as_int() as u64)
            }
        }
    };
}

thread_local! {
    static PANIC_LOC: std::cell::RefCell<String> = const { std::cell::RefCell::new(String::new()) };
}
static HOOK: std::sync::Once = std::sync::Once::new();

/// chain a hook in front of mon's that remembers where the last panic of this thread was raised
pub fn install_hook() {
    HOOK.call_once(|| {
        let prev = std::panic::take_hook();
        std::panic::set_hook(Box::new(move |info| {
            let loc = info.location().map(|l| format!("{}:{}", l.file(), l.line())).unwrap_or_default();
            PANIC_LOC.with(|l| *l.borrow_mut() = loc);
            prev(info);
        }));
    });
}

/// panic message followed by " @ file:line"
pub fn pmsg(p: Box<dyn std::any::Any + Send>) -> String {
    let m = if let Some(s) = p.downcast_ref::<&str>() {
        s.to_string()
    } else if let Some(s) = p.downcast_ref::<String>() {
        s.clone()
    } else {
        "<non-string panic>".to_string()
    };
    let mut m = m;
    if m.len() > 200 {
        let mut cut = 200;
        while !m.is_char_boundary(cut) {
            cut -= 1;
        }
        m.truncate(cut);
    }
    let loc = PANIC_LOC.with(|l| std::mem::take(&mut *l.borrow_mut()));
    format!("{} @ {}", m, loc)
}

pub fn harness_error(why: &str) -> String {
    format!("\"result\":\"harness_error\",\"why\":{}", jstr(why))
}

#[macro_export]
macro_rules! seq_impl {
    ($run:ident, $M:ident, $B:ident, $V:ident, $set:ident, $bset:ident, $get:ident) => {
        pub fn $run(start: &str, ops: &[&str]) -> String {
            use std::panic::{catch_unwind, AssertUnwindSafe};
            use X::ServerMessage;
            let mut log: Vec<String> = Vec::new();
            let mut builder: Option<X::$B> = None;
            let mut mask: Option<X::$M> = None;
            match start {
                "builder" => builder = Some(X::$M::builder()),
                "new" => mask = Some(X::$M::new()),
                "default" => mask = Some(<X::$M as Default>::default()),
                _ => return crate::harness_error("unknown start"),
            }
            let mut stopped: i64 = -1;
            for (i, op) in ops.iter().enumerate() {
                let parts: Vec<&str> = op.splitn(3, ':').collect();
                let code = parts[0];
                let name = parts.get(1).copied().unwrap_or("");
                let args: Vec<&str> = match parts.get(2) {
                    Some(s) if !s.is_empty() => s.split(',').collect(),
                    _ => Vec::new(),
                };
                if code == "b" {
                    let b = match builder.take() {
                        Some(b) => b,
                        None => return crate::harness_error("builder op after finalize"),
                    };
                    match catch_unwind(AssertUnwindSafe(|| $bset(b, name, &args))) {
                        Ok(Ok(nb)) => {
                            builder = Some(nb);
                            log.push("{\"o\":\"b\"}".to_string());
                        }
                        Ok(Err(e)) => return crate::harness_error(&e),
                        Err(p) => {
                            log.push(format!("{{\"o\":\"b\",\"panic\":{}}}", mon::jstr(&crate::pmsg(p))));
                            stopped = i as i64;
                            break;
                        }
                    }
                    continue;
                }
                if mask.is_none() {
                    match builder.take() {
                        Some(b) => mask = Some(b.finalize()),
                        None => return crate::harness_error("no mask"),
                    }
                }
                let m = mask.as_mut().unwrap();
                let r: Result<Result<String, String>, Box<dyn std::any::Any + Send>> = match code {
                    "s" => catch_unwind(AssertUnwindSafe(|| $set(m, name, &args).map(|_| "{\"o\":\"s\"}".to_string()))),
                    "g" => catch_unwind(AssertUnwindSafe(|| $get(m, name, &args).map(|v| format!("{{\"o\":\"g\",\"r\":{}}}", v)))),
                    "R" => catch_unwind(AssertUnwindSafe(|| {
                        m.dirty_reset();
                        Ok("{\"o\":\"R\"}".to_string())
                    })),
                    "F" => catch_unwind(AssertUnwindSafe(|| {
                        m.mark_fully_dirty();
                        Ok("{\"o\":\"F\"}".to_string())
                    })),
                    "A" => catch_unwind(AssertUnwindSafe(|| Ok(format!("{{\"o\":\"A\",\"r\":{}}}", m.has_any_dirty_fields())))),
                    "D" => match name.parse::<u16>() {
                        Ok(bit) => catch_unwind(AssertUnwindSafe(|| Ok(format!("{{\"o\":\"D\",\"r\":{}}}", m.is_bit_dirty(bit))))),
                        Err(_) => Ok(Err("bad bit".to_string())),
                    },
                    "W" | "X" => catch_unwind(AssertUnwindSafe(|| {
                        let um = X::UpdateMask::$V(m.clone());
                        let obj = match name {
                            "v" => X::Object::Values { guid1: wow_world_messages::Guid::new(4), mask1: um },
                            "c" => X::Object::CreateObject2 {
                                guid3: wow_world_messages::Guid::new(4),
                                mask2: um,
                                movement2: Default::default(),
                                object_type: Default::default(),
                            },
                            _ => return Err("bad update type".to_string()),
                        };
                        #[allow(clippy::needless_update)]
                        let msg = X::SMSG_UPDATE_OBJECT { objects: vec![obj], ..Default::default() };
                        let mut frame: Vec<u8> = Vec::new();
                        if let Err(e) = msg.write_unencrypted_server(&mut frame) {
                            return Ok(format!("{{\"o\":\"{}\",\"write_err\":{}}}", code, mon::jstr(&format!("{:?}", e.kind()))));
                        }
                        let mut out = format!("{{\"o\":\"{}\",\"frame\":\"{}\"", code, mon::hex(&frame));
                        let mut c = std::io::Cursor::new(&frame[..]);
                        let rd = catch_unwind(AssertUnwindSafe(|| X::opcodes::ServerOpcodeMessage::read_unencrypted(&mut c)));
                        match rd {
                            Err(p) => out.push_str(&format!(",\"dpanic\":{}", mon::jstr(&crate::pmsg(p)))),
                            Ok(Err(e)) => out.push_str(&format!(",\"derr\":{}", mon::jstr(&format!("{}", e)))),
                            Ok(Ok(X::opcodes::ServerOpcodeMessage::SMSG_UPDATE_OBJECT(d))) => {
                                out.push_str(&format!(",\"consumed\":{}", c.position()));
                                let mut re: Vec<u8> = Vec::new();
                                match catch_unwind(AssertUnwindSafe(|| d.write_unencrypted_server(&mut re))) {
                                    Ok(Ok(())) => out.push_str(&format!(",\"reframe\":\"{}\"", mon::hex(&re))),
                                    Ok(Err(e)) => out.push_str(&format!(",\"rewrite_err\":{}", mon::jstr(&format!("{:?}", e.kind())))),
                                    Err(p) => out.push_str(&format!(",\"repanic\":{}", mon::jstr(&crate::pmsg(p)))),
                                }
                                out.push_str(&format!(",\"dobjects\":{}", d.objects.len()));
                                let dm = match d.objects.first() {
                                    Some(X::Object::Values { mask1, .. }) => Some(mask1.clone()),
                                    Some(X::Object::CreateObject2 { mask2, .. }) => Some(mask2.clone()),
                                    _ => None,
                                };
                                if let Some(dm) = dm {
                                    out.push_str(&format!(",\"dkind\":\"{}\"", um_kind(&dm)));
                                    if code == "X" {
                                        #[allow(irrefutable_let_patterns)]
                                        if let X::UpdateMask::$V(inner) = dm {
                                            *m = inner;
                                            out.push_str(",\"adopted\":true");
                                        } else {
                                            out.push_str(",\"adopted\":false");
                                        }
                                    }
                                }
                            }
                            Ok(Ok(_)) => out.push_str(",\"dother\":true"),
                        }
                        out.push('}');
                        Ok(out)
                    })),
                    _ => Ok(Err(format!("unknown op {}", code))),
                };
                match r {
                    Ok(Ok(s)) => log.push(s),
                    Ok(Err(e)) => return crate::harness_error(&format!("op {}: {}", i, e)),
                    Err(p) => {
                        log.push(format!("{{\"o\":\"{}\",\"panic\":{}}}", code, mon::jstr(&crate::pmsg(p))));
                        stopped = i as i64;
                        break;
                    }
                }
            }
            format!("\"result\":\"ok\",\"stopped\":{},\"log\":[{}]", stopped, log.join(","))
        }
    };
}

mod tables {
    include!(concat!(env!("OUT_DIR"), "/tables.rs"));
}

fn handler(_id: &str, api: &str, cols: &[&str]) -> String {
    install_hook();
    match api {
        "describe" => {
            let a = match cols.first().copied() {
                Some("vanilla") => tables::vanilla::API,
                Some("tbc") => tables::tbc::API,
                Some("wrath") => tables::wrath::API,
                _ => return harness_error("unknown expansion"),
            };
            format!("\"result\":\"ok\",\"api\":{}", a)
        }
        "seq" => {
            if cols.len() < 3 {
                return harness_error("seq needs exp kind start");
            }
            match cols[0] {
                "vanilla" => tables::vanilla::run(cols[1], cols[2], &cols[3..]),
                "tbc" => tables::tbc::run(cols[1], cols[2], &cols[3..]),
                "wrath" => tables::wrath::run(cols[1], cols[2], &cols[3..]),
                _ => harness_error("unknown expansion"),
            }
        }
        _ => harness_error("unknown api"),
    }
}

fn main() {
    mon::main(handler);
}
