//! misc_driver: runs `wow_world_base` helpers (DateTime, geometry, area triggers) on inputs named by
//! the checker and logs what happened.  Contains no expectations about calendars or geometry.
//!
//! Stand-alone mode (C15):
//!   misc_driver dtsweep <out.bin> [threads]
//!       pushes all 2^32 values through `DateTime::try_from`, grouped by the upper 21 bits
//!       (group g = v >> 11).  Writes seven column arrays (little endian, 2^21 entries each):
//!         cnt  u16  accepted values among the 2048 low-bit patterns
//!         xor  u16  XOR of the accepted low-bit patterns
//!         sum  u32  sum of the accepted low-bit patterns
//!         nbad u16  accepted values whose as_int()/accessor tuple is not the tuple obtained by
//!                   cutting the input at the documented bit positions (raw tuples: `dt.group`)
//!         npan u16  values for which the conversion panicked
//!         sint u64  wrapping sum of as_int() over accepted values
//!         sacc u64  wrapping sum of  y + 257*month_iso + 65537*day + 16777259*weekday_from_sunday
//!                   + 3*hours + 1000003*minutes  over accepted values (accessor results)
//!       and prints one JSON line with totals by result kind.
//!
//! mon mode (TSV ops -> JSONL events), apis (columns after id, api):
//!   dt.try    v                                   one conversion, all accessors, error by kind
//!   dt.group  g                                   the 2048 values of one group: accepted bitmap (hex,
//!                                                 bit i of byte i/8 = low pattern i), checksums, raw bad tuples
//!   maps      exp                                 Map::variants() as integers
//!   trig.scan exp lo hi extra_ids                 verify_trigger(origin, id) for id in lo..hi and the extra ids:
//!                                                 shapes of the ids that are found
//!   trig.probe exp id ptshex                      per point: verify_trigger kind, contains() and the geometry
//!                                                 function on the returned shape
//!   shape.probe exp kind map x y z o p1 p2 p3 p4 ptshex
//!                                                 AreaTrigger built through the public enum (kind C: p1 = radius;
//!                                                 kind S: length width height yaw); per point contains() + geometry fn
//!   geo.dist  hex                                 n x 7 f32 (from xyz, to xyz, d): distance_between, distance_2d, is_within_distance
//!   points: 16 bytes each = map u32 LE, x y z f32 LE; all f32 parameters travel as their u32 bit patterns
#![allow(clippy::all)]

use mon::{hex, jstr, unhex};
use std::panic::{catch_unwind, AssertUnwindSafe};
use wow_world_base::shared::datetime_vanilla_tbc_wrath::{DateTime, Month, Weekday};
use wow_world_base::DateTimeError;

// ------------------------------------------------------------------------------------------------
// DateTime

/// position of the variant counted from Sunday (the documented origin of the weekday field)
fn weekday_from_sunday(w: Weekday) -> u32 {
    match w {
        Weekday::Sunday => 0,
        Weekday::Monday => 1,
        Weekday::Tuesday => 2,
        Weekday::Wednesday => 3,
        Weekday::Thursday => 4,
        Weekday::Friday => 5,
        Weekday::Saturday => 6,
    }
}

#[derive(Clone, Copy, Default)]
struct Fields {
    as_int: u32,
    y: u32,
    month_iso: u32,
    d: u32,
    wd: u32,
    h: u32,
    mi: u32,
}

fn fields(dt: &DateTime) -> Fields {
    let m: Month = dt.month();
    Fields {
        as_int: dt.as_int(),
        y: dt.years_after_2000() as u32,
        month_iso: m.iso8601(),
        d: dt.month_day() as u32,
        wd: weekday_from_sunday(dt.weekday()),
        h: dt.hours() as u32,
        mi: dt.minutes() as u32,
    }
}

const ERR_KINDS: [&str; 5] = ["EnumError", "InvalidMinute", "InvalidHour", "InvalidMonthDay", "InvalidDate"];

fn err_kind(e: &DateTimeError) -> usize {
    match e {
        DateTimeError::EnumError(_) => 0,
        DateTimeError::InvalidMinute(_) => 1,
        DateTimeError::InvalidHour(_) => 2,
        DateTimeError::InvalidMonthDay { .. } => 3,
        DateTimeError::InvalidDate { .. } => 4,
    }
}

/// does the accessor tuple equal the input cut at the documented bit positions?
/// (only used to *count*; raw tuples are re-judged by the checker)
fn cut_equal(v: u32, f: &Fields) -> bool {
    f.as_int == v
        && f.y == v >> 24
        && f.month_iso == ((v >> 20) & 15) + 1
        && f.d == (v >> 14) & 63
        && f.wd == (v >> 11) & 7
        && f.h == (v >> 6) & 31
        && f.mi == v & 63
}

fn acc_mix(f: &Fields) -> u64 {
    f.y as u64 + 257 * f.month_iso as u64 + 65537 * f.d as u64 + 16777259 * f.wd as u64 + 3 * f.h as u64 + 1000003 * f.mi as u64
}

#[derive(Clone, Copy, Default)]
struct Rec {
    cnt: u16,
    xor: u16,
    sum: u32,
    nbad: u16,
    npan: u16,
    sint: u64,
    sacc: u64,
}

#[derive(Clone, Copy, Default)]
struct Totals {
    accepted: u64,
    errs: [u64; 5],
    panics: u64,
}

#[inline]
fn one(v: u32, r: &mut Rec, t: &mut Totals) {
    match DateTime::try_from(v) {
        Ok(dt) => {
            let f = fields(&dt);
            let low = (v & 2047) as u16;
            r.cnt += 1;
            r.xor ^= low;
            r.sum += low as u32;
            if !cut_equal(v, &f) {
                r.nbad += 1;
            }
            r.sint = r.sint.wrapping_add(f.as_int as u64);
            r.sacc = r.sacc.wrapping_add(acc_mix(&f));
            t.accepted += 1;
        }
        Err(e) => t.errs[err_kind(&e)] += 1,
    }
}

fn sweep_group(g: u32, t: &mut Totals) -> Rec {
    let base = g << 11;
    let fast = catch_unwind(AssertUnwindSafe(|| {
        let mut r = Rec::default();
        let mut tt = Totals::default();
        for low in 0..2048u32 {
            one(base | low, &mut r, &mut tt);
        }
        (r, tt)
    }));
    let (r, tt) = match fast {
        Ok(x) => x,
        Err(_) => {
            let mut r = Rec::default();
            let mut tt = Totals::default();
            for low in 0..2048u32 {
                let mut r1 = r;
                let mut t1 = tt;
                match catch_unwind(AssertUnwindSafe(|| {
                    one(base | low, &mut r1, &mut t1);
                    (r1, t1)
                })) {
                    Ok((a, b)) => {
                        r = a;
                        tt = b;
                    }
                    Err(_) => {
                        r.npan += 1;
                        tt.panics += 1;
                    }
                }
            }
            (r, tt)
        }
    };
    t.accepted += tt.accepted;
    t.panics += tt.panics;
    for k in 0..5 {
        t.errs[k] += tt.errs[k];
    }
    r
}

const GROUPS: u32 = 1 << 21;

fn dtsweep(out: &str, threads: u32) {
    std::panic::set_hook(Box::new(|_| {}));
    let t0 = std::time::Instant::now();
    let per = GROUPS / threads;
    let handles: Vec<_> = (0..threads)
        .map(|k| {
            std::thread::spawn(move || {
                let lo = k * per;
                let hi = if k == threads - 1 { GROUPS } else { lo + per };
                let mut recs = Vec::with_capacity((hi - lo) as usize);
                let mut t = Totals::default();
                for g in lo..hi {
                    recs.push(sweep_group(g, &mut t));
                }
                (recs, t)
            })
        })
        .collect();
    let mut recs: Vec<Rec> = Vec::with_capacity(GROUPS as usize);
    let mut tot = Totals::default();
    for h in handles {
        let (r, t) = h.join().expect("sweep thread");
        recs.extend(r);
        tot.accepted += t.accepted;
        tot.panics += t.panics;
        for k in 0..5 {
            tot.errs[k] += t.errs[k];
        }
    }
    let mut buf: Vec<u8> = Vec::with_capacity(GROUPS as usize * 28);
    for r in &recs {
        buf.extend_from_slice(&r.cnt.to_le_bytes());
    }
    for r in &recs {
        buf.extend_from_slice(&r.xor.to_le_bytes());
    }
    for r in &recs {
        buf.extend_from_slice(&r.sum.to_le_bytes());
    }
    for r in &recs {
        buf.extend_from_slice(&r.nbad.to_le_bytes());
    }
    for r in &recs {
        buf.extend_from_slice(&r.npan.to_le_bytes());
    }
    for r in &recs {
        buf.extend_from_slice(&r.sint.to_le_bytes());
    }
    for r in &recs {
        buf.extend_from_slice(&r.sacc.to_le_bytes());
    }
    std::fs::write(out, &buf).expect("write sweep file");
    let errs: Vec<String> = (0..5).map(|k| format!("\"{}\":{}", ERR_KINDS[k], tot.errs[k])).collect();
    println!(
        "{{\"groups\":{},\"values\":{},\"accepted\":{},\"rejected\":{{{}}},\"panics\":{},\"threads\":{},\"secs\":{:.2}}}",
        recs.len(),
        recs.len() as u64 * 2048,
        tot.accepted,
        errs.join(","),
        tot.panics,
        threads,
        t0.elapsed().as_secs_f64()
    );
}

fn fields_json(f: &Fields) -> String {
    format!("[{},{},{},{},{},{},{}]", f.as_int, f.y, f.month_iso, f.d, f.wd, f.h, f.mi)
}

fn dt_try(cols: &[&str]) -> String {
    let v: u32 = cols[0].parse().expect("v");
    match DateTime::try_from(v) {
        Ok(dt) => {
            let f = fields(&dt);
            format!(
                "\"result\":\"ok\",\"v\":{},\"fields\":{},\"month\":{},\"weekday\":{}",
                v,
                fields_json(&f),
                jstr(&format!("{:?}", dt.month())),
                jstr(&format!("{:?}", dt.weekday()))
            )
        }
        Err(e) => format!("\"result\":\"err\",\"v\":{},\"err_kind\":\"{}\",\"err_text\":{}", v, ERR_KINDS[err_kind(&e)], jstr(&format!("{}", e))),
    }
}

fn dt_group(cols: &[&str]) -> String {
    let g: u32 = cols[0].parse().expect("g");
    let base = g << 11;
    let mut bitmap = [0u8; 256];
    let mut r = Rec::default();
    let mut errs = [0u32; 5];
    let mut bad = Vec::new();
    let mut first_panic: Option<u32> = None;
    for low in 0..2048u32 {
        let v = base | low;
        match catch_unwind(AssertUnwindSafe(|| DateTime::try_from(v))) {
            Ok(Ok(dt)) => {
                let f = fields(&dt);
                bitmap[(low / 8) as usize] |= 1 << (low % 8);
                r.cnt += 1;
                r.xor ^= low as u16;
                r.sum += low;
                r.sint = r.sint.wrapping_add(f.as_int as u64);
                r.sacc = r.sacc.wrapping_add(acc_mix(&f));
                if !cut_equal(v, &f) {
                    r.nbad += 1;
                    if bad.len() < 8 {
                        bad.push(format!("[{},{}]", v, fields_json(&f)));
                    }
                }
            }
            Ok(Err(e)) => errs[err_kind(&e)] += 1,
            Err(_) => {
                r.npan += 1;
                first_panic.get_or_insert(v);
            }
        }
    }
    let e: Vec<String> = (0..5).map(|k| format!("\"{}\":{}", ERR_KINDS[k], errs[k])).collect();
    format!(
        "\"result\":\"ok\",\"g\":{},\"acc\":\"{}\",\"cnt\":{},\"xor\":{},\"sum\":{},\"nbad\":{},\"npan\":{},\"sint\":{},\"sacc\":{},\"bad\":[{}],\"first_panic\":{},\"rejected\":{{{}}}",
        g,
        hex(&bitmap),
        r.cnt,
        r.xor,
        r.sum,
        r.nbad,
        r.npan,
        r.sint,
        r.sacc,
        bad.join(","),
        first_panic.map(|v| v.to_string()).unwrap_or_else(|| "null".into()),
        e.join(",")
    )
}

// ------------------------------------------------------------------------------------------------
// geometry / triggers

fn f(bits: &str) -> f32 {
    f32::from_bits(bits.parse::<u32>().expect("f32 bits"))
}

struct Pt {
    map: u32,
    x: f32,
    y: f32,
    z: f32,
}

fn points(hexs: &str) -> Vec<Pt> {
    let b = unhex(hexs);
    b.chunks_exact(16)
        .map(|c| Pt {
            map: u32::from_le_bytes([c[0], c[1], c[2], c[3]]),
            x: f32::from_le_bytes([c[4], c[5], c[6], c[7]]),
            y: f32::from_le_bytes([c[8], c[9], c[10], c[11]]),
            z: f32::from_le_bytes([c[12], c[13], c[14], c[15]]),
        })
        .collect()
}

macro_rules! expansion {
    ($m:ident, $exp:ident) => {
        mod $m {
            use super::Pt;
            use wow_world_base::geometry::{is_within_distance, is_within_square};
            use wow_world_base::$exp::position::Position;
            use wow_world_base::$exp::trigger::{verify_trigger, AreaTrigger, TriggerResult};
            use wow_world_base::$exp::Map;

            pub fn maps() -> String {
                let v: Vec<String> = Map::variants().iter().map(|m| m.as_int().to_string()).collect();
                format!("\"result\":\"ok\",\"maps\":[{}]", v.join(","))
            }

            fn shape_json(a: &AreaTrigger) -> String {
                match *a {
                    AreaTrigger::Circle { position, radius } => format!(
                        "[\"C\",{},{},{},{},{},{}]",
                        position.map.as_int(),
                        position.x.to_bits(),
                        position.y.to_bits(),
                        position.z.to_bits(),
                        position.orientation.to_bits(),
                        radius.to_bits()
                    ),
                    AreaTrigger::Square { position, length, width, height, yaw } => format!(
                        "[\"S\",{},{},{},{},{},{},{},{},{}]",
                        position.map.as_int(),
                        position.x.to_bits(),
                        position.y.to_bits(),
                        position.z.to_bits(),
                        position.orientation.to_bits(),
                        length.to_bits(),
                        width.to_bits(),
                        height.to_bits(),
                        yaw.to_bits()
                    ),
                }
            }

            fn direct(a: &AreaTrigger, player: Position) -> bool {
                match *a {
                    AreaTrigger::Circle { position, radius } => is_within_distance(position.into(), player.into(), radius),
                    AreaTrigger::Square { position, length, width, height, yaw } => {
                        is_within_square(player.into(), position.into(), length, width, height, yaw)
                    }
                }
            }

            pub fn scan(lo: u32, hi: u32, extra: &[u32]) -> String {
                let origin = Position::new(Map::variants()[0], 0.0, 0.0, 0.0, 0.0);
                let mut found = Vec::new();
                let mut notfound = 0u64;
                let mut visit = |id: u32| match verify_trigger(origin, id) {
                    TriggerResult::NotFound => notfound += 1,
                    TriggerResult::NotInsideTrigger(t) => found.push(format!("[{},0,{},{}]", id, shape_json(&t.0), t.1.len())),
                    TriggerResult::Success(t) => found.push(format!("[{},1,{},{}]", id, shape_json(&t.0), t.1.len())),
                };
                for id in lo..hi {
                    visit(id);
                }
                for &id in extra {
                    visit(id);
                }
                format!("\"result\":\"ok\",\"origin_map\":{},\"notfound\":{},\"found\":[{}]", Map::variants()[0].as_int(), notfound, found.join(","))
            }

            fn position(p: &Pt) -> Option<Position> {
                Map::from_int(p.map).ok().map(|m| Position::new(m, p.x, p.y, p.z, 0.0))
            }

            pub fn probe(id: u32, pts: &[Pt]) -> String {
                let mut verify = String::with_capacity(pts.len());
                let mut contains = String::with_capacity(pts.len());
                let mut direct_s = String::with_capacity(pts.len());
                let mut shape = String::from("null");
                let mut shapes_differ = false;
                for p in pts {
                    let Some(pos) = position(p) else {
                        verify.push('9');
                        contains.push('9');
                        direct_s.push('9');
                        continue;
                    };
                    let (code, t) = match verify_trigger(pos, id) {
                        TriggerResult::NotFound => ('0', None),
                        TriggerResult::NotInsideTrigger(t) => ('1', Some(t)),
                        TriggerResult::Success(t) => ('2', Some(t)),
                    };
                    verify.push(code);
                    match t {
                        None => {
                            contains.push('-');
                            direct_s.push('-');
                        }
                        Some(t) => {
                            let s = shape_json(&t.0);
                            if shape == "null" {
                                shape = s;
                            } else if shape != s {
                                shapes_differ = true;
                            }
                            contains.push(if t.0.contains(pos) { '1' } else { '0' });
                            direct_s.push(if direct(&t.0, pos) { '1' } else { '0' });
                        }
                    }
                }
                format!(
                    "\"result\":\"ok\",\"n\":{},\"shape\":{},\"shapes_differ\":{},\"verify\":\"{}\",\"contains\":\"{}\",\"direct\":\"{}\"",
                    pts.len(),
                    shape,
                    shapes_differ,
                    verify,
                    contains,
                    direct_s
                )
            }

            pub fn shape_probe(kind: &str, map: u32, x: f32, y: f32, z: f32, o: f32, p: [f32; 4], pts: &[Pt]) -> String {
                let Ok(m) = Map::from_int(map) else {
                    return "\"result\":\"badmap\"".to_string();
                };
                let position = Position::new(m, x, y, z, o);
                let a = if kind == "C" {
                    AreaTrigger::Circle { position, radius: p[0] }
                } else {
                    AreaTrigger::Square { position, length: p[0], width: p[1], height: p[2], yaw: p[3] }
                };
                let mut contains = String::with_capacity(pts.len());
                let mut direct_s = String::with_capacity(pts.len());
                for p in pts {
                    match self::position(p) {
                        None => {
                            contains.push('9');
                            direct_s.push('9');
                        }
                        Some(pos) => {
                            contains.push(if a.contains(pos) { '1' } else { '0' });
                            direct_s.push(if direct(&a, pos) { '1' } else { '0' });
                        }
                    }
                }
                format!("\"result\":\"ok\",\"n\":{},\"shape\":{},\"contains\":\"{}\",\"direct\":\"{}\"", pts.len(), shape_json(&a), contains, direct_s)
            }
        }
    };
}

expansion!(van, vanilla);
expansion!(tbc, tbc);
expansion!(wra, wrath);

fn geo_dist(cols: &[&str]) -> String {
    use wow_world_base::geometry::{distance_2d, distance_between, is_within_distance};
    use wow_world_base::shared::vector2d_vanilla_tbc_wrath::Vector2d;
    use wow_world_base::shared::vector3d_vanilla_tbc_wrath::Vector3d;
    let b = unhex(cols[0]);
    let mut db = Vec::new();
    let mut d2 = Vec::new();
    let mut within = String::new();
    for c in b.chunks_exact(28) {
        let v: Vec<f32> = c.chunks_exact(4).map(|q| f32::from_le_bytes([q[0], q[1], q[2], q[3]])).collect();
        let from = Vector3d { x: v[0], y: v[1], z: v[2] };
        let to = Vector3d { x: v[3], y: v[4], z: v[5] };
        db.extend_from_slice(&distance_between(from, to).to_le_bytes());
        d2.extend_from_slice(&distance_2d(Vector2d { x: v[0], y: v[1] }, Vector2d { x: v[3], y: v[4] }).to_le_bytes());
        within.push(if is_within_distance(from, to, v[6]) { '1' } else { '0' });
    }
    format!("\"result\":\"ok\",\"n\":{},\"between\":\"{}\",\"d2\":\"{}\",\"within\":\"{}\"", b.len() / 28, hex(&db), hex(&d2), within)
}

fn handler(_id: &str, api: &str, cols: &[&str]) -> String {
    match api {
        "dt.try" => dt_try(cols),
        "dt.group" => dt_group(cols),
        "geo.dist" => geo_dist(cols),
        "maps" => match cols[0] {
            "vanilla" => van::maps(),
            "tbc" => tbc::maps(),
            "wrath" => wra::maps(),
            _ => "\"result\":\"unknown_expansion\"".to_string(),
        },
        "trig.scan" => {
            let lo: u32 = cols[1].parse().expect("lo");
            let hi: u32 = cols[2].parse().expect("hi");
            let extra: Vec<u32> = cols.get(3).map(|s| s.split(',').filter_map(|x| x.parse().ok()).collect()).unwrap_or_default();
            match cols[0] {
                "vanilla" => van::scan(lo, hi, &extra),
                "tbc" => tbc::scan(lo, hi, &extra),
                "wrath" => wra::scan(lo, hi, &extra),
                _ => "\"result\":\"unknown_expansion\"".to_string(),
            }
        }
        "trig.probe" => {
            let id: u32 = cols[1].parse().expect("id");
            let pts = points(cols[2]);
            match cols[0] {
                "vanilla" => van::probe(id, &pts),
                "tbc" => tbc::probe(id, &pts),
                "wrath" => wra::probe(id, &pts),
                _ => "\"result\":\"unknown_expansion\"".to_string(),
            }
        }
        "shape.probe" => {
            let map: u32 = cols[2].parse().expect("map");
            let (x, y, z, o) = (f(cols[3]), f(cols[4]), f(cols[5]), f(cols[6]));
            let p = [f(cols[7]), f(cols[8]), f(cols[9]), f(cols[10])];
            let pts = points(cols[11]);
            match cols[0] {
                "vanilla" => van::shape_probe(cols[1], map, x, y, z, o, p, &pts),
                "tbc" => tbc::shape_probe(cols[1], map, x, y, z, o, p, &pts),
                "wrath" => wra::shape_probe(cols[1], map, x, y, z, o, p, &pts),
                _ => "\"result\":\"unknown_expansion\"".to_string(),
            }
        }
        _ => "\"result\":\"unknown_api\"".to_string(),
    }
}

fn main() {
    let args: Vec<String> = std::env::args().collect();
    if args.len() >= 3 && args[1] == "dtsweep" {
        let threads = args.get(3).and_then(|s| s.parse().ok()).unwrap_or(16u32).clamp(1, 256);
        dtsweep(&args[2], threads);
        return;
    }
    mon::main(handler);
}
