//! Monitors shared by all drivers: counting allocator, panic capture, BEGIN/END event log,
//! worker / supervisor process protocol, per-operation watchdog.
//!
//! A driver binary calls `mon::main(handler)`.  Invoked as
//!   driver run <in.tsv> <out.ev.jsonl> [--workers N] [--budget BYTES] [--timeout SECS]
//! it shards the input, spawns itself as workers and merges the logs; invoked with `worker`
//! it processes one shard.  Input lines are tab separated: id, api, then api-specific columns.
//! The handler returns the body of a JSON object (without braces) describing what it observed.

use std::alloc::{GlobalAlloc, Layout, System};
use std::cell::RefCell;
use std::fs::File;
use std::io::{BufRead, BufReader, BufWriter, Write};
use std::panic::{catch_unwind, AssertUnwindSafe};
use std::process::{Command, Stdio};
use std::sync::atomic::{AtomicBool, AtomicU64, AtomicUsize, Ordering::Relaxed, Ordering::SeqCst};
use std::sync::OnceLock;
use std::time::{Duration, Instant};

// ------------------------------------------------------------------------------------------------
// allocation monitor

pub struct Counting;

static LIVE: AtomicUsize = AtomicUsize::new(0);
static PEAK: AtomicUsize = AtomicUsize::new(0);
static MAXREQ: AtomicUsize = AtomicUsize::new(0);
static BUDGET: AtomicUsize = AtomicUsize::new(usize::MAX);
static ARMED: AtomicBool = AtomicBool::new(false);
static REFUSE_LOG: OnceLock<File> = OnceLock::new();

fn refuse_log(size: usize) {
    // no allocation here: format into a stack buffer and write(2) it
    if let Some(f) = REFUSE_LOG.get() {
        let mut buf = [0u8; 48];
        let pre = b"ALLOC_REFUSED ";
        buf[..pre.len()].copy_from_slice(pre);
        let mut n = size;
        let mut digits = [0u8; 24];
        let mut k = 0;
        loop {
            digits[k] = b'0' + (n % 10) as u8;
            n /= 10;
            k += 1;
            if n == 0 {
                break;
            }
        }
        let mut p = pre.len();
        while k > 0 {
            k -= 1;
            buf[p] = digits[k];
            p += 1;
        }
        buf[p] = b'\n';
        let mut fr: &File = f;
        let _ = fr.write_all(&buf[..p + 1]);
    }
}

/// `request` = size of the block being asked for, `delta` = growth of live bytes.
fn note(request: usize, delta: usize) -> bool {
    if !ARMED.load(Relaxed) {
        return true;
    }
    if request > MAXREQ.load(Relaxed) {
        MAXREQ.store(request, Relaxed);
    }
    if request > BUDGET.load(Relaxed) {
        refuse_log(request);
        return false;
    }
    let live = LIVE.fetch_add(delta, Relaxed) + delta;
    if live > PEAK.load(Relaxed) {
        PEAK.store(live, Relaxed);
    }
    if live > BUDGET.load(Relaxed) {
        refuse_log(live);
        return false;
    }
    true
}

fn release(size: usize) {
    if ARMED.load(Relaxed) {
        let _ = LIVE.fetch_update(Relaxed, Relaxed, |v| Some(v.saturating_sub(size)));
    }
}

unsafe impl GlobalAlloc for Counting {
    unsafe fn alloc(&self, l: Layout) -> *mut u8 {
        if !note(l.size(), l.size()) {
            return std::ptr::null_mut();
        }
        System.alloc(l)
    }
    unsafe fn alloc_zeroed(&self, l: Layout) -> *mut u8 {
        if !note(l.size(), l.size()) {
            return std::ptr::null_mut();
        }
        System.alloc_zeroed(l)
    }
    unsafe fn dealloc(&self, p: *mut u8, l: Layout) {
        release(l.size());
        System.dealloc(p, l)
    }
    unsafe fn realloc(&self, p: *mut u8, l: Layout, new: usize) -> *mut u8 {
        if new > l.size() {
            if !note(new, new - l.size()) {
                return std::ptr::null_mut();
            }
        } else {
            release(l.size() - new);
        }
        System.realloc(p, l, new)
    }
}

#[cfg(feature = "alloc-monitor")]
#[global_allocator]
static GLOBAL: Counting = Counting;

pub fn alloc_begin() {
    LIVE.store(0, Relaxed);
    PEAK.store(0, Relaxed);
    MAXREQ.store(0, Relaxed);
    ARMED.store(true, SeqCst);
}

/// -> (largest single request, peak live bytes above the level at begin)
pub fn alloc_end() -> (usize, usize) {
    ARMED.store(false, SeqCst);
    (MAXREQ.load(Relaxed), PEAK.load(Relaxed))
}

// ------------------------------------------------------------------------------------------------
// helpers

pub fn hex(b: &[u8]) -> String {
    const T: &[u8; 16] = b"0123456789abcdef";
    let mut s = String::with_capacity(b.len() * 2);
    for &x in b {
        s.push(T[(x >> 4) as usize] as char);
        s.push(T[(x & 15) as usize] as char);
    }
    s
}

pub fn unhex(s: &str) -> Vec<u8> {
    let b = s.as_bytes();
    let v = |c: u8| -> u8 {
        match c {
            b'0'..=b'9' => c - b'0',
            b'a'..=b'f' => c - b'a' + 10,
            b'A'..=b'F' => c - b'A' + 10,
            _ => 0,
        }
    };
    (0..b.len() / 2).map(|i| (v(b[2 * i]) << 4) | v(b[2 * i + 1])).collect()
}

pub fn jstr(s: &str) -> String {
    let mut o = String::with_capacity(s.len() + 2);
    o.push('"');
    for c in s.chars() {
        match c {
            '"' => o.push_str("\\\""),
            '\\' => o.push_str("\\\\"),
            '\n' => o.push_str("\\n"),
            '\r' => o.push_str("\\r"),
            '\t' => o.push_str("\\t"),
            c if (c as u32) < 0x20 => o.push_str(&format!("\\u{:04x}", c as u32)),
            c => o.push(c),
        }
    }
    o.push('"');
    o
}

thread_local! {
    static LAST_PANIC: RefCell<Option<(String, String)>> = const { RefCell::new(None) };
}

fn install_panic_hook() {
    std::panic::set_hook(Box::new(|info| {
        let loc = info.location().map(|l| format!("{}:{}", l.file(), l.line())).unwrap_or_default();
        let msg = if let Some(s) = info.payload().downcast_ref::<&str>() {
            s.to_string()
        } else if let Some(s) = info.payload().downcast_ref::<String>() {
            s.clone()
        } else {
            "<non-string panic>".to_string()
        };
        LAST_PANIC.with(|p| *p.borrow_mut() = Some((loc, msg)));
    }));
}

pub struct Outcome {
    /// JSON object body (comma separated `"k":v` pairs) or a panic record.
    pub json: String,
}

/// Run `f` under panic capture and the allocation monitor and return the JSON body.
pub fn observe<F: FnOnce() -> String>(f: F) -> String {
    LAST_PANIC.with(|p| *p.borrow_mut() = None);
    alloc_begin();
    let r = catch_unwind(AssertUnwindSafe(f));
    let (maxreq, peak) = alloc_end();
    let mut body = match r {
        Ok(s) => s,
        Err(_) => {
            let (loc, msg) = LAST_PANIC.with(|p| p.borrow_mut().take()).unwrap_or_default();
            let mut m = msg;
            if m.len() > 300 {
                let mut cut = 300;
                while !m.is_char_boundary(cut) {
                    cut -= 1;
                }
                m.truncate(cut);
            }
            format!("\"result\":\"panic\",\"panic_at\":{},\"panic_msg\":{}", jstr(&loc), jstr(&m))
        }
    };
    body.push_str(&format!(",\"alloc_max\":{},\"alloc_peak\":{}", maxreq, peak));
    body
}

// ------------------------------------------------------------------------------------------------
// worker / supervisor

static OP_START_MS: AtomicU64 = AtomicU64::new(0);
static OP_SEQ: AtomicU64 = AtomicU64::new(0);

fn now_ms(t0: Instant) -> u64 {
    t0.elapsed().as_millis() as u64 + 1
}

pub type Handler = fn(id: &str, api: &str, cols: &[&str]) -> String;

fn worker(input: &str, output: &str, skip_to: Option<&str>, budget: usize, timeout: u64, handler: Handler) {
    install_panic_hook();
    BUDGET.store(budget, Relaxed);
    let out = std::fs::OpenOptions::new().create(true).append(true).open(output).expect("open out");
    let _ = REFUSE_LOG.set(out.try_clone().expect("clone"));
    let t0 = Instant::now();
    // watchdog: an operation that runs longer than `timeout` seconds is logged and the worker exits
    {
        let wd_out = out.try_clone().expect("clone");
        std::thread::spawn(move || loop {
            std::thread::sleep(Duration::from_millis(250));
            let st = OP_START_MS.load(SeqCst);
            if st != 0 && now_ms(t0) > st + timeout * 1000 {
                let mut w: &File = &wd_out;
                let _ = w.write_all(b"TIMEOUT\n");
                std::process::exit(3);
            }
        });
    }
    let rd = BufReader::new(File::open(input).expect("open in"));
    let mut w = BufWriter::new(out);
    let mut skipping = skip_to.is_some();
    for line in rd.lines() {
        let line = line.expect("read");
        if line.is_empty() {
            continue;
        }
        let cols: Vec<&str> = line.split('\t').collect();
        if cols.len() < 2 {
            continue;
        }
        let id = cols[0];
        if skipping {
            if Some(id) == skip_to {
                skipping = false;
            }
            continue;
        }
        let _ = writeln!(w, "BEGIN {}", id);
        let _ = w.flush();
        OP_SEQ.fetch_add(1, Relaxed);
        OP_START_MS.store(now_ms(t0), SeqCst);
        let body = observe(|| handler(id, cols[1], &cols[2..]));
        OP_START_MS.store(0, SeqCst);
        let _ = writeln!(w, "{{\"id\":{},\"api\":{},{}}}", jstr(id), jstr(cols[1]), body);
    }
    let _ = w.flush();
}

fn last_open_begin(path: &str) -> (Option<String>, Option<String>) {
    // -> (id of BEGIN without a following record, annotation seen after it)
    let Ok(f) = File::open(path) else { return (None, None) };
    let mut open: Option<String> = None;
    let mut note: Option<String> = None;
    for line in BufReader::new(f).lines().map_while(Result::ok) {
        if let Some(id) = line.strip_prefix("BEGIN ") {
            open = Some(id.to_string());
            note = None;
        } else if line.starts_with('{') {
            open = None;
            note = None;
        } else if line.starts_with("ALLOC_REFUSED") || line.starts_with("TIMEOUT") {
            note = Some(line);
        }
    }
    (open, note)
}

fn supervise(input: &str, output: &str, workers: usize, budget: usize, timeout: u64) {
    let exe = std::env::current_exe().expect("exe");
    let lines: Vec<String> = BufReader::new(File::open(input).expect("open in")).lines().map_while(Result::ok).collect();
    let n = workers.max(1).min(lines.len().max(1));
    let mut shards = Vec::new();
    for k in 0..n {
        let sin = format!("{}.shard{}.in", output, k);
        let sout = format!("{}.shard{}.out", output, k);
        let mut f = BufWriter::new(File::create(&sin).expect("shard"));
        for (i, l) in lines.iter().enumerate() {
            if i % n == k {
                let _ = writeln!(f, "{}", l);
            }
        }
        let _ = std::fs::remove_file(&sout);
        shards.push((sin, sout));
    }
    let handles: Vec<_> = shards
        .iter()
        .cloned()
        .map(|(sin, sout)| {
            let exe = exe.clone();
            std::thread::spawn(move || {
                let mut skip: Option<String> = None;
                let mut deaths = 0u32;
                loop {
                    let mut c = Command::new(&exe);
                    c.arg("worker").arg(&sin).arg(&sout).arg(budget.to_string()).arg(timeout.to_string());
                    if let Some(s) = &skip {
                        c.arg(s);
                    }
                    let st = c.stdin(Stdio::null()).status().expect("spawn worker");
                    if st.success() {
                        break;
                    }
                    deaths += 1;
                    let (open, note) = last_open_begin(&sout);
                    let mut f = std::fs::OpenOptions::new().append(true).open(&sout).expect("append");
                    match open {
                        Some(id) => {
                            let kind = match &note {
                                Some(n) if n.starts_with("TIMEOUT") => "timeout",
                                _ => "abort",
                            };
                            let refused = note
                                .as_ref()
                                .and_then(|n| n.strip_prefix("ALLOC_REFUSED "))
                                .map(|v| format!(",\"alloc_refused\":{}", v.trim()))
                                .unwrap_or_default();
                            let _ = writeln!(
                                f,
                                "{{\"id\":{},\"sup\":\"worker_died\",\"result\":\"{}\",\"status\":{}{}}}",
                                jstr(&id),
                                kind,
                                jstr(&format!("{:?}", st)),
                                refused
                            );
                            skip = Some(id);
                        }
                        None => {
                            let _ = writeln!(f, "{{\"sup\":\"worker_died_idle\",\"status\":{}}}", jstr(&format!("{:?}", st)));
                            break;
                        }
                    }
                    if deaths > 100000 {
                        break;
                    }
                }
            })
        })
        .collect();
    for h in handles {
        let _ = h.join();
    }
    let mut out = BufWriter::new(File::create(output).expect("out"));
    for (sin, sout) in &shards {
        if let Ok(f) = File::open(sout) {
            for line in BufReader::new(f).lines().map_while(Result::ok) {
                if line.starts_with('{') {
                    let _ = writeln!(out, "{}", line);
                }
            }
        }
        let _ = std::fs::remove_file(sin);
        let _ = std::fs::remove_file(sout);
    }
}

pub fn main(handler: Handler) {
    let args: Vec<String> = std::env::args().collect();
    if args.len() >= 4 && args[1] == "worker" {
        let budget = args.get(4).and_then(|s| s.parse().ok()).unwrap_or(usize::MAX);
        let timeout = args.get(5).and_then(|s| s.parse().ok()).unwrap_or(30);
        worker(&args[2], &args[3], args.get(6).map(|s| s.as_str()), budget, timeout, handler);
        return;
    }
    if args.len() >= 4 && args[1] == "run" {
        let mut workers = std::thread::available_parallelism().map(|n| n.get()).unwrap_or(4);
        let mut budget = 1usize << 30;
        let mut timeout = 30u64;
        let mut i = 4;
        while i + 1 < args.len() {
            match args[i].as_str() {
                "--workers" => workers = args[i + 1].parse().unwrap_or(workers),
                "--budget" => budget = args[i + 1].parse().unwrap_or(budget),
                "--timeout" => timeout = args[i + 1].parse().unwrap_or(timeout),
                _ => {}
            }
            i += 2;
        }
        supervise(&args[2], &args[3], workers, budget, timeout);
        return;
    }
    eprintln!("usage: {} run <in.tsv> <out.ev.jsonl> [--workers N] [--budget BYTES] [--timeout SECS]", args[0]);
    std::process::exit(64);
}
