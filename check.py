#!/usr/bin/env python3
"""Single entry point: check.py <ID> --tier quick|thorough [--replay FILE]
exit 0 held / 1 VIOLATION / 2 INCONCLUSIVE"""
import argparse, importlib, os, sys, traceback
sys.path.insert(0, os.path.dirname(os.path.abspath(__file__)))
from lib import common


def main():
    ap = argparse.ArgumentParser()
    ap.add_argument('prop')
    ap.add_argument('--tier', default=os.environ.get('VERIF_TIER', 'quick'), choices=['quick', 'thorough'])
    ap.add_argument('--replay')
    a = ap.parse_args()
    mod = importlib.import_module('monitors.' + a.prop.lower())
    try:
        rc = mod.run(a.tier, replay=a.replay)
    except common.Inconclusive as e:
        rc = common.write_inconclusive(a.prop, a.tier, 'exploration', str(e))
    except Exception:
        traceback.print_exc()
        rc = common.write_inconclusive(a.prop, a.tier, 'exploration', 'checker crashed (see stderr)')
    sys.exit(rc)


if __name__ == '__main__':
    main()
