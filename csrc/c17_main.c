/* C17 harness: feeds frames to the generated dissector bodies and prints the shim's event stream.
 *
 *   c17_harness <input.tsv>          lines: id \t W|L \t S|C \t opcode \t login protocol version \t header length \t hex frame
 *
 * The harness contains no expectations.  stdout = event stream (see ws_shim.c), flushed at every frame
 * start so that a crash (sanitizer report, signal) is attributed to the frame whose B line has no E line.
 */
#include "ws_shim.h"
#include <stdio.h>
#include <stdlib.h>
#include <string.h>

static int hexval(int c) {
    if (c >= '0' && c <= '9') return c - '0';
    if (c >= 'a' && c <= 'f') return c - 'a' + 10;
    if (c >= 'A' && c <= 'F') return c - 'A' + 10;
    return -1;
}

int main(int argc, char** argv) {
    if (argc < 2) { fprintf(stderr, "usage: %s input.tsv\n", argv[0]); return 2; }
    static char outbuf[1 << 20];
    setvbuf(stdout, outbuf, _IOFBF, sizeof outbuf);
    int n;
    hf_register_info* h = woww_hf(&n);
    shim_register_fields("woww", h, n);
    h = wow_hf(&n);
    shim_register_fields("wow", h, n);
    printf("READY\n");
    fflush(stdout);
    FILE* f = fopen(argv[1], "r");
    if (!f) { perror(argv[1]); return 2; }
    char* line = NULL;
    size_t cap = 0;
    ssize_t len;
    while ((len = getline(&line, &cap, f)) > 0) {
        while (len > 0 && (line[len - 1] == '\n' || line[len - 1] == '\r')) line[--len] = 0;
        if (len == 0) continue;
        char* col[7];
        int nc = 0;
        char* s = line;
        while (nc < 7) {
            col[nc++] = s;
            char* t = strchr(s, '\t');
            if (!t) break;
            *t = 0;
            s = t + 1;
        }
        if (nc != 7) { fprintf(stderr, "c17_harness: malformed input line\n"); return 2; }
        size_t hl = strlen(col[6]);
        if (hl % 2) { fprintf(stderr, "c17_harness: odd hex\n"); return 2; }
        size_t fl = hl / 2;
        guint8* frame = malloc(fl ? fl : 1);
        if (!frame) return 3;
        for (size_t i = 0; i < fl; ++i) {
            int a = hexval(col[6][2 * i]), b = hexval(col[6][2 * i + 1]);
            if (a < 0 || b < 0) { fprintf(stderr, "c17_harness: bad hex\n"); return 2; }
            frame[i] = (guint8)(a * 16 + b);
        }
        guint32 opcode = (guint32)strtoul(col[3], NULL, 10);
        int hdr = atoi(col[5]);
        int s2c = col[2][0] == 'S';
        if (hdr < 0 || (size_t)hdr > fl) { fprintf(stderr, "c17_harness: header longer than frame\n"); return 2; }
        if (col[1][0] == 'W') {
            shim_run_frame(col[0], woww_body, opcode, frame, (int)fl, hdr, s2c);
        } else {
            wow_protocol_version_value = (guint8)atoi(col[4]);
            shim_run_frame(col[0], wow_body, opcode, frame, (int)fl, hdr, s2c);
        }
        free(frame);
    }
    free(line);
    fclose(f);
    printf("DONE\n");
    fflush(stdout);
    return 0;
}
