/* C17: stand-in for the part of the Wireshark epan API that the generated dissector fragments
 * (wow_message_parser/tests/wireshark/{parser,variables,imports,enums,register}.txt) use.
 *
 * Nothing here knows about any message.  The shim keeps a read cursor over a byte buffer, REFUSES to
 * read outside the buffer (event X PAST_END + unwinding, like an epan exception) and writes one event
 * line per call to the event stream; all judging happens offline (monitors/c17.py).
 *
 * The helper functions that the real plugin defines by hand (add_cstring, add_string,
 * add_sized_cstring, add_packed_guid, add_aura_mask, add_update_mask, add_monster_move_spline) are
 * implemented from wowm_language/src/spec/lang-spec.md and wowm_language/src/types/{packed-guid,
 * aura-mask,update-mask,monster-move-spline}.md (Vanilla layouts).
 */
#ifndef WS_SHIM_H
#define WS_SHIM_H

#include <stdint.h>
#include <stddef.h>

typedef int gint;
typedef unsigned int guint;
typedef int8_t gint8;
typedef uint8_t guint8;
typedef int16_t gint16;
typedef uint16_t guint16;
typedef int32_t gint32;
typedef uint32_t guint32;
typedef int64_t gint64;
typedef uint64_t guint64;
typedef int gboolean;
typedef char gchar;
#ifndef TRUE
#define TRUE 1
#define FALSE 0
#endif
#ifndef NULL
#define NULL ((void*)0)
#endif

/* epan/proto.h encodings (real values: big endian and ENC_NA are both 0) */
#define ENC_BIG_ENDIAN    0x00000000u
#define ENC_LITTLE_ENDIAN 0x80000000u
#define ENC_NA            0x00000000u
#define ENC_UTF_8         0x00000002u

enum ftenum {
    FT_NONE, FT_PROTOCOL, FT_BOOLEAN, FT_CHAR, FT_UINT8, FT_UINT16, FT_UINT24, FT_UINT32, FT_UINT40, FT_UINT48,
    FT_UINT56, FT_UINT64, FT_INT8, FT_INT16, FT_INT24, FT_INT32, FT_INT40, FT_INT48, FT_INT56, FT_INT64,
    FT_IEEE_11073_SFLOAT, FT_IEEE_11073_FLOAT, FT_FLOAT, FT_DOUBLE, FT_ABSOLUTE_TIME, FT_RELATIVE_TIME,
    FT_STRING, FT_STRINGZ, FT_UINT_STRING, FT_ETHER, FT_BYTES, FT_UINT_BYTES, FT_IPv4, FT_IPv6, FT_IPXNET,
    FT_FRAMENUM, FT_GUID, FT_OID, FT_EUI64, FT_AX25, FT_VINES, FT_REL_OID, FT_SYSTEM_ID, FT_STRINGZPAD,
    FT_FCWWN, FT_STRINGZTRUNC, FT_NUM_TYPES
};

/* field display (only what the fragments mention) */
#define BASE_NONE         0
#define BASE_DEC          1
#define BASE_HEX          2
#define BASE_OCT          3
#define BASE_DEC_HEX      4
#define BASE_HEX_DEC      5
#define BASE_VAL64_STRING 0x00000400

typedef struct _value_string { guint32 value; const gchar* strptr; } value_string;
typedef struct _val64_string { guint64 value; const gchar* strptr; } val64_string;
#define VALS(x)   ((const void*)(x))
#define VALS64(x) ((const void*)(x))

typedef struct _header_field_info {
    const char* name;
    const char* abbrev;
    enum ftenum type;
    int display;
    const void* strings;
    guint64 bitmask;
    const char* blurb;
    /* the part HFILL sets */
    int id;
    int parent;
    int ref_type;
    int same_name_prev_id;
    struct _header_field_info* same_name_next;
} header_field_info;
#define HFILL -1, 0, 0, -1, NULL

typedef struct hf_register_info {
    int* p_id;
    header_field_info hfinfo;
} hf_register_info;

#define array_length(x) (sizeof(x) / sizeof((x)[0]))

typedef struct _proto_node { int unused; } proto_tree;
typedef struct _proto_node proto_item;
typedef struct _wmem_allocator wmem_allocator_t;
typedef struct _packet_info { guint32 srcport; guint32 destport; } packet_info;

typedef struct tvbuff {
    int id;               /* 0 = the frame; 1.. = buffers created by tvb_uncompress, in creation order */
    const guint8* data;
    gint length;
} tvbuff_t;

typedef struct ptvcursor {
    proto_tree* tree;
    tvbuff_t* tvb;
    gint offset;
    int depth;            /* pushed subtrees */
    int cid;              /* cursor id (0 = the cursor of the body function) */
} ptvcursor_t;

#define SUBTREE_UNDEFINED_LENGTH (-1)

wmem_allocator_t* wmem_packet_scope(void);

ptvcursor_t* ptvcursor_new(wmem_allocator_t* scope, proto_tree* tree, tvbuff_t* tvb, gint offset);
void ptvcursor_free(ptvcursor_t* ptvc);
proto_item* ptvcursor_add(ptvcursor_t* ptvc, int hf, gint length, const guint encoding);
proto_item* ptvcursor_add_ret_uint(ptvcursor_t* ptvc, int hf, gint length, const guint encoding, guint32* retval);
proto_item* ptvcursor_add_no_advance(ptvcursor_t* ptvc, int hf, gint length, const guint encoding);
void ptvcursor_advance(ptvcursor_t* ptvc, gint length);
tvbuff_t* ptvcursor_tvbuff(ptvcursor_t* ptvc);
gint ptvcursor_current_offset(ptvcursor_t* ptvc);
proto_tree* ptvcursor_tree(ptvcursor_t* ptvc);
proto_tree* ptvcursor_add_text_with_subtree(ptvcursor_t* ptvc, gint length, gint ett_subtree, const char* format, ...)
    __attribute__((format(printf, 4, 5)));
proto_tree* ptvcursor_push_subtree(ptvcursor_t* ptvc, proto_item* it, gint ett_subtree);
void ptvcursor_pop_subtree(ptvcursor_t* ptvc);

tvbuff_t* tvb_uncompress(tvbuff_t* tvb, const int offset, int comprlen);
guint tvb_reported_length(const tvbuff_t* tvb);
guint tvb_captured_length(const tvbuff_t* tvb);
gint tvb_reported_length_remaining(const tvbuff_t* tvb, const gint offset);
guint8 tvb_get_guint8(tvbuff_t* tvb, const gint offset);
guint16 tvb_get_letohs(tvbuff_t* tvb, const gint offset);
guint32 tvb_get_letohl(tvbuff_t* tvb, const gint offset);
guint64 tvb_get_letoh64(tvbuff_t* tvb, const gint offset);
guint16 tvb_get_ntohs(tvbuff_t* tvb, const gint offset);
guint32 tvb_get_ntohl(tvbuff_t* tvb, const gint offset);

/* helpers the real plugin writes by hand */
void add_cstring(ptvcursor_t* ptv, const int* hf);
void add_string(ptvcursor_t* ptv, const int* hf);
void add_sized_cstring(ptvcursor_t* ptv, const int* hf);
void add_packed_guid(ptvcursor_t* ptv, packet_info* pinfo);
void add_aura_mask(ptvcursor_t* ptv);
void add_update_mask(ptvcursor_t* ptv, packet_info* pinfo);
void add_monster_move_spline(ptvcursor_t* ptv);

/* ---- harness side ---- */
/* walk a register array (what proto_register_field_array does): assigns ids, logs one HF line per entry */
void shim_register_fields(const char* proto, hf_register_info* hf, int n);
/* run fn over one frame; returns 0 if the body function returned, 1 if it was unwound by an abort event */
typedef void (*shim_body_fn)(guint32 header_opcode, proto_tree* tree, tvbuff_t* tvb, gint32 offset,
                             gint32 offset_packet_end, packet_info* pinfo);
int shim_run_frame(const char* id, shim_body_fn fn, guint32 opcode, const guint8* frame, int frame_len, int hdr,
                   int server_to_client);
/* called by the body function wrappers right after the generated switch */
void shim_body_done(ptvcursor_t* ptv);

/* the two generated translation units */
void woww_body(guint32 header_opcode, proto_tree* tree, tvbuff_t* tvb, gint32 offset, gint32 offset_packet_end,
               packet_info* pinfo);
void wow_body(guint32 header_opcode, proto_tree* tree, tvbuff_t* tvb, gint32 offset, gint32 offset_packet_end,
              packet_info* pinfo);
hf_register_info* woww_hf(int* n);
hf_register_info* wow_hf(int* n);
extern guint8 wow_protocol_version_value;   /* what `*protocol_version` reads in the login switch */

#endif
