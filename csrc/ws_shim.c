/* C17 shim: see ws_shim.h.  Event grammar (tab separated, one event per line):
 *
 *   HF  <proto> <id> <abbrev> <ft> <display> <strings:0|1>      one per register-array entry (start-up)
 *   HFDUP <proto> <abbrev>                                       the same hf int registered twice
 *   B   <frame id>
 *   N   <cid> <tvb> <off>                                        ptvcursor_new
 *   A   <cid> <tvb> <off> <len> <enc> <abbrev> <ft> <value|-> <warn|->      ptvcursor_add
 *   R   <cid> <tvb> <off> <len> <enc> <abbrev> <ft> <value> <warn|->        ptvcursor_add_ret_uint
 *   H   <kind> <cid> <tvb> <off> <len> <abbrev|-> <detail>       hand-written helper of the real plugin
 *   Z   <src tvb> <off> <len> <new tvb|-1> <inflated len> <stream bytes consumed> <zlib rc>
 *   S+  <cid> <depth after> <label>      S-  <cid> <depth after>
 *   F   <cid> <tvb> <off> <depth>                                ptvcursor_free
 *   D   <cid> <tvb> <off> <depth>                                the body function reached the end of the switch
 *   X   <kind> <call> <tvb> <off> <len> <tvb length> <detail>    the walk was unwound (PAST_END | BUG | EVENT_LIMIT)
 *   E   <frame id> <returned|aborted>
 *
 * Every X event unwinds to shim_run_frame, as an exception thrown by epan would.
 */
#include "ws_shim.h"
#include <stdio.h>
#include <stdlib.h>
#include <string.h>
#include <stdarg.h>
#include <setjmp.h>
#include <zlib.h>

#define MAX_HF 8192
#define EVENT_LIMIT 400000
#define INFLATE_LIMIT (64u << 20)

static header_field_info* g_hf[MAX_HF];
static int g_nhf = 0; /* ids start at 1: an unregistered `static int hf_x;` stays 0 */

static jmp_buf g_unwind;
static int g_in_frame = 0;
static long g_events = 0;
static int g_next_tvb = 1;
static int g_next_cid = 0;
static packet_info g_pinfo;
static proto_tree g_tree;

/* per-frame arena */
static void** g_arena = NULL;
static int g_arena_n = 0, g_arena_cap = 0;

static void* arena_alloc(size_t n) {
    void* p = malloc(n ? n : 1);
    if (!p) { fprintf(stderr, "shim: out of memory\n"); exit(3); }
    if (g_arena_n == g_arena_cap) {
        g_arena_cap = g_arena_cap ? g_arena_cap * 2 : 64;
        g_arena = realloc(g_arena, sizeof(void*) * (size_t)g_arena_cap);
        if (!g_arena) { fprintf(stderr, "shim: out of memory\n"); exit(3); }
    }
    g_arena[g_arena_n++] = p;
    return p;
}

static void arena_reset(void) {
    for (int i = 0; i < g_arena_n; ++i) free(g_arena[i]);
    g_arena_n = 0;
}

static const char* ft_name(enum ftenum t) {
    switch (t) {
    case FT_NONE: return "FT_NONE"; case FT_BOOLEAN: return "FT_BOOLEAN"; case FT_CHAR: return "FT_CHAR";
    case FT_UINT8: return "FT_UINT8"; case FT_UINT16: return "FT_UINT16"; case FT_UINT24: return "FT_UINT24";
    case FT_UINT32: return "FT_UINT32"; case FT_UINT40: return "FT_UINT40"; case FT_UINT48: return "FT_UINT48";
    case FT_UINT56: return "FT_UINT56"; case FT_UINT64: return "FT_UINT64";
    case FT_INT8: return "FT_INT8"; case FT_INT16: return "FT_INT16"; case FT_INT24: return "FT_INT24";
    case FT_INT32: return "FT_INT32"; case FT_INT40: return "FT_INT40"; case FT_INT48: return "FT_INT48";
    case FT_INT56: return "FT_INT56"; case FT_INT64: return "FT_INT64";
    case FT_FLOAT: return "FT_FLOAT"; case FT_DOUBLE: return "FT_DOUBLE";
    case FT_STRING: return "FT_STRING"; case FT_STRINGZ: return "FT_STRINGZ"; case FT_BYTES: return "FT_BYTES";
    case FT_IPv4: return "FT_IPv4"; case FT_GUID: return "FT_GUID";
    default: return "FT_OTHER";
    }
}

static void tick(void);

static void unwind(const char* kind, const char* call, const tvbuff_t* tvb, long off, long len, const char* detail)
    __attribute__((noreturn));
static void unwind(const char* kind, const char* call, const tvbuff_t* tvb, long off, long len, const char* detail) {
    printf("X\t%s\t%s\t%d\t%ld\t%ld\t%d\t%s\n", kind, call, tvb ? tvb->id : -1, off, len, tvb ? tvb->length : -1,
           detail ? detail : "-");
    if (!g_in_frame) { fflush(stdout); fprintf(stderr, "shim: abort outside a frame: %s %s\n", kind, call); exit(3); }
    longjmp(g_unwind, 1);
}

static void tick(void) {
    if (++g_events > EVENT_LIMIT) {
        g_events = 0;
        unwind("EVENT_LIMIT", "-", NULL, 0, 0, "more events than any canonical vector can need: the walk does not advance");
    }
}

/* the only way bytes are read */
static const guint8* need(const tvbuff_t* tvb, long off, long len, const char* call) {
    if (tvb == NULL) unwind("BUG", call, NULL, off, len, "NULL tvb");
    if (off < 0 || len < 0 || off > tvb->length || len > (long)tvb->length - off)
        unwind("PAST_END", call, tvb, off, len, "-");
    return tvb->data + off;
}

static header_field_info* lookup(int hf, const char* call, ptvcursor_t* ptvc) {
    if (hf <= 0 || hf > g_nhf || g_hf[hf] == NULL)
        unwind("BUG", call, ptvc ? ptvc->tvb : NULL, ptvc ? ptvc->offset : 0, 0,
               hf == 0 ? "unregistered hf (the static int is still 0: not in the register array)" : "invalid hf index");
    return g_hf[hf];
}

void shim_register_fields(const char* proto, hf_register_info* hf, int n) {
    for (int i = 0; i < n; ++i) {
        if (hf[i].p_id == NULL) { printf("HFNULL\t%s\t%s\n", proto, hf[i].hfinfo.abbrev); continue; }
        if (*hf[i].p_id != 0) { printf("HFDUP\t%s\t%s\n", proto, hf[i].hfinfo.abbrev); continue; }
        if (g_nhf + 1 >= MAX_HF) { fprintf(stderr, "shim: too many hf entries\n"); exit(3); }
        g_hf[++g_nhf] = &hf[i].hfinfo;
        hf[i].hfinfo.id = g_nhf;
        *hf[i].p_id = g_nhf;
        printf("HF\t%s\t%d\t%s\t%s\t%d\t%d\n", proto, g_nhf, hf[i].hfinfo.abbrev, ft_name(hf[i].hfinfo.type),
               hf[i].hfinfo.display, hf[i].hfinfo.strings != NULL);
    }
}

/* ------------------------------------------------------------------------------------------------ */
wmem_allocator_t* wmem_packet_scope(void) { return NULL; }

ptvcursor_t* ptvcursor_new(wmem_allocator_t* scope, proto_tree* tree, tvbuff_t* tvb, gint offset) {
    (void)scope;
    tick();
    ptvcursor_t* p = arena_alloc(sizeof *p);
    p->tree = tree; p->tvb = tvb; p->offset = offset; p->depth = 0; p->cid = g_next_cid++;
    printf("N\t%d\t%d\t%d\n", p->cid, tvb ? tvb->id : -1, offset);
    if (tvb == NULL) unwind("BUG", "ptvcursor_new", NULL, offset, 0, "NULL tvb");
    return p;
}

void ptvcursor_free(ptvcursor_t* p) {
    tick();
    printf("F\t%d\t%d\t%d\t%d\n", p->cid, p->tvb->id, p->offset, p->depth);
    /* memory belongs to the frame arena */
}

void shim_body_done(ptvcursor_t* p) {
    printf("D\t%d\t%d\t%d\t%d\n", p->cid, p->tvb->id, p->offset, p->depth);
}

tvbuff_t* ptvcursor_tvbuff(ptvcursor_t* p) { return p->tvb; }
gint ptvcursor_current_offset(ptvcursor_t* p) { return p->offset; }
proto_tree* ptvcursor_tree(ptvcursor_t* p) { return p->tree; }

void ptvcursor_advance(ptvcursor_t* p, gint length) {
    tick();
    printf("H\tadvance\t%d\t%d\t%d\t%d\t-\t-\n", p->cid, p->tvb->id, p->offset, length);
    p->offset += length;
}

static int is_uint32ish(enum ftenum t) {
    return t == FT_CHAR || t == FT_UINT8 || t == FT_UINT16 || t == FT_UINT24 || t == FT_UINT32;
}
static int is_int32ish(enum ftenum t) { return t == FT_INT8 || t == FT_INT16 || t == FT_INT24 || t == FT_INT32; }
static int is_int64ish(enum ftenum t) {
    return t == FT_UINT40 || t == FT_UINT48 || t == FT_UINT56 || t == FT_UINT64 || t == FT_INT40 || t == FT_INT48 ||
           t == FT_INT56 || t == FT_INT64;
}

static guint64 read_uint(const guint8* d, int n, guint enc) {
    guint64 v = 0;
    if (enc & ENC_LITTLE_ENDIAN) for (int i = n - 1; i >= 0; --i) v = (v << 8) | d[i];
    else for (int i = 0; i < n; ++i) v = (v << 8) | d[i];
    return v;
}

/* what proto_tree_new_item does for the types the fragments register; returns the item length and the value */
static gint add_item(ptvcursor_t* p, header_field_info* hfi, gint length, guint enc, const char* call, int* has_value,
                     guint64* value, const char** warn) {
    gint off = p->offset, item = length;
    enum ftenum t = hfi->type;
    *has_value = 0; *value = 0; *warn = "-";
    if (length < -1) unwind("BUG", call, p->tvb, off, length, "invalid length");
    if (length == -1) {
        if (t == FT_STRINGZ) {
            gint i = off;
            for (;;) { const guint8* c = need(p->tvb, i, 1, call); ++i; if (*c == 0) break; }
            item = i - off;
        } else if (t == FT_BYTES || t == FT_STRING || t == FT_NONE || t == FT_PROTOCOL) {
            need(p->tvb, off, 0, call);
            item = p->tvb->length - off;
        } else unwind("BUG", call, p->tvb, off, length, "length -1 for a fixed-size field type");
    }
    const guint8* d = need(p->tvb, off, item, call);
    if (is_uint32ish(t) || is_int32ish(t)) {
        if (item < 1) unwind("BUG", call, p->tvb, off, item, "integer field with length < 1 (epan: type/length mismatch error)");
        if (item > 4) *warn = "len>4_for_32bit_type";
        *value = read_uint(d, item > 4 ? 4 : item, enc); *has_value = 1;
    } else if (is_int64ish(t)) {
        if (item < 1) unwind("BUG", call, p->tvb, off, item, "integer field with length < 1 (epan: type/length mismatch error)");
        if (item > 8) *warn = "len>8_for_64bit_type";
        *value = read_uint(d, item > 8 ? 8 : item, enc); *has_value = 1;
    } else if (t == FT_FLOAT) {
        if (item < 4) unwind("BUG", call, p->tvb, off, item, "FT_FLOAT with length < 4 (epan: type/length mismatch error)");
        if (item > 4) *warn = "len>4_for_float";
        *value = read_uint(d, 4, enc); *has_value = 1;
    } else if (t == FT_BOOLEAN) {
        if (item < 1) unwind("BUG", call, p->tvb, off, item, "boolean field with length < 1");
        *value = read_uint(d, item > 8 ? 8 : item, enc); *has_value = 1;
    }
    return item;
}

static void log_add(const char* tag, ptvcursor_t* p, header_field_info* hfi, gint item, guint enc, int has_value,
                    guint64 value, const char* warn) {
    if (has_value)
        printf("%s\t%d\t%d\t%d\t%d\t%08x\t%s\t%s\t%llx\t%s\n", tag, p->cid, p->tvb->id, p->offset, item, enc, hfi->abbrev,
               ft_name(hfi->type), (unsigned long long)value, warn);
    else
        printf("%s\t%d\t%d\t%d\t%d\t%08x\t%s\t%s\t-\t%s\n", tag, p->cid, p->tvb->id, p->offset, item, enc, hfi->abbrev,
               ft_name(hfi->type), warn);
}

proto_item* ptvcursor_add(ptvcursor_t* p, int hf, gint length, const guint enc) {
    tick();
    header_field_info* hfi = lookup(hf, "ptvcursor_add", p);
    int hv; guint64 v; const char* warn;
    gint item = add_item(p, hfi, length, enc, "ptvcursor_add", &hv, &v, &warn);
    log_add("A", p, hfi, item, enc, hv, v, warn);
    p->offset += item;
    return NULL;
}

proto_item* ptvcursor_add_no_advance(ptvcursor_t* p, int hf, gint length, const guint enc) {
    tick();
    header_field_info* hfi = lookup(hf, "ptvcursor_add_no_advance", p);
    int hv; guint64 v; const char* warn;
    gint item = add_item(p, hfi, length, enc, "ptvcursor_add_no_advance", &hv, &v, &warn);
    log_add("A0", p, hfi, item, enc, hv, v, warn);
    return NULL;
}

proto_item* ptvcursor_add_ret_uint(ptvcursor_t* p, int hf, gint length, const guint enc, guint32* retval) {
    tick();
    header_field_info* hfi = lookup(hf, "ptvcursor_add_ret_uint", p);
    /* epan/proto.c: REPORT_DISSECTOR_BUG("field %s is not of type FT_CHAR, FT_UINT8, FT_UINT16, FT_UINT24, or FT_UINT32") */
    if (!is_uint32ish(hfi->type))
        unwind("BUG", "ptvcursor_add_ret_uint", p->tvb, p->offset, length, hfi->abbrev);
    if (length < 1) unwind("BUG", "ptvcursor_add_ret_uint", p->tvb, p->offset, length, "invalid length");
    int hv; guint64 v; const char* warn;
    gint item = add_item(p, hfi, length, enc, "ptvcursor_add_ret_uint", &hv, &v, &warn);
    log_add("R", p, hfi, item, enc, 1, v, warn);
    if (retval) *retval = (guint32)v;
    p->offset += item;
    return NULL;
}

proto_tree* ptvcursor_add_text_with_subtree(ptvcursor_t* p, gint length, gint ett, const char* format, ...) {
    (void)length; (void)ett;
    tick();
    char buf[96];
    va_list ap;
    va_start(ap, format);
    vsnprintf(buf, sizeof buf, format, ap);
    va_end(ap);
    for (char* c = buf; *c; ++c) if (*c == '\t' || *c == '\n') *c = ' ';
    p->depth++;
    printf("S+\t%d\t%d\t%s\n", p->cid, p->depth, buf);
    return p->tree;
}

proto_tree* ptvcursor_push_subtree(ptvcursor_t* p, proto_item* it, gint ett) {
    (void)it; (void)ett;
    tick();
    p->depth++;
    printf("S+\t%d\t%d\t-\n", p->cid, p->depth);
    return p->tree;
}

void ptvcursor_pop_subtree(ptvcursor_t* p) {
    tick();
    if (p->depth <= 0) { printf("S-\t%d\t-1\n", p->cid); return; } /* epan: silently ignored */
    p->depth--;
    printf("S-\t%d\t%d\n", p->cid, p->depth);
}

/* ------------------------------------------------------------------------------------------------ */
guint tvb_reported_length(const tvbuff_t* tvb) { return (guint)tvb->length; }
guint tvb_captured_length(const tvbuff_t* tvb) { return (guint)tvb->length; }
gint tvb_reported_length_remaining(const tvbuff_t* tvb, const gint offset) {
    return (offset < 0 || offset > tvb->length) ? -1 : tvb->length - offset;
}
guint8 tvb_get_guint8(tvbuff_t* tvb, const gint off) { return *need(tvb, off, 1, "tvb_get_guint8"); }
guint16 tvb_get_letohs(tvbuff_t* tvb, const gint off) { return (guint16)read_uint(need(tvb, off, 2, "tvb_get_letohs"), 2, ENC_LITTLE_ENDIAN); }
guint32 tvb_get_letohl(tvbuff_t* tvb, const gint off) { return (guint32)read_uint(need(tvb, off, 4, "tvb_get_letohl"), 4, ENC_LITTLE_ENDIAN); }
guint64 tvb_get_letoh64(tvbuff_t* tvb, const gint off) { return read_uint(need(tvb, off, 8, "tvb_get_letoh64"), 8, ENC_LITTLE_ENDIAN); }
guint16 tvb_get_ntohs(tvbuff_t* tvb, const gint off) { return (guint16)read_uint(need(tvb, off, 2, "tvb_get_ntohs"), 2, ENC_BIG_ENDIAN); }
guint32 tvb_get_ntohl(tvbuff_t* tvb, const gint off) { return (guint32)read_uint(need(tvb, off, 4, "tvb_get_ntohl"), 4, ENC_BIG_ENDIAN); }

tvbuff_t* tvb_uncompress(tvbuff_t* tvb, const int offset, int comprlen) {
    tick();
    if (tvb == NULL || comprlen <= 0) { /* epan/tvbuff_zlib.c: nothing to do */
        printf("Z\t%d\t%d\t%d\t-1\t0\t0\tnone\n", tvb ? tvb->id : -1, offset, comprlen);
        return NULL;
    }
    const guint8* src = need(tvb, offset, comprlen, "tvb_uncompress");
    z_stream s;
    memset(&s, 0, sizeof s);
    if (inflateInit2(&s, MAX_WBITS + 32) != Z_OK) { fprintf(stderr, "shim: inflateInit2 failed\n"); exit(3); }
    size_t cap = 4096, n = 0;
    guint8* out = malloc(cap);
    if (!out) { fprintf(stderr, "shim: out of memory\n"); exit(3); }
    s.next_in = (Bytef*)src; s.avail_in = (uInt)comprlen;
    int rc;
    for (;;) {
        if (n == cap) {
            if (cap >= INFLATE_LIMIT) { rc = Z_MEM_ERROR; break; }
            cap *= 2;
            out = realloc(out, cap);
            if (!out) { fprintf(stderr, "shim: out of memory\n"); exit(3); }
        }
        s.next_out = out + n; s.avail_out = (uInt)(cap - n);
        rc = inflate(&s, Z_NO_FLUSH);
        n = cap - s.avail_out;
        if (rc != Z_OK) break;
        if (s.avail_in == 0 && s.avail_out != 0) { rc = Z_BUF_ERROR; break; }
    }
    long consumed = (long)s.total_in;
    inflateEnd(&s);
    if (rc != Z_STREAM_END) {
        free(out);
        printf("Z\t%d\t%d\t%d\t-1\t0\t%ld\trc=%d\n", tvb->id, offset, comprlen, consumed, rc);
        return NULL;
    }
    guint8* exact = arena_alloc(n); /* exact size: the sanitizer sees any overread of the inflated buffer */
    memcpy(exact, out, n);
    free(out);
    tvbuff_t* t = arena_alloc(sizeof *t);
    t->id = g_next_tvb++; t->data = exact; t->length = (gint)n;
    printf("Z\t%d\t%d\t%d\t%d\t%d\t%ld\tok\n", tvb->id, offset, comprlen, t->id, t->length, consumed);
    return t;
}

/* ------------------------------------------------------------------------------------------------ */
/* helpers of the hand-written part of the plugin, from the type documentation */

static const char* hf_abbrev(const int* hf, const char* call, ptvcursor_t* p) {
    if (hf == NULL) unwind("BUG", call, p->tvb, p->offset, 0, "NULL hf pointer");
    return lookup(*hf, call, p)->abbrev;
}

static gint scan_cstring(ptvcursor_t* p, gint from, const char* call) {
    gint i = from;
    for (;;) { const guint8* c = need(p->tvb, i, 1, call); ++i; if (*c == 0) break; }
    return i - from; /* including the terminator */
}

/* lang-spec.md: CString = UTF-8 bytes terminated by a zero byte */
void add_cstring(ptvcursor_t* p, const int* hf) {
    tick();
    const char* ab = hf_abbrev(hf, "add_cstring", p);
    gint n = scan_cstring(p, p->offset, "add_cstring");
    printf("H\tcstring\t%d\t%d\t%d\t%d\t%s\t-\n", p->cid, p->tvb->id, p->offset, n, ab);
    p->offset += n;
}

/* lang-spec.md: String = u8 length followed by that many bytes */
void add_string(ptvcursor_t* p, const int* hf) {
    tick();
    const char* ab = hf_abbrev(hf, "add_string", p);
    gint n = *need(p->tvb, p->offset, 1, "add_string");
    need(p->tvb, p->offset + 1, n, "add_string");
    printf("H\tstring\t%d\t%d\t%d\t%d\t%s\tlen=%d\n", p->cid, p->tvb->id, p->offset, 1 + n, ab, n);
    p->offset += 1 + n;
}

/* lang-spec.md: SizedCString = u32 followed by a CString */
void add_sized_cstring(ptvcursor_t* p, const int* hf) {
    tick();
    const char* ab = hf_abbrev(hf, "add_sized_cstring", p);
    guint32 sz = (guint32)read_uint(need(p->tvb, p->offset, 4, "add_sized_cstring"), 4, ENC_LITTLE_ENDIAN);
    gint n = scan_cstring(p, p->offset + 4, "add_sized_cstring");
    printf("H\tsized_cstring\t%d\t%d\t%d\t%d\t%s\tsize=%u\n", p->cid, p->tvb->id, p->offset, 4 + n, ab, sz);
    p->offset += 4 + n;
}

static int popcount32(guint32 v) { int n = 0; while (v) { n += (int)(v & 1u); v >>= 1; } return n; }

/* types/packed-guid.md: u8 byte mask, one byte per set bit */
void add_packed_guid(ptvcursor_t* p, packet_info* pinfo) {
    (void)pinfo;
    tick();
    guint8 mask = *need(p->tvb, p->offset, 1, "add_packed_guid");
    gint n = popcount32(mask);
    const guint8* d = need(p->tvb, p->offset + 1, n, "add_packed_guid");
    guint64 guid = 0;
    for (int i = 0, c = 0; i < 8; ++i) if (mask & (1u << i)) guid |= (guint64)d[c++] << (8 * i);
    printf("H\tpacked_guid\t%d\t%d\t%d\t%d\t-\tguid=%llx\n", p->cid, p->tvb->id, p->offset, 1 + n, (unsigned long long)guid);
    p->offset += 1 + n;
}

/* types/aura-mask.md (Vanilla): u32 pattern, one u16 per set bit */
void add_aura_mask(ptvcursor_t* p) {
    tick();
    guint32 pat = (guint32)read_uint(need(p->tvb, p->offset, 4, "add_aura_mask"), 4, ENC_LITTLE_ENDIAN);
    gint n = 2 * popcount32(pat);
    need(p->tvb, p->offset + 4, n, "add_aura_mask");
    printf("H\taura_mask\t%d\t%d\t%d\t%d\t-\tpattern=%x\n", p->cid, p->tvb->id, p->offset, 4 + n, pat);
    p->offset += 4 + n;
}

/* types/update-mask.md: u8 number of u32 mask blocks, the blocks, one u32 per set bit */
void add_update_mask(ptvcursor_t* p, packet_info* pinfo) {
    (void)pinfo;
    tick();
    gint blocks = *need(p->tvb, p->offset, 1, "add_update_mask");
    const guint8* m = need(p->tvb, p->offset + 1, 4 * blocks, "add_update_mask");
    gint set = 0;
    for (int i = 0; i < blocks; ++i) set += popcount32((guint32)read_uint(m + 4 * i, 4, ENC_LITTLE_ENDIAN));
    need(p->tvb, p->offset + 1 + 4 * blocks, 4 * set, "add_update_mask");
    gint n = 1 + 4 * blocks + 4 * set;
    printf("H\tupdate_mask\t%d\t%d\t%d\t%d\t-\tblocks=%d,values=%d\n", p->cid, p->tvb->id, p->offset, n, blocks, set);
    p->offset += n;
}

/* types/monster-move-spline.md: u32 amount, the first as three f32, the remaining as packed u32 */
void add_monster_move_spline(ptvcursor_t* p) {
    tick();
    guint32 cnt = (guint32)read_uint(need(p->tvb, p->offset, 4, "add_monster_move_spline"), 4, ENC_LITTLE_ENDIAN);
    long n = 4;
    if (cnt >= 1) n += 12 + 4 * ((long)cnt - 1);
    need(p->tvb, p->offset, n, "add_monster_move_spline");
    printf("H\tspline\t%d\t%d\t%d\t%ld\t-\tcount=%u\n", p->cid, p->tvb->id, p->offset, n, cnt);
    p->offset += (gint)n;
}

/* ------------------------------------------------------------------------------------------------ */
int shim_run_frame(const char* id, shim_body_fn fn, guint32 opcode, const guint8* frame, int frame_len, int hdr,
                   int server_to_client) {
    printf("B\t%s\n", id);
    fflush(stdout); /* a crash inside the generated code is attributed to this frame */
    guint8* copy = arena_alloc((size_t)frame_len);
    memcpy(copy, frame, (size_t)frame_len);
    tvbuff_t* tvb = arena_alloc(sizeof *tvb);
    tvb->id = 0; tvb->data = copy; tvb->length = frame_len;
    g_next_tvb = 1; g_next_cid = 0; g_events = 0;
    /* the real macros: WOWW_SERVER_TO_CLIENT = (pinfo->srcport < pinfo->destport) */
    g_pinfo.srcport = server_to_client ? 8085 : 50000;
    g_pinfo.destport = server_to_client ? 50000 : 8085;
    volatile int aborted = 0;
    g_in_frame = 1;
    if (setjmp(g_unwind) == 0) fn(opcode, &g_tree, tvb, hdr, frame_len, &g_pinfo);
    else aborted = 1;
    g_in_frame = 0;
    printf("E\t%s\t%s\n", id, aborted ? "aborted" : "returned");
    arena_reset();
    return aborted;
}
