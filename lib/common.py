"""Common verdict / evidence / build machinery for all checks."""
import json, os, re, subprocess, sys, time, hashlib, shutil, atexit, glob

VERIF = os.path.dirname(os.path.dirname(os.path.abspath(__file__)))
REPO = os.environ.get('WOWM_REPO', '/repo')
BUILD = os.environ.get('VERIF_BUILD', os.path.join(VERIF, '.build'))
HARNESS = os.environ.get('VERIF_HARNESS', os.path.join(VERIF, 'harness'))
EVIDENCE = os.environ.get('VERIF_EVIDENCE', os.path.join(VERIF, 'evidence'))   # experiments on scratch copies write elsewhere
REPLAYS = os.path.join(EVIDENCE, 'replays')
NCPU = os.cpu_count() or 4

ENV = dict(os.environ)
ENV.update({'CARGO_NET_OFFLINE': 'true', 'CARGO_TERM_COLOR': 'never'})


class Inconclusive(Exception):
    pass


def seed():
    try:
        return int(os.environ.get('VERIF_SEED', '1'))
    except ValueError:
        return 1


def log(*a):
    print(*a, file=sys.stderr, flush=True)


# ------------------------------------------------------------------------------------------------
# builds

def cargo_build(package, release=False, features=None, no_default=False, extra_env=None, cwd=None,
                target_dir=None, bin_name=None, infra=True):
    """Build a harness package against /repo's working tree; -> path of the binary.
    A failure raises Inconclusive (infra=True) or returns (None, stderr) (infra=False)."""
    # every driver crate is a standalone package (own [workspace] table and Cargo.lock) under harness/;
    # the shared target dir comes from harness/.cargo/config.toml
    cwd = cwd or os.path.join(HARNESS, package)
    cmd = ['cargo', 'build', '--offline']
    if release:
        cmd.append('--release')
    if no_default:
        cmd.append('--no-default-features')
    if features:
        cmd += ['--features', ','.join(features)]
    env = dict(ENV)
    if extra_env:
        env.update(extra_env)
    # always explicit, so that a copy of /verif elsewhere (vp run snapshot, scratch harness) builds into its own .build
    target_dir = target_dir or os.path.join(BUILD, 'target')
    env['CARGO_TARGET_DIR'] = target_dir
    t0 = time.time()
    p = subprocess.run(cmd, cwd=cwd, env=env, stdout=subprocess.PIPE, stderr=subprocess.PIPE, text=True)
    log(f'[build] {" ".join(cmd)} -> {p.returncode} in {time.time() - t0:.1f}s')
    if p.returncode != 0:
        if infra:
            raise Inconclusive(f'cargo build -p {package} failed:\n{p.stderr[-3000:]}')
        return None, p.stderr
    td = target_dir or os.path.join(BUILD, 'target')
    path = os.path.join(td, 'release' if release else 'debug', bin_name or package)
    return (path, p.stderr) if not infra else path


MAX_WORKLOAD_BYTES = 6 << 30


def run_driver(binary, rows, name, workers=None, budget=1 << 30, timeout=30, keep=False):
    """rows: iterable of lists (id, api, cols...).  -> dict id -> event (last record per id)."""
    d = os.path.join(BUILD, 'run')
    os.makedirs(d, exist_ok=True)
    tsv = os.path.join(d, f'{name}.{os.getpid()}.in.tsv')
    out = os.path.join(d, f'{name}.{os.getpid()}.ev.jsonl')
    n = 0
    # leftovers of runs that were killed (their pid is gone)
    for fn in os.listdir(d):
        m = re.match(r'.*\.(\d+)\.(in\.tsv|ev\.jsonl)$', fn)
        if m and not os.path.exists(f'/proc/{m.group(1)}'):
            try:
                os.remove(os.path.join(d, fn))
            except OSError:
                pass
    written = 0
    with open(tsv, 'w') as f:
        for r in rows:
            line = '\t'.join(str(x) for x in r) + '\n'
            f.write(line)
            written += len(line)
            n += 1
            if written > MAX_WORKLOAD_BYTES:
                f.close()
                os.remove(tsv)
                raise Inconclusive(f'workload {name} exceeds {MAX_WORKLOAD_BYTES >> 30} GiB of driver input: the check generates more than it can run')
    t0 = time.time()
    p = subprocess.run([binary, 'run', tsv, out, '--workers', str(workers or NCPU), '--budget', str(budget),
                        '--timeout', str(timeout)], stdout=subprocess.PIPE, stderr=subprocess.PIPE, text=True)
    if p.returncode != 0:
        raise Inconclusive(f'driver {binary} exited {p.returncode}: {p.stderr[-2000:]}')
    ev = {}
    with open(out) as f:
        for line in f:
            try:
                e = json.loads(line)
            except json.JSONDecodeError:
                raise Inconclusive(f'driver wrote a malformed event line: {line[:200]}')
            if 'id' in e:
                ev[e['id']] = e
    log(f'[driver] {name}: {n} ops -> {len(ev)} events in {time.time() - t0:.1f}s')
    if not keep:
        for pth in (tsv, out):
            try:
                os.remove(pth)
            except OSError:
                pass
    return ev


# ------------------------------------------------------------------------------------------------
# known findings

def load_known(prop):
    p = os.path.join(VERIF, 'known_findings.json')
    if not os.path.exists(p):
        return []
    with open(p) as f:
        data = json.load(f)
    return [k for k in data.get('findings', []) if k.get('property') == prop and k.get('status') == 'open']


def _match_one(cond, val):
    if isinstance(cond, dict):
        if 're' in cond:
            return val is not None and re.search(cond['re'], str(val)) is not None
        if 'range' in cond:
            return isinstance(val, (int, float)) and cond['range'][0] <= val <= cond['range'][1]
        if 'in' in cond:
            return val in cond['in']
        return False
    if isinstance(cond, list):
        return val in cond
    return val == cond


def match_known(known, obs):
    for k in known:
        if all(_match_one(c, obs.get(key)) for key, c in k['when'].items()):
            return k
    return None


# ------------------------------------------------------------------------------------------------
# verdict + evidence

class Check:
    def __init__(s, prop, tier, level, rule):
        s.prop, s.tier, s.level, s.rule = prop, tier, level, rule
        s.t0 = time.time()
        s.evaluations = 0
        s.distinct = set()
        s.samples = []
        s.violations = []       # (obs, replay-path)
        s.known_hits = {}       # finding id -> count
        s.known_example = {}
        s.known = load_known(prop)
        s.extra = {}
        s.assumptions = []
        s.inconclusive = []
        s.counts = {}
        s._sigs = set()
        rdir = os.path.join(REPLAYS, prop)
        os.makedirs(rdir, exist_ok=True)
        for f in os.listdir(rdir):      # replay files of earlier runs would only confuse
            if f.endswith('.json') and not f.startswith('known-') and not os.environ.get('VERIF_KEEP_REPLAYS'):
                try:
                    os.remove(os.path.join(rdir, f))
                except OSError:
                    pass

    def count(s, key, n=1):
        s.counts[key] = s.counts.get(key, 0) + n

    def ok(s, distinct_key=None, sample=None):
        s.evaluations += 1
        if distinct_key is not None:
            s.distinct.add(distinct_key)
        if sample is not None and len(s.samples) < 5:
            s.samples.append(sample)

    def violation(s, obs, replay):
        """obs: flat dict describing the refuting observation (used for known-finding matching).
        replay: dict written to the replay file."""
        s.evaluations += 1
        k = match_known(s.known, obs)
        if k is not None:
            s.known_hits[k['id']] = s.known_hits.get(k['id'], 0) + 1
            s.known_example.setdefault(k['id'], obs)
            return 'known'
        sig = hashlib.sha1(json.dumps(obs, sort_keys=True, default=str).encode()).hexdigest()[:12]
        path = os.path.join(REPLAYS, s.prop, f'{sig}.json')
        if sig not in s._sigs and len(s._sigs) < 400:
            s._sigs.add(sig)
            with open(path, 'w') as f:
                json.dump({'property': s.prop, 'tier': s.tier, 'seed': seed(), 'observation': obs, **replay}, f, indent=1, default=str)
        elif sig not in s._sigs:
            path = s.violations[0][1]
        s.violations.append((obs, path))
        return 'violation'

    def finish(s):
        wall = time.time() - s.t0
        cov = {
            'evaluations': s.evaluations, 'distinct_nontrivial': len(s.distinct), 'rule': s.rule,
            'samples': s.samples, 'counts': s.counts,
            'known_findings_matched': s.known_hits,
        }
        cov.update(s.extra)
        ev = {'property_id': s.prop, 'tier': s.tier, 'seed': seed(), 'level': s.level, 'coverage': cov,
              'assumptions': s.assumptions, 'wall_s': round(wall, 2), 'violations': len(s.violations)}
        if s.inconclusive:
            ev['coverage']['inconclusive'] = s.inconclusive[:20]
        os.makedirs(EVIDENCE, exist_ok=True)
        with open(os.path.join(EVIDENCE, f'{s.prop}.json'), 'w') as f:
            json.dump(ev, f, indent=1, default=str)
        for kid, n in s.known_hits.items():
            k = [x for x in s.known if x['id'] == kid][0]
            print(f'KNOWN-FINDING: property={s.prop} {kid}: {k["what"]} ({n} observations)')
        seen = set()
        for obs, path in s.violations:
            if path in seen:
                continue
            seen.add(path)
            print(f'VIOLATION property={s.prop} replay={path}')
            log('   ', json.dumps(obs, default=str)[:400])
        if s.violations:
            print(f'{s.prop}: {len(s.violations)} violating observations ({len(seen)} distinct replays) in {s.evaluations} evaluations')
            return 1
        if s.inconclusive or s.evaluations == 0 or len(s.distinct) < 2:
            print(f'{s.prop}: INCONCLUSIVE: {s.inconclusive[:3] or "monitor observed too little"}')
            return 2
        print(f'{s.prop}: held on {s.evaluations} evaluations, {len(s.distinct)} distinct cases ({s.tier}, seed {seed()}, {wall:.0f}s)')
        return 0


def write_inconclusive(prop, tier, level, why):
    os.makedirs(EVIDENCE, exist_ok=True)
    print(f'{prop}: INCONCLUSIVE: {why[:2000]}')
    return 2
