"""C17 support: read the generated Wireshark fragments, split them into the world (packet-woww.c) and login
(packet-wow.c) halves the way the generator's own `apply_to_wireshark_file` feeds them to two files, wrap them
into two C translation units around csrc/ws_shim.h, and build the harness with clang + ASan/UBSan.

Nothing in here judges a walk; the static declared/registered cross-check is the only verdict-relevant part
(`static_refs`).
"""
import hashlib, os, re, shutil, subprocess, time
from . import common

CSRC = os.path.join(common.VERIF, 'csrc')
OUT = os.path.join(common.BUILD, 'c17')
FILES = ('parser.txt', 'variables.txt', 'imports.txt', 'enums.txt', 'register.txt')
CFLAGS = ['-std=gnu11', '-fsanitize=address,undefined', '-fno-sanitize-recover=all', '-fno-omit-frame-pointer', '-g', '-O1',
          '-Wall', '-Werror=implicit-function-declaration', '-Werror=implicit-int', '-Werror=int-conversion',
          '-Werror=incompatible-pointer-types', '-Wno-unused-variable', '-Wno-unused-const-variable',
          '-Wno-unused-but-set-variable', '-Wno-unused-function', '-ferror-limit=60']


class FragmentError(Exception):
    """The fragment files do not have the shape this splitter knows (infrastructure, not a verdict)."""


def read(tree):
    d = os.path.join(tree, 'wow_message_parser', 'tests', 'wireshark')
    out = {}
    for f in FILES:
        p = os.path.join(d, f)
        if not os.path.exists(p):
            raise FragmentError(f'{p} is missing')
        with open(p, encoding='utf-8', errors='replace') as fh:
            out[f] = fh.read()
    return out


def digest(frags):
    h = hashlib.sha256()
    for f in FILES:
        h.update(f.encode() + b'\0' + frags[f].encode() + b'\0')
    return h.hexdigest()


# ------------------------------------------------------------------------------------------------
# splitting

def split(frags):
    """-> {'world': {parser, variables, imports, enums, register}, 'login': {...}, 'notes': [...]}"""
    notes = []
    w, l = {}, {}
    # parser.txt: two `switch (header_opcode)` statements at the body indentation
    lines = frags['parser.txt'].split('\n')
    starts = [i for i, x in enumerate(lines) if re.match(r'^ {4}switch \(header_opcode\) \{\s*$', x)]
    if len(starts) != 2:
        raise FragmentError(f'parser.txt has {len(starts)} top-level `switch (header_opcode)` statements, expected 2 (world, login)')
    w['parser'] = '\n'.join(lines[starts[0]:starts[1]]) + '\n'
    l['parser'] = '\n'.join(lines[starts[1]:]) + '\n'
    # imports.txt: by protocol prefix
    wi, li, other = [], [], []
    for x in frags['imports.txt'].split('\n'):
        if re.match(r'^\s*static int hf_woww_\w+;\s*$', x):
            wi.append(x)
        elif re.match(r'^\s*static int hf_wow_\w+;\s*$', x):
            li.append(x)
        elif x.strip():
            other.append(x)
    if other:
        notes.append(f'imports.txt: {len(other)} unrecognised lines given to both halves: {other[:3]}')
    w['imports'] = '\n'.join(wi + other) + '\n'
    l['imports'] = '\n'.join(li + other) + '\n'
    # register.txt: entries `{ &hf_xxx, { ... } },`
    ents = re.split(r'(?m)^(?=[ \t]*\{ &hf_\w+,)', frags['register.txt'])
    we, le = [], []
    for e in ents:
        if not e.strip():
            continue
        m = re.match(r'\s*\{ &(hf_\w+),', e)
        if not m:
            raise FragmentError(f'register.txt: text outside an entry: {e[:80]!r}')
        (we if m.group(1).startswith('hf_woww_') else le).append(e)
    w['register'] = ''.join(we)
    l['register'] = ''.join(le)
    # variables.txt: two sorted lists, one after the other
    names = [(x, re.match(r'^\s*guint32 (\w+) = 0;\s*$', x)) for x in frags['variables.txt'].split('\n') if x.strip()]
    if any(m is None for _, m in names):
        raise FragmentError('variables.txt: a line is not `guint32 <name> = 0;`')
    segs, cur, prev = [], [], None
    for x, m in names:
        if prev is not None and m.group(1) <= prev:
            segs.append(cur)
            cur = []
        cur.append(x)
        prev = m.group(1)
    segs.append(cur)
    if len(segs) == 2:
        w['variables'], l['variables'] = '\n'.join(segs[0]) + '\n', '\n'.join(segs[1]) + '\n'
    elif len(segs) == 1:
        notes.append('variables.txt is one ascending list: given to both halves')
        w['variables'] = l['variables'] = '\n'.join(segs[0]) + '\n'
    else:
        raise FragmentError(f'variables.txt consists of {len(segs)} ascending runs, expected 2 (world, login)')
    # enums.txt: [world enums][world flags][login enums][login flags]; an enum = typedef + strings array, a flag = typedef
    blocks = re.findall(r'(?ms)^(typedef enum \{.*?^\} (\w+);\n)(static const val(?:ue|64)_string (\w+)\[\] =\s*\{.*?^\};\n)?',
                        frags['enums.txt'])
    rest = re.sub(r'(?ms)^typedef enum \{.*?^\} \w+;\n(static const val(?:ue|64)_string \w+\[\] =\s*\{.*?^\};\n)?', '',
                  frags['enums.txt'])
    kinds = ''.join('E' if b[2] else 'F' for b in blocks)
    m = re.match(r'^(E+F*)(E+F*)$', kinds)
    if rest.strip() or not m or not re.match(r'^E+F+E+F*$', kinds):
        notes.append('enums.txt does not look like [enums][flags][enums][flags]: whole file given to both halves')
        w['enums'] = l['enums'] = frags['enums.txt']
    else:
        n1 = len(re.match(r'^(E+F+)', kinds).group(1))
        w['enums'] = '\n'.join(b[0] + b[2] for b in blocks[:n1])
        l['enums'] = '\n'.join(b[0] + b[2] for b in blocks[n1:])
    return {'world': w, 'login': l, 'notes': notes}


# ------------------------------------------------------------------------------------------------
# static facts about a half

def labels(parser_text, server_macro):
    """-> {label: {'versions': None | {n: dirs}, 'dirs': set}}: which (protocol version, direction) pairs have code."""
    lines = parser_text.split('\n')
    out = {}
    idx = [i for i, x in enumerate(lines) if re.match(r'^ {8}(case \w+:|default:)\s*$', x)]
    for a, b in zip(idx, idx[1:] + [len(lines)]):
        m = re.match(r'^ {8}case (\w+):', lines[a])
        if not m:
            continue
        body = lines[a + 1:b]
        out[m.group(1)] = _block_cover(body, server_macro)
    return out


def _dirs(body, server_macro):
    body = [x for x in body if x.strip()]
    if not body:
        return set()
    m = re.match(r'^( *)if \(' + server_macro + r'\) \{\s*$', body[0])
    if not m:
        return {'client', 'server'}
    ind = m.group(1)
    for i in range(1, len(body)):
        if body[i].rstrip() == ind + '}':
            if i + 1 < len(body) and body[i + 1].rstrip() == ind + 'else {':
                return {'client', 'server'}
            return {'server'}
    return {'server'}


def _block_cover(body, server_macro):
    sw = [i for i, x in enumerate(body) if re.match(r'^ {12}switch \(\*protocol_version\) \{\s*$', x)]
    if not sw:
        return {'versions': None, 'dirs': _dirs(body, server_macro)}
    vers = {}
    cur, blk = [], []
    for x in body[sw[0] + 1:]:
        m = re.match(r'^ {16}case (\d+):\s*$', x)
        if m:
            if blk:
                for v in cur:
                    vers[v] = _dirs(blk, server_macro)
                cur, blk = [], []
            cur.append(int(m.group(1)))
        elif re.match(r'^ {16}break;\s*$', x) or re.match(r'^ {12}\}\s*$', x):
            for v in cur:
                vers[v] = _dirs(blk, server_macro)
            cur, blk = [], []
            if x.startswith(' ' * 12 + '}'):
                break
        else:
            blk.append(x)
    return {'versions': vers, 'dirs': set().union(*vers.values()) if vers else set()}


def static_refs(half):
    """Declared / registered cross-check of one half.  -> dict of sorted lists."""
    used = set(re.findall(r'\bhf_\w+', half['parser']))
    declared = set(re.findall(r'static int (hf_\w+);', half['imports']))
    registered = re.findall(r'\{ &(hf_\w+),', half['register'])
    regset = set(registered)
    return {
        'used': sorted(used), 'declared': sorted(declared), 'registered': sorted(regset),
        'used_not_declared': sorted(used - declared),
        'used_not_registered': sorted(used - regset),
        'declared_not_registered': sorted(declared - regset),
        'registered_not_declared': sorted(regset - declared),
        'registered_twice': sorted({x for x in registered if registered.count(x) > 1}) if len(registered) != len(regset) else [],
    }


def register_table(half):
    """hf variable -> (abbrev, ft) as written in the register array text."""
    out = {}
    for m in re.finditer(r'\{ &(hf_\w+),\s*\{ "((?:[^"\\]|\\.)*)", "([^"]*)",\s*(FT_\w+),', half['register']):
        out[m.group(1)] = (m.group(3), m.group(4))
    return out


# ------------------------------------------------------------------------------------------------
# C sources + build

_TU = '''/* generated by lib/wsfrag.py for C17: the {half} half of the dissector fragments around csrc/ws_shim.h */
#include "ws_shim.h"
{extra_decl}
#define {macro_s2c} (pinfo->srcport < pinfo->destport)
#define {macro_c2s} (pinfo->srcport > pinfo->destport)
/* opcode names: from the reference reading of the wowm corpus (the real plugin has a hand-written enum) */
enum c17_{half}_opcodes {{
{opcodes}
}};
static gint ett_message = 1;
/* AUTOGENERATED_START_HF */
#include "{half}_imports.inc"
/* AUTOGENERATED_START_ENUM */
#include "{half}_enums.inc"
static hf_register_info c17_hf[] = {{
/* AUTOGENERATED_START_REGISTER */
#include "{half}_register.inc"
    {{ NULL, {{ NULL, NULL, FT_NONE, BASE_NONE, NULL, 0, NULL, HFILL }} }}
}};
hf_register_info* {fn_hf}(int* n) {{ *n = (int)array_length(c17_hf) - 1; return c17_hf; }}

void {fn_body}(guint32 header_opcode, proto_tree* tree, tvbuff_t* tvb, gint32 offset, gint32 offset_packet_end,
               packet_info* pinfo)
{{
    gint32 len = 0;
    tvbuff_t* compressed_tvb = NULL;
{body_decl}
/* AUTOGENERATED_START_VARIABLES */
#include "{half}_variables.inc"
    ptvcursor_t* ptv = ptvcursor_new(wmem_packet_scope(), tree, tvb, offset);
    (void)len; (void)compressed_tvb; (void)pinfo;
/* AUTOGENERATED_START_PARSER */
#include "{half}_parser.inc"
    shim_body_done(ptv);
    ptvcursor_free(ptv);
}}
'''


def write_sources(d, parts, opcodes):
    """opcodes: {'world': {name: value}, 'login': {name: value}}"""
    os.makedirs(d, exist_ok=True)
    for half in ('world', 'login'):
        for k, v in parts[half].items():
            with open(os.path.join(d, f'{half}_{k}.inc'), 'w') as f:
                f.write(v)
        ops = ',\n'.join(f'    {n} = {v}' for n, v in sorted(opcodes[half].items()))
        if half == 'world':
            src = _TU.format(half=half, extra_decl='', macro_s2c='WOWW_SERVER_TO_CLIENT', macro_c2s='WOWW_CLIENT_TO_SERVER',
                             opcodes=ops, fn_hf='woww_hf', fn_body='woww_body', body_decl='')
        else:
            src = _TU.format(half=half, extra_decl='guint8 wow_protocol_version_value = 0;',
                             macro_s2c='WOW_SERVER_TO_CLIENT', macro_c2s='WOW_CLIENT_TO_SERVER', opcodes=ops,
                             fn_hf='wow_hf', fn_body='wow_body',
                             body_decl='    guint8* protocol_version = &wow_protocol_version_value;')
        with open(os.path.join(d, f'frag_{half}.c'), 'w') as f:
            f.write(src)


def source_digest(frags, opcodes):
    h = hashlib.sha256(digest(frags).encode())
    for f in ('ws_shim.c', 'ws_shim.h', 'c17_main.c'):
        with open(os.path.join(CSRC, f), 'rb') as fh:
            h.update(fh.read())
    h.update(_TU.encode())
    h.update(repr(sorted((k, sorted(v.items())) for k, v in opcodes.items())).encode())
    h.update(' '.join(CFLAGS).encode())
    return h.hexdigest()[:16]


def build(frags, parts, opcodes):
    """-> dict(binary | None, dir, errors: [(file, line, msg)], warnings: n, stderr, cached, wall_s).
    Compiles each translation unit separately so that a diagnostic is attributed to one half."""
    if shutil.which('clang') is None:
        raise common.Inconclusive('clang is not installed')
    key = source_digest(frags, opcodes)
    d = os.path.join(OUT, key)
    binary = os.path.join(d, 'c17_harness')
    stamp = os.path.join(d, 'build.ok')
    if os.path.exists(stamp) and os.path.exists(binary):
        with open(stamp) as f:
            warns = int(f.read().strip() or 0)
        return {'binary': binary, 'dir': d, 'errors': [], 'warnings': warns, 'stderr': '', 'cached': True, 'wall_s': 0.0}
    # keep the cache small: drop older build directories
    if os.path.isdir(OUT):
        old = sorted((os.path.getmtime(os.path.join(OUT, x)), x) for x in os.listdir(OUT) if os.path.isdir(os.path.join(OUT, x)))
        for _, x in old[:-3]:
            shutil.rmtree(os.path.join(OUT, x), ignore_errors=True)
    write_sources(d, parts, opcodes)
    t0 = time.time()
    jobs = []
    units = [('frag_world', os.path.join(d, 'frag_world.c')), ('frag_login', os.path.join(d, 'frag_login.c')),
             ('ws_shim', os.path.join(CSRC, 'ws_shim.c')), ('c17_main', os.path.join(CSRC, 'c17_main.c'))]
    for name, src in units:
        cmd = ['clang'] + CFLAGS + ['-I', CSRC, '-I', d, '-c', src, '-o', os.path.join(d, name + '.o')]
        jobs.append((name, subprocess.Popen(cmd, stdout=subprocess.PIPE, stderr=subprocess.PIPE, text=True)))
    errors, warnings, stderr = [], 0, ''
    for name, p in jobs:
        _, err = p.communicate()
        stderr += err
        for m in re.finditer(r'(?m)^(\S+?):(\d+):\d+: (error|fatal error|warning): (.*)$', err):
            if m.group(3) == 'warning':
                warnings += 1
            else:
                errors.append((os.path.basename(m.group(1)), int(m.group(2)), m.group(4), name))
        if p.returncode != 0 and not any(e[3] == name for e in errors):
            errors.append((name, 0, 'compiler failed: ' + err[-400:], name))
    if not errors:
        cmd = ['clang', '-fsanitize=address,undefined', '-g'] + [os.path.join(d, n + '.o') for n, _ in units] + ['-lz', '-o', binary]
        p = subprocess.run(cmd, stdout=subprocess.PIPE, stderr=subprocess.PIPE, text=True)
        stderr += p.stderr
        if p.returncode != 0:
            raise common.Inconclusive('linking the C17 harness failed:\n' + p.stderr[-2000:])
        with open(stamp, 'w') as f:
            f.write(str(warnings))
    common.log(f'[build] c17 harness ({key}) -> {len(errors)} errors, {warnings} warnings in {time.time() - t0:.1f}s')
    return {'binary': binary if not errors else None, 'dir': d, 'errors': errors, 'warnings': warnings, 'stderr': stderr,
            'cached': False, 'wall_s': time.time() - t0}
