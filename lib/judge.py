"""Oracles over codec_driver event logs."""
import struct, zlib


def fnv(b):
    h = 0xcbf29ce484222325
    for x in b:
        h ^= x
        h = (h * 0x100000001b3) & 0xFFFFFFFFFFFFFFFF
    return f'{h:016x}'


def out_bytes(ev, name='out'):
    """bytes of an out field, or None when only a digest was logged"""
    v = ev.get(name)
    if v is None:
        return None
    return bytes.fromhex(v)


def parse_header(family, version, direction, data):
    """-> (header_len, size_field_value, opcode) per the protocol documents, or None."""
    if family == 'login':
        if not data:
            return None
        return 1, None, data[0]
    if direction == 'client':
        if len(data) < 6:
            return None
        return 6, struct.unpack('>H', data[:2])[0], struct.unpack('<I', data[2:6])[0]
    if version == 'wrath' and data and data[0] & 0x80:
        if len(data) < 5:
            return None
        return 5, ((data[0] & 0x7F) << 16) | (data[1] << 8) | data[2], struct.unpack('<H', data[3:5])[0]
    if len(data) < 4:
        return None
    return 4, struct.unpack('>H', data[:2])[0], struct.unpack('<H', data[2:4])[0]


def header_ok(family, version, direction, data, opcode):
    """None if header of `data` is exact for its length, else reason."""
    h = parse_header(family, version, direction, data)
    if h is None:
        return 'output shorter than a header'
    hl, size, op = h
    if op != opcode:
        return f'opcode in header {op:#x} != {opcode:#x}'
    if family == 'login':
        return None
    sl = hl - (4 if direction == 'client' else 2)
    if size != len(data) - sl:
        return f'size field {size} but {len(data) - sl} bytes follow it'
    if version == 'wrath' and direction == 'server':
        if (sl == 3) != (size > 0x7FFF):
            return f'header form {sl}-byte size for size value {size}'
    return None


def same_message(vec, out):
    """Compare re-encoded bytes with the reference encoding; compressed tails by payload.
    -> None or reason."""
    ref = bytes.fromhex(vec['hex'])
    if out == ref:
        return None
    pls = vec.get('payloads') or []
    if not pls:
        # first difference
        n = min(len(out), len(ref))
        i = next((k for k in range(n) if out[k] != ref[k]), n)
        field = None
        for r in vec.get('fmap', []):
            if r[1] <= i < r[1] + max(r[2], 1):
                field = r[0]
                break
        return f'bytes differ at offset {i} (field {field}); expected {ref[max(0, i - 4):i + 8].hex()} got {out[max(0, i - 4):i + 8].hex()}; lengths {len(ref)}/{len(out)}'
    p = pls[-1]
    hdr = vec['hdr']
    doff = p['data_off']
    # the prefix after the header (header size bytes legitimately differ with the stream length)
    if out[hdr:doff] != ref[hdr:doff]:
        return f'uncompressed prefix differs: expected {ref[hdr:doff].hex()[:80]} got {out[hdr:doff].hex()[:80]}'
    payload = bytes.fromhex(p['payload'])
    tail = out[doff:]
    try:
        got = zlib.decompress(tail) if tail else b''
    except zlib.error as e:
        return f'compressed tail does not inflate: {e}'
    if got != payload:
        return f'inflated payload differs ({len(got)} vs {len(payload)} bytes)'
    return None


def judge_roundtrip(vec, ev):
    """C01 oracle for one canonical vector. -> None (held) or dict(reason=..., stage=...)."""
    res = ev.get('result')
    ref = bytes.fromhex(vec['hex'])
    if res == 'panic':
        return {'stage': 'read', 'reason': 'panic', 'panic_at': ev.get('panic_at'), 'panic_msg': ev.get('panic_msg')}
    if res in ('abort', 'timeout'):
        return {'stage': 'read', 'reason': res, 'alloc_refused': ev.get('alloc_refused')}
    if res == 'err':
        return {'stage': 'read', 'reason': 'rejected', 'err_kind': ev.get('err_kind'), 'err_value': ev.get('err_value'),
                'err_text': ev.get('err_text')}
    if res != 'ok':
        return {'stage': 'read', 'reason': f'driver result {res}'}
    if ev.get('consumed') != len(ref):
        return {'stage': 'read', 'reason': 'consumed', 'consumed': ev.get('consumed'), 'length': len(ref)}
    if 'write_err' in ev:
        return {'stage': 'write', 'reason': 'write_err', 'detail': ev['write_err']}
    out = out_bytes(ev)
    if out is None:
        if ev.get('out_len') == len(ref) and ev.get('out_fnv') == fnv(ref):
            out = ref
        else:
            return {'stage': 'write', 'reason': 'bytes', 'detail': f'large output differs (len {ev.get("out_len")} vs {len(ref)})'}
    h = header_ok(vec['family'], vec['version'], vec['dir'], out, vec['opcode'])
    if h:
        return {'stage': 'write', 'reason': 'header', 'detail': h}
    lossy = 'nonfixed-spline' in (vec.get('feat') or [])
    why = None if lossy else same_message(vec, out)
    if why:
        return {'stage': 'write', 'reason': 'bytes', 'detail': why}
    c2 = ev.get('cycle2') or {}
    if c2.get('result') != 'ok':
        return {'stage': 'cycle2', 'reason': 'second decode failed', 'detail': str(c2)[:300]}
    if c2.get('consumed') != len(out):
        return {'stage': 'cycle2', 'reason': 'consumed', 'consumed': c2.get('consumed'), 'length': len(out)}
    if not c2.get('same_bytes'):
        out2 = out_bytes(c2)
        if lossy or out2 is None or same_message(vec, out2):
            return {'stage': 'cycle2', 'reason': 'second encode differs'}
    return None
