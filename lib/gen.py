"""Running the real generator (built from /repo's tree with hook H1) against scratch trees."""
import os, subprocess, shutil, tempfile, hashlib, atexit, time, re, glob
from . import common

GEN_TARGET = os.path.join(common.BUILD, 'gen-target')
_scratch = []


def _cleanup():
    for d in _scratch:
        shutil.rmtree(d, ignore_errors=True)


atexit.register(_cleanup)


def sweep_stale():
    base = tempfile.gettempdir()
    for d in glob.glob(os.path.join(base, 'wowverif-*')):
        m = re.match(r'.*wowverif-(\d+)-', d)
        if m and not os.path.exists(f'/proc/{m.group(1)}'):
            shutil.rmtree(d, ignore_errors=True)


def build_generator():
    """-> path of the hooked generator binary, built from /repo's current tree."""
    env = dict(common.ENV)
    env['RUSTFLAGS'] = '--cfg wow_messages_verif'
    env['CARGO_TARGET_DIR'] = GEN_TARGET
    t0 = time.time()
    p = subprocess.run(['cargo', 'build', '--offline', '--release', '-p', 'wow_message_parser'], cwd=common.REPO, env=env,
                       stdout=subprocess.PIPE, stderr=subprocess.PIPE, text=True)
    common.log(f'[build] generator -> {p.returncode} in {time.time() - t0:.1f}s')
    if p.returncode != 0:
        raise common.Inconclusive('generator does not build:\n' + p.stderr[-3000:])
    return os.path.join(GEN_TARGET, 'release', 'wow_message_parser')


def scratch_tree(src=None):
    """rsync copy of the repository (without target/.git) into a fresh temp dir."""
    src = src or common.REPO
    d = tempfile.mkdtemp(prefix=f'wowverif-{os.getpid()}-')
    _scratch.append(d)
    subprocess.run(['rsync', '-a', '--exclude', '/target', '--exclude', '/.git', '--exclude', '*/target', src.rstrip('/') + '/', d + '/'], check=True)
    return d


def drop(d):
    shutil.rmtree(d, ignore_errors=True)
    if d in _scratch:
        _scratch.remove(d)


def run_generator(binary, tree, strace=False, timeout=300, prefix=None, reads=False):
    """-> dict(exit, stdout, stderr, wall_s, fs_events?)"""
    env = dict(os.environ)
    env['WOWM_VERIF_WORKSPACE'] = tree
    cmd = list(prefix or []) + [binary]
    trace = None
    if strace:
        trace = os.path.join(tree, '.strace.out')
        cmd = list(prefix or []) + ['strace', '-f', '-qq', '-o', trace, '-e', 'trace=openat,unlink,unlinkat,rename,renameat,renameat2,mkdir,mkdirat,rmdir,creat,truncate,ftruncate', binary]
    t0 = time.time()
    try:
        p = subprocess.run(cmd, cwd=tree, env=env, stdout=subprocess.PIPE, stderr=subprocess.PIPE, text=True, timeout=timeout)
        res = {'exit': p.returncode, 'stdout': p.stdout, 'stderr': p.stderr}
    except subprocess.TimeoutExpired:
        res = {'exit': None, 'stdout': '', 'stderr': 'TIMEOUT'}
    res['wall_s'] = time.time() - t0
    if strace and os.path.exists(trace):
        res['fs_events'] = parse_strace(trace, tree)
        if reads:
            res['fs_reads'] = parse_strace(trace, tree, want_reads=True)
        os.remove(trace)
    return res


_OPEN_RE = re.compile(r'^\d+\s+(\w+)\((.*)\)\s+=\s+(-?\d+)')


def parse_strace(path, tree, want_reads=False):
    """-> list of (op, path) for mutating events under the tree (or the read-only opens with want_reads)"""
    ev = []
    with open(path, errors='replace') as f:
        for line in f:
            m = _OPEN_RE.match(line)
            if not m:
                continue
            call, args, ret = m.group(1), m.group(2), int(m.group(3))
            if ret < 0:
                continue
            paths = re.findall(r'"((?:[^"\\]|\\.)*)"', args)
            if call == 'openat':
                if not paths:
                    continue
                flags = args.split(',')[2] if len(args.split(',')) > 2 else ''
                if any(x in args for x in ('O_WRONLY', 'O_RDWR', 'O_CREAT', 'O_TRUNC')):
                    kind = 'create' if 'O_CREAT' in args else 'write-open'
                    if 'O_TRUNC' in args:
                        kind += '+trunc'
                    if not want_reads:
                        ev.append((kind, paths[0]))
                elif want_reads and 'O_DIRECTORY' not in args:
                    ev.append(('read', paths[0]))
            elif want_reads:
                continue
            elif call in ('unlink', 'unlinkat', 'rmdir'):
                ev.append(('unlink', paths[0] if paths else ''))
            elif call in ('rename', 'renameat', 'renameat2'):
                ev.append(('rename', ' -> '.join(paths)))
            elif call in ('mkdir', 'mkdirat'):
                ev.append(('mkdir', paths[0] if paths else ''))
            elif call in ('creat', 'truncate', 'ftruncate'):
                ev.append((call, paths[0] if paths else ''))
    out = []
    for k, p in ev:
        ap = p if os.path.isabs(p) else os.path.join(tree, p)
        if ap.startswith(tree) and '.strace.out' not in ap:
            out.append((k, os.path.relpath(ap, tree)))
    return out


def manifest(tree, exclude=()):
    """sha256 manifest {relpath: digest} of every file under tree (sans target/.git)."""
    out = {}
    for d, dirs, files in os.walk(tree):
        dirs[:] = [x for x in dirs if x not in ('target', '.git')]
        for f in files:
            p = os.path.join(d, f)
            rel = os.path.relpath(p, tree)
            if rel in exclude or rel.startswith('.strace'):
                continue
            try:
                with open(p, 'rb') as fh:
                    out[rel] = hashlib.sha256(fh.read()).hexdigest()
            except OSError:
                out[rel] = 'unreadable'
    return out


def diff_manifests(a, b):
    """-> (only_a, only_b, changed)"""
    ka, kb = set(a), set(b)
    return sorted(ka - kb), sorted(kb - ka), sorted(k for k in ka & kb if a[k] != b[k])


def emptied_files():
    p = '/root/.vp/EMPTIED_FILES.txt'
    if os.path.exists(p):
        return [l.strip() for l in open(p) if l.strip()]
    return ['intermediate_representation.json', 'wow_items/src/tbc/data.rs', 'wow_items/src/vanilla/data.rs',
            'wow_items/src/wrath/data.rs', 'wow_spells/src/tbc/data.rs', 'wow_spells/src/vanilla/data.rs',
            'wow_spells/src/wrath/data.rs']
